"""Replay of ArgShape.tla: every (function, abstract argument, length / shape pattern / output form) call of
spatialmath.base.argcheck is executed once and the descriptor of what comes back (kind and sizes, or the exception
class) is compared with the descriptor the specification derives from the documentation.

gamma: descriptor -> concrete argument;  alpha: result -> descriptor.
"""
import numpy as np


def gamma(a, variant=0):
    k = a["k"]
    base = [1.5, -2.0, 0.25, 4.0, -5.5, 6.0, 7.25]
    if variant:
        base = [3, -2, 1, 4, -5, 6, 7]
    if k == "scalar":
        return base[0]
    if k == "list":
        return list(base[:a["n"]])
    if k == "tuple":
        return tuple(base[:a["n"]])
    if k == "array1":
        return np.array(base[:a["n"]], dtype=float if not variant else int)
    if k == "array2":
        return np.arange(1, a["r"] * a["c"] + 1, dtype=float if not variant else int).reshape(a["r"], a["c"]) * (0.5 if not variant else 1)
    if k == "complex2":
        return np.array([[1 + 1j, 0], [0, 1]])
    if k == "none":
        return None
    if k == "str":
        return "abc"
    if k == "listofstr":
        return ["a", "b"]
    raise ValueError(k)


def gamma_veclist(x):
    el = [(np.arange(x["len"], dtype=float) if x["el"] == "array1" else tuple(float(i) for i in range(x["len"]))) for _ in range(x["m"])]
    return el if x["k"] == "list" else tuple(el)


def alpha(r):
    if isinstance(r, (bool, np.bool_)):
        return {"k": "bool", "b": bool(r)}
    if r is None:
        return {"k": "nothing"}
    if isinstance(r, list):
        return {"k": "list", "n": len(r)}
    if isinstance(r, tuple):
        return {"k": "tuple", "n": len(r)}
    if isinstance(r, np.ndarray):
        if r.ndim == 1:
            return {"k": "array1", "n": int(r.shape[0])}
        if r.ndim == 2:
            return {"k": "array2", "r": int(r.shape[0]), "c": int(r.shape[1])}
        return {"k": "array%d" % r.ndim}
    return {"k": type(r).__name__}


def flat_values(x):
    if isinstance(x, np.ndarray):
        return [float(v) for v in x.flatten()]
    if isinstance(x, (list, tuple)):
        return [float(v) for v in x]
    return [float(x)]


def execute(call, variant=0):
    """-> (outcome descriptor, argument, result)"""
    import spatialmath.base as b
    import spatialmath.base.argcheck as ac
    fn = call["fn"]
    if fn == "isvectorlist":
        arg = gamma_veclist(call["a"])
    else:
        arg = gamma(call["a"], variant)
    none = lambda d: None if d == -1 else d          # noqa: E731
    shp = lambda s: tuple(None if v == 0 else v for v in s)   # noqa: E731
    try:
        if fn == "isvector":
            r = b.isvector(arg, none(call["dim"]))
        elif fn == "getvector":
            r = b.getvector(arg, none(call["dim"]), out=call["out"])
        elif fn == "ismatrix":
            r = b.ismatrix(arg, shp(call["s"]))
        elif fn == "assertmatrix":
            r = ac.assertmatrix(arg, shp(call["s"]))
        elif fn == "verifymatrix":
            r = ac.verifymatrix(arg, tuple(call["s"]))
        elif fn == "getmatrix":
            r = b.getmatrix(arg, shp(call["s"]))
        elif fn == "isnumberlist":
            r = ac.isnumberlist(arg)
        elif fn == "isvectorlist":
            r = ac.isvectorlist(arg, call["n"])
        else:
            raise KeyError(fn)
    except KeyError:
        raise
    except Exception as ex:  # noqa: BLE001
        return {"k": "raise", "e": type(ex).__name__, "mro": [c.__name__ for c in type(ex).__mro__]}, arg, None
    return {"k": "value", "v": alpha(r)}, arg, r


def agrees(expect, got, arg, res):
    """None if the outcome is the documented one, else a short failure mode"""
    if expect["k"] == "unspec":
        return None
    if expect["k"] == "raise":
        if got["k"] != "raise":
            return "no-exception"
        return None if expect["e"] in got["mro"] else "raised-%s-instead-of-%s" % (got["e"], expect["e"])
    if got["k"] == "raise":
        return "raised-%s" % got["e"]
    if got["v"] != expect["v"]:
        return "wrong-kind-or-shape"
    # the elements, in order, are those of the argument
    if expect["v"]["k"] in ("list", "tuple", "array1", "array2") and arg is not None and not isinstance(arg, str):
        try:
            if flat_values(res) != flat_values(arg):
                return "elements-changed"
        except (TypeError, ValueError):
            pass
    return None
