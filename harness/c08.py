"""C08 - operators are type-safe: only documented operand pairs produce a result.

TLC enumerates every cell of the documented operator table (Dispatch.tla): all ordered pairs of
the 16 public classes + scalars/arrays x 10 operators x single/multi-valued operands, with the
documented outcome.  Every cell is executed against the library (operator level, i.e. after
Python's reflection protocol) and the outcome compared.
"""
import operator

import numpy as np

import common
from common import Judge, MachineryError, run_tlc
import elems
from elems import CLS, inject

PID = "C08"

OPS = {"*": operator.mul, "/": operator.truediv, "+": operator.add, "-": operator.sub,
       "**": operator.pow, "@": operator.matmul, "==": operator.eq, "!=": operator.ne,
       "^": operator.xor, "|": operator.or_}

LIST_CLASSES = set(elems.SPEC)


def _dq():
    from spatialmath.DualQuaternion import DualQuaternion, UnitDualQuaternion
    from spatialmath import Quaternion, SE3
    return {"DualQuaternion": lambda k: DualQuaternion(Quaternion([1.0 + k, 2, 3, 4]),
                                                     Quaternion([5, 6, 7, 8.0])),
            "UnitDualQuaternion": lambda k: UnitDualQuaternion(SE3(1.0 + k, 2, 3) * SE3.Rz(0.1 * k + 0.3))}


def make(kind, n, base_id, left_kind=None, variant="generic"):
    """An operand of the given kind holding n values; None if it cannot exist.  variant 'subclass-valued': an object
    of the general class (Quaternion, DualQuaternion) holding values of its special subclass (unit norm, rigid motion)"""
    if kind == "Quaternion" and variant == "subclass-valued":
        from spatialmath import Quaternion
        u = inject("UnitQuaternion", list(range(base_id, base_id + n)))
        q = Quaternion()
        q.data = [np.array(a, dtype=float, copy=True) for a in u.data]
        return q
    if kind == "DualQuaternion" and variant == "subclass-valued":
        if n != 1:
            return None
        from spatialmath.DualQuaternion import DualQuaternion
        from spatialmath import Quaternion
        u = _dq()["UnitDualQuaternion"](base_id)
        return DualQuaternion(Quaternion(np.array(u.real.vec, dtype=float)), Quaternion(np.array(u.dual.vec, dtype=float)))
    if kind in LIST_CLASSES:
        return inject(kind, list(range(base_id, base_id + n)))
    if kind in ("DualQuaternion", "UnitDualQuaternion"):
        return _dq()[kind](base_id) if n == 1 else None
    if kind == "Int":
        return 2
    if kind == "Float":
        return 0.5
    if kind == "Vec":
        dim = 2 if left_kind in ("SO2", "SE2") else 3
        return [1.0, 2.0, 3.0][:dim]
    if kind == "BadArr":
        return np.zeros((5, 7))
    if kind == "PtsMat":
        dim = 2 if left_kind in ("SO2", "SE2", "Twist2") else 3
        return np.arange(1.0, 1.0 + dim * 4).reshape(dim, 4)
    if kind == "SelfMat":
        n_ = {"SO2": 2, "SE2": 3, "SO3": 3, "SE3": 4}.get(left_kind, 3)
        return np.eye(n_) * 2.0 + 0.5
    raise MachineryError("kind " + kind)


def elements_ok(x):
    """An object result must hold only members of its own class (shape level)."""
    name = type(x).__name__
    if name in elems.SPEC:
        shape = elems.SPEC[name][2]
        return all(isinstance(a, np.ndarray) and a.shape == shape for a in x.data)
    return True


def classify(r):
    if r is None:
        return {"k": "none"}
    if r is NotImplemented:
        return {"k": "notimplemented"}
    if isinstance(r, (bool, np.bool_)):
        return {"k": "bool", "n": 1}
    if isinstance(r, (int, float, np.integer, np.floating)):
        return {"k": "scalar"}
    if isinstance(r, np.ndarray):
        if r.dtype == object:
            return {"k": "object-array"}
        return {"k": "array", "n": 1}
    if isinstance(r, (list, tuple)):
        if len(r) and all(isinstance(v, (bool, np.bool_)) for v in r):
            return {"k": "bool", "n": len(r)}
        if len(r) and all(isinstance(v, np.ndarray) for v in r):
            return {"k": "array", "n": len(r)}
        return {"k": "list-of-" + (type(r[0]).__name__ if len(r) else "nothing")}
    name = type(r).__name__
    if name in CLS or name in ("DualQuaternion", "UnitDualQuaternion"):
        n = len(r.data) if hasattr(r, "data") and isinstance(r.data, list) else 1
        return {"k": "obj", "cls": name, "n": n, "members": elements_ok(r)}
    return {"k": "other:" + name}


def execute(e, alias=False):
    """alias: both operands are the very same object (x op x) - the table is by class and length, not by identity"""
    op, L, R = e["op"], e["l"], e["r"]
    a = make(L["c"], L["n"], 1, variant=L.get("v", "generic"))
    b = a if alias else make(R["c"], R["n"], 11, left_kind=L["c"], variant=R.get("v", "generic"))
    if a is None or b is None:
        return None
    try:
        r = OPS[op](a, b)
    except Exception as ex:  # noqa: BLE001
        return {"k": "raise", "e": type(ex).__name__}
    return classify(r)


def judge_cell(j, e, got, alias=False):
    op, L, R, out = e["op"], e["l"], e["r"], e["out"]
    doc = out["doc"]
    cid = (op, L["c"], R["c"])
    multi = "multi" if (L["n"] > 1 or R["n"] > 1) else "single"
    site = "%s%s" % (L["c"], "__or__" if op == "|" else op)            # the dispatch site: left class and operator
    feat = "%s;len(%d,%d)" % (R["c"], L["n"], R["n"])
    if L.get("v", "generic") != "generic" or R.get("v", "generic") != "generic":
        feat += ";%s" % "+".join(x for x in (("left-" + L["v"]) if L.get("v", "generic") != "generic" else "",
                                             ("right-" + R["v"]) if R.get("v", "generic") != "generic" else "") if x)
    if alias:
        feat += ";same-object"
    detail = {"op": op, "l": L, "r": R, "documented": doc, "got": got, "alias": alias}
    if doc["k"] == "unspec":
        # even where the documentation decides nothing else: an arithmetic operator never returns None
        if got["k"] == "none" and op in ("*", "/", "+", "-", "**", "@"):
            j.fail("%s|%s|%s|returned-None" % (PID, site, feat), detail, case_id=cid)
            return
        j.skip("cell not specified by the documentation / C08")
        j.count("unspecified_cells_executed")
        return
    mode = None
    if doc["k"] == "raise":
        if got["k"] != "raise":
            mode = "returned-%s-instead-of-raise" % (got.get("cls") or got["k"])
    elif got["k"] == "raise":
        mode = "raised-%s-instead-of-%s" % (got["e"], doc.get("cls") or doc["k"])
    elif doc["k"] == "obj":
        if got["k"] != "obj" or got["cls"] != doc["cls"]:
            mode = "returned-%s-instead-of-%s" % (got.get("cls") or got["k"], doc["cls"])
        elif not got["members"]:
            mode = "result-holds-foreign-elements"
        elif out["len"] and got["n"] != out["len"]:
            mode = "wrong-length"
    elif doc["k"] == "array":
        if got["k"] != "array":
            mode = "returned-%s-instead-of-array" % (got.get("cls") or got["k"])
    elif doc["k"] == "bool":
        if got["k"] != "bool":
            mode = "returned-%s-instead-of-bool" % (got.get("cls") or got["k"])
        elif out["len"] and got["n"] != out["len"]:
            mode = "wrong-length"
    elif doc["k"] == "scalar":
        if got["k"] != "scalar":
            mode = "returned-%s-instead-of-scalar" % (got.get("cls") or got["k"])
    if mode:
        j.fail("%s|%s|%s|%s" % (PID, site, feat, mode), detail, case_id=cid)
    else:
        j.ok(cid, nontrivial=True)
        j.count("judged_" + doc["k"])
    _ = multi


def run(tier):
    j = Judge(PID)
    r = run_tlc("MC_Dispatch", "Dispatch_c08", timeout=300)
    cells = r.json
    if len(cells) < 10000:
        raise MachineryError("dispatch export too small: %d" % len(cells))
    seen = set()
    n_exec = 0
    for e in cells:
        key = (e["op"], e["l"]["c"], e["l"]["n"], e["r"]["c"], e["r"]["n"], e["l"].get("v"), e["r"].get("v"))
        if key in seen:
            continue
        seen.add(key)
        got = execute(e)
        if got is None:
            j.skip("operand cannot be constructed (multi-valued dual quaternion)")
            continue
        n_exec += 1
        judge_cell(j, e, got)
        if e["l"]["c"] == e["r"]["c"] and e["l"]["n"] == e["r"]["n"] and e["l"].get("v") == e["r"].get("v"):
            try:
                got2 = execute(e, alias=True)
            except Exception:  # noqa: BLE001
                got2 = None
            if got2 is not None:
                n_exec += 1
                judge_cell(j, e, got2, alias=True)
        if e["out"]["doc"]["k"] == "obj" and len(j.samples) < 3:
            j.sample({"cell": e, "got": got})
    # Direction B: operator events of the repository's own tests judged by TLC against Doc
    import c08_trace
    tb = c08_trace.run(j, tier)
    cov = {"states": r.distinct, "transitions": r.generated,
           "traces_validated_against_impl": n_exec + tb.get("events", 0),
           "cells_enumerated": len(seen), "cells_executed": n_exec, "trace_validation": tb,
           "exhaustive": True, "checker_cmd": r.cmd,
           "rule": "case = (operator, left kind, right kind); every ordered pair of the 16 classes + "
                   "Int/Float/Vec/BadArr x 10 operators x lengths {1,2}x{1,2}; non-trivial = cell is "
                   "judged (documented result or must-raise)"}
    return {"judge": j, "coverage": cov, "level": "model_checking", "assumptions": [
        "Dispatch.Doc is the author's transcription of the docstring tables and of the C08 statement; "
        "cells the documentation does not decide are 'unspec' and only executed",
        "operators are invoked through the operator module, after Python's reflection protocol"]}


def replay(rp):
    for c in rp["cases"]:
        e = {"op": c["op"], "l": c["l"], "r": c["r"]}
        print(c["l"], c["op"], c["r"], "documented", c["documented"], "->", execute(e))
    return 0
