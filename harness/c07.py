"""C07 - invalid values are rejected: objects never hold non-members.

Spec: Validity.tla - item kinds (valid / near / far kinds), container forms, Outcome(cls, kinds)
in {accept, reject, reject-or-normalise, dontcare}; membership predicates with their
mathematically defined answers.  TLC enumerates every (class, container form, sequence of item
kinds up to 3 items) and every (predicate, argument kind); gamma_defect realises each kind on
several members, magnitudes and entries.
"""
import itertools
import math
import random

import numpy as np

import common
from common import Judge, MachineryError, run_tlc
import gamma

PID = "C07"
FAR_MAGS = [3e-6, 1e-5, 1e-3, 1.0]        # all beyond the 1e-6 band of the statement
NEAR_MAGS = [1e-12, 1e-9, 1e-7]


SHIFT = [0.0]


def members(cls, rng):
    """a few valid members (as arrays in the form the constructor takes)"""
    out = []
    for (a, b, c) in [(0, 0, 0), (0.3, -0.7, 1.1), (math.pi / 2, 0, 0), (2.0, 1.0, -2.5), (math.pi, 0, 0)]:
        a, b, c = a + SHIFT[0], b - SHIFT[0] / 2, c + SHIFT[0] / 3         # thorough tier: the enumeration is repeated on other members
        R = gamma.rotz(a) @ gamma.roty(b) @ gamma.rotx(c)
        t = np.array([1.5, -2.0, 0.25])
        if cls == "SO3":
            out.append(R)
        elif cls == "SE3":
            T = np.eye(4)
            T[:3, :3] = R
            T[:3, 3] = t
            out.append(T)
        elif cls == "SO2":
            out.append(gamma.rotz(a)[:2, :2])
        elif cls == "SE2":
            out.append(gamma.real_T3(a, t[:2]))
        elif cls == "UnitQuaternion":
            q = np.array([math.cos(a / 2), math.sin(a / 2) * 0.6, math.sin(a / 2) * 0.8, 0.0])
            out.append(q)
        elif cls == "Twist3":      # se(3) matrix
            S = np.zeros((4, 4))
            w = np.array([a, b, c]) + 0.1
            S[:3, :3] = np.array([[0, -w[2], w[1]], [w[2], 0, -w[0]], [-w[1], w[0], 0]])
            S[:3, 3] = t
            out.append(S)
        elif cls == "Twist2":
            S = np.zeros((3, 3))
            S[0, 1], S[1, 0] = -(a + 0.2), a + 0.2
            S[:2, 2] = t[:2]
            out.append(S)
    return out


def defect(cls, kind, base_arr, mag, k):
    """gamma_defect: realise an item kind on a valid member; k selects which entry is hit"""
    a = np.array(base_arr, dtype=float, copy=True)
    n = {"SO2": 2, "SE2": 2, "SO3": 3, "SE3": 3}.get(cls)
    if kind == "valid":
        return a
    if kind == "rotation-2x2":
        return gamma.rotz(0.3 + 0.1 * k)[:2, :2]
    if kind == "rotation-4x4":
        T = np.eye(4)
        T[:3, :3] = a[:3, :3]
        return T
    if cls in ("SO2", "SE2", "SO3", "SE3"):
        if kind == "nonorth" and k % 2 == 1:
            # columns stay of unit length and the determinant positive, but they are no longer orthogonal
            jx = k % n
            i = (jx + 1) % n
            c = a[:n, jx] + mag * a[:n, i]
            a[:n, jx] = c / np.linalg.norm(c)
        elif kind in ("near", "nonorth"):
            i, jx = divmod(k % (n * n), n)
            a[i, jx] += mag
        elif kind == "scaled":
            a[:n, :n] *= (1.0 + mag)
        elif kind == "reflection":
            D = np.eye(n)
            D[k % n, k % n] = -1.0
            a[:n, :n] = a[:n, :n] @ D
        elif kind == "lastrow":
            a[n, k % (n + 1)] += mag
        return a
    if cls in ("Twist3", "Twist2"):
        m = 3 if cls == "Twist3" else 2
        offs = [(i, jx) for i in range(m) for jx in range(m) if i != jx]      # every off-diagonal entry in turn
        if kind == "near":
            i, jx = offs[k % len(offs)]
            a[i, jx] += mag
        elif kind == "diag":
            a[k % m, k % m] = mag
        elif kind == "notskew":
            i, jx = offs[k % len(offs)]
            if k % 3 == 2 and mag >= 1e-3:
                a[:m, :m] *= 1e12            # an element of large magnitude: the mismatch is absolute, not relative
            a[i, jx] += mag
        elif kind == "bottom":
            a[m, k % (m + 1)] = mag
        return a
    if cls == "UnitQuaternion":
        if kind == "near":
            a[k % 4] += mag
        elif kind == "zero":
            a[:] = 0.0
        elif kind == "nonunit":
            a *= (1.0 + max(mag, 1e-3))
        return a
    raise MachineryError("defect %s %s" % (cls, kind))


def holds_only_members(cls, obj, supplied):
    """after acceptance the object must hold exactly the supplied items, none of them None"""
    if len(obj.data) != len(supplied):
        return "wrong-length"
    for got, exp in zip(obj.data, supplied):
        if got is None:
            return "holds-None"
        if not isinstance(got, np.ndarray):
            return "holds-non-array"
        if cls in ("Twist3", "Twist2"):
            continue            # stored as a vector: value correctness is C13's subject
        if cls == "UnitQuaternion":
            if abs(np.linalg.norm(got) - 1) > 1e-9:
                return "holds-non-unit"
            continue
        if got.shape != np.asarray(exp).shape or not np.allclose(got, exp, atol=1e-12, rtol=0):
            return "holds-different-value"
    return None


def residual(cls, a):
    if a is None:
        return float("inf")
    if cls in ("SO2", "SE2", "SO3", "SE3", "UnitQuaternion"):
        try:
            return gamma.validity_residual(cls, a)
        except Exception:  # noqa: BLE001
            return float("inf")
    return 0.0


def construct_case(j, e, rng):
    from spatialmath import SO2, SE2, SO3, SE3, UnitQuaternion, Twist2, Twist3
    C = {"SO2": SO2, "SE2": SE2, "SO3": SO3, "SE3": SE3, "UnitQuaternion": UnitQuaternion,
         "Twist2": Twist2, "Twist3": Twist3}
    call, expect = e["call"], e["expect"]
    cls, form, kinds = call["cls"], call["form"], call["kinds"]
    spec_cls = cls
    mcls = cls
    if cls == "UnitQuaternion(R)":          # unit quaternion built from a 3x3 matrix: items are SO3-like
        cls, mcls = "UnitQuaternion", "SO3"
    ctor = C.get(cls)
    if cls == "SE3.SO3(R)":                 # SE3.SO3(R): a rotation lifted to a rigid motion
        cls, mcls, ctor = "SE3", "SO3", SE3.SO3
    mem = members(mcls, rng)
    variants = []
    far_present = any(k not in ("valid", "near", "nonunit") for k in kinds)
    mags = FAR_MAGS if far_present else (NEAR_MAGS if "near" in kinds else [1e-3])
    for mi, mag in enumerate(mags):
        for v in range(3):
            # the entry hit by a defect moves with the variant AND the magnitude index, so that all entries of the
            # rotation block / all off-diagonal entries of a twist matrix are covered across the magnitudes
            items = [defect(mcls, k, mem[(i + v) % len(mem)], mag, v + i + 3 * mi) for i, k in enumerate(kinds)]
            variants.append((mag, v, items))
    if far_present and cls in ("SO2", "SE2", "SO3", "SE3"):
        base_variants = list(variants)
        variants += [(mag, v, [np.asarray(a, dtype=np.float32) for a in items]) for mag, v, items in base_variants]
        # ... and as object-dtype arrays of ordinary numbers
        variants += [(mag, v, [np.asarray(a, dtype=object) for a in items]) for mag, v, items in base_variants[::2]]
    for mag, v, items in variants:
        arg = items[0] if form == "bare" else (list(items) if form == "list" else tuple(items))
        if form in ("array", "stack"):
            arg = np.array(items)
        f32 = any(np.asarray(a).dtype == np.float32 for a in items)
        if any(np.asarray(a).dtype == object for a in items):
            f32 = "object"
        feat = "%s;%s;mag=%g%s" % (form, ",".join(kinds), mag, ";float32" if f32 is True else ";object-dtype" if f32 else "")
        cid = (spec_cls, form, tuple(kinds), f32)
        site = {"UnitQuaternion(R)": "UnitQuaternion(3x3).__init__", "SE3.SO3(R)": "SE3.SO3"}.get(spec_cls, cls + ".__init__")
        detail = {"kind": "construct", "cls": cls, "form": form, "kinds": kinds, "mag": mag, "variant": v,
                  "items": [np.asarray(x).tolist() for x in items]}
        try:
            obj = ctor(arg)
            raised = None
        except Exception as ex:  # noqa: BLE001
            obj, raised = None, type(ex).__name__
        if expect == "dontcare":
            j.skip("perturbation inside the 1e-12..1e-7 don't-care band")
            j.count("dontcare_" + ("rejected" if raised else "accepted"))
            continue
        if form == "stack":
            # not a documented form (an ndarray may be read as something else, e.g. a vector of angles by SO2): refused,
            # or an object that holds members of its class only - never None, never a non-member
            if raised is not None:
                j.ok(cid)
                j.count("stack_form_refused")
            else:
                bad_el = [a for a in obj.data if a is None or not isinstance(a, np.ndarray) or a.shape != np.asarray(mem[0]).shape
                          or residual(cls, a) > 1e-9]
                if bad_el:
                    mode = "holds-None" if any(a is None for a in obj.data) else "holds-non-member"
                    j.fail("%s|%s|%s|%s" % (PID, site, feat, mode), detail, cid)
                else:
                    j.ok(cid)
                    j.count("stack_form_taken")
            continue
        if expect == "reject":
            if raised is None:
                worst = max([residual(cls, a) for a in obj.data] + [0.0])
                mode = "holds-None" if any(a is None for a in obj.data) else "accepted-non-member"
                j.fail("%s|%s|%s|%s" % (PID, site, feat, mode), dict(detail, residual=worst), cid)
            else:
                j.ok(cid)
        elif expect in ("accept", "accept-or-reject"):
            if raised is not None and expect == "accept-or-reject":
                j.ok(cid)
                j.count("stack_form_refused")
            elif raised is not None:
                j.fail("%s|%s|%s|rejected-valid-%s" % (PID, site, feat, raised), detail, cid)
            else:
                if spec_cls == "SE3.SO3(R)":        # stored as the 4x4 matrix with that rotation block
                    lifted = []
                    for a in items:
                        T = np.eye(4)
                        T[:3, :3] = a
                        lifted.append(T)
                    items = lifted
                bad = holds_only_members(cls, obj, items)
                if bad:
                    j.fail("%s|%s|%s|%s" % (PID, site, feat, bad), detail, cid)
                else:
                    j.ok(cid)
        elif expect == "reject-or-normalise":
            if raised is not None:
                j.ok(cid)
                j.count("nonunit_rejected")
            else:
                bad = holds_only_members(cls, obj, items)
                if bad:
                    j.fail("%s|%s|%s|%s" % (PID, site, feat, bad), detail, cid)
                else:
                    j.ok(cid)
                    j.count("nonunit_normalised")


def object_case(j, e):
    from spatialmath import SO2, SE2, SO3, SE3, UnitQuaternion, Quaternion, Twist2, Twist3, Plucker
    C = {"SO2": SO2, "SE2": SE2, "SO3": SO3, "SE3": SE3, "UnitQuaternion": UnitQuaternion,
         "Twist2": Twist2, "Twist3": Twist3}
    mk = {"SO2": lambda: SO2(0.3), "SE2": lambda: SE2(1, 2, 0.3), "SO3": lambda: SO3.Rx(0.3),
          "SE3": lambda: SE3(1, 2, 3) * SE3.Rx(0.3), "UnitQuaternion": lambda: UnitQuaternion.Rx(0.3),
          "Quaternion": lambda: Quaternion([1, 2, 3, 4]), "Twist2": lambda: Twist2([1, 2, 0.3]),
          "Twist3": lambda: Twist3([1, 2, 3, 0.1, 0.2, 0.3]), "Plucker": lambda: Plucker([1, 0, 0, 0, 0, 1])}
    shape = {"SO2": (2, 2), "SE2": (3, 3), "SO3": (3, 3), "SE3": (4, 4), "UnitQuaternion": (4,),
             "Twist2": (3,), "Twist3": (6,)}
    call = e["call"]
    cls, other, form = call["cls"], call["other"], call["form"]
    nval = call.get("len", 1)
    o = mk[other]()
    for _ in range(1, nval):
        try:
            o.append(mk[other]())
        except Exception:  # noqa: BLE001  (Plucker etc.: single-valued only)
            j.skip("multi-valued argument object cannot be built for this class")
            return
    arg = o if form == "bare" else [o]
    cid = (cls, "from-object", other, form, nval)
    feat = "%s;%s;len=%d" % (form, other, nval)
    try:
        x = C[cls](arg)
    except Exception:  # noqa: BLE001
        j.ok(cid)
        j.count("object_rejected")
        return
    bad = None
    if type(x) is not C[cls]:
        bad = "returned-" + type(x).__name__
    for a in x.data:
        if a is None or not isinstance(a, np.ndarray) or a.shape != shape[cls]:
            bad = "holds-foreign-element"
        elif residual(cls, a) > 1e-9:
            bad = "holds-non-member"
    if bad:
        j.fail("%s|%s.__init__|%s|%s" % (PID, cls, feat, bad),
               {"kind": "construct-from-object", "cls": cls, "other": other, "form": form,
                "stored_shapes": [list(np.shape(a)) for a in x.data]}, cid)
    else:
        j.ok(cid)
        j.count("object_converted")


def mutate_case(j, e):
    """a valid object receives, through its list interface, an object of another class (subclasses included)"""
    from spatialmath import SO2, SE2, SO3, SE3, UnitQuaternion, Quaternion, Twist2, Twist3, Plucker
    mk = {"SO2": lambda k: SO2(0.3 + k), "SE2": lambda k: SE2(1 + k, 2, 0.3), "SO3": lambda k: SO3.Rx(0.3 + k),
          "SE3": lambda k: SE3(1 + k, 2, 3) * SE3.Rx(0.3), "UnitQuaternion": lambda k: UnitQuaternion.Rx(0.3 + k),
          "Quaternion": lambda k: Quaternion([1 + k, 2, 3, 4]), "Twist2": lambda k: Twist2([1 + k, 2, 0.3]),
          "Twist3": lambda k: Twist3([1 + k, 2, 3, 0.1, 0.2, 0.3]), "Plucker": lambda k: Plucker([1, 0, 0, 0, k, 1])}
    shape = {"SO2": (2, 2), "SE2": (3, 3), "SO3": (3, 3), "SE3": (4, 4), "UnitQuaternion": (4,),
             "Twist2": (3,), "Twist3": (6,)}
    call = e["call"]
    cls, other, mut, n = call["cls"], call["other"], call["mutator"], call["len"]
    x = mk[cls](0)
    for k in range(1, n):
        x.append(mk[cls](k))
    o = mk[other](5)
    cid = (cls, "mutate", other, mut)
    feat = "%s;len=%d" % (other, n)
    site = "%s.%s" % (cls, mut)
    try:
        if mut == "append":
            x.append(o)
        elif mut == "insert":
            x.insert(0, o)
        elif mut == "extend":
            x.extend(o)
        else:
            x[n - 1] = o
        raised = False
    except Exception:  # noqa: BLE001
        raised = True
    bad = None
    for a in x.data:
        if a is None or not isinstance(a, np.ndarray) or a.shape != shape[cls]:
            bad = "holds-foreign-element"
        elif cls not in ("Twist2", "Twist3") and residual(cls, a) > 1e-9:
            bad = "holds-non-member"
    if raised and len(x) != n:
        bad = bad or "changed-by-rejected-call"
    if bad:
        j.fail("%s|%s|%s|%s" % (PID, site, feat, bad),
               {"kind": "mutate-with-object", "cls": cls, "other": other, "mutator": mut, "len": n, "raised": raised,
                "stored_shapes": [list(np.shape(a)) for a in x.data]}, cid)
    else:
        j.ok(cid)
        j.count("mutation_rejected" if raised else "mutation_converted")


def predicate_args(pred, kind, rng):
    """list of (argument, magnitude) realising an argument kind for a predicate"""
    cls = {"isR": "SO3", "isrot": "SO3", "isrot2": "SO2", "ishom": "SE3", "ishom2": "SE2",
           "SO2.isvalid": "SO2", "SE2.isvalid": "SE2", "SO3.isvalid": "SO3", "SE3.isvalid": "SE3",
           "Twist2.isvalid": "Twist2", "Twist3.isvalid": "Twist3", "isskewa": "Twist3"}.get(pred)
    out = []
    if kind == "wrong-shape":
        import gamma
        R3, R2 = gamma.rotz(0.7) @ gamma.rotx(-0.4), gamma.rotz(0.7)[:2, :2]
        T4, T3 = np.eye(4), np.eye(3)
        T4[:3, :3], T3[:2, :2] = R3, R2
        T4t, T3t = T4.copy(), T3.copy()
        T4t[:3, 3], T3t[:2, 2] = [1.0, -2.0, 0.5], [1.0, -2.0]
        q = np.array([0.5, -0.5, 0.5, 0.5])
        pool = {"isrot": [R2, T4, T4t, R3[:, :2], np.array([R3, R3])], "SO3.isvalid": [R2, T4, T4t, R3[:, :2], q],
                "isrot2": [R3, T3, T3t, R2[:, :1]], "SO2.isvalid": [R3, T3, T3t, q],
                "ishom": [R3, T3t, T4t[:3, :], np.array([T4t, T4t])], "SE3.isvalid": [R3, T3t, T4t[:3, :], q],
                "ishom2": [R2, T4t, T3t[:2, :]], "SE2.isvalid": [R2, T4t, T3t[:2, :], q],
                # arrays of Euclidean / Frobenius norm exactly 1 that are not 4-vectors
                "UnitQuaternion.isvalid": [R3 / math.sqrt(3.0), T4 / 2.0, np.array([0.6, 0.0, 0.8]), np.array([0.5, 0.5, 0.5, 0.3, 0.4]),
                                           R2 / math.sqrt(2.0)]}
        return [(a, 0.0) for a in pool[pred]]
    if pred == "UnitQuaternion.isvalid":
        qs = [np.array([0.5, -0.5, 0.5, 0.5]), np.array([1.0, 0.0, 0.0, 0.0]), np.array([0.0, 0.6, 0.0, -0.8])]
        mags = [0.0] if kind == "unit" else NEAR_MAGS if kind == "near-unit" else FAR_MAGS
        return [(qv * (1.0 + mg), mg) for mg in mags for qv in qs]
    if cls:
        mags = NEAR_MAGS if kind == "near" else FAR_MAGS
        if kind == "valid":
            mags = [0.0]
        for mi, mag in enumerate(mags):
            for v, m in enumerate(members(cls, rng)[:4]):
                out.append((defect(cls, kind, m, mag, v + 4 * mi), mag))
        if pred == "isR":      # isR also serves 2x2
            for mag in mags:
                out.append((defect("SO2", kind, members("SO2", rng)[1], mag, 1), mag))
        return out
    if pred == "isskew":
        for mag in ([0.0] if kind == "valid" else NEAR_MAGS if kind == "near" else FAR_MAGS):
            for S4 in members("Twist3", rng)[:3]:
                S = S4[:3, :3].copy()
                if kind != "valid":
                    S[0, 1] += mag
                out.append((S, mag))
            S2 = members("Twist2", rng)[1][:2, :2].copy()
            if kind != "valid":
                S2[0, 1] += mag
            out.append((S2, mag))
            # skew-symmetric matrices of large magnitude (exactly skew after scaling); mismatches are absolute
            if kind == "valid" or mag >= 1e-3:
                Sb = members("Twist3", rng)[1][:3, :3] * 1e12
                if kind != "valid":
                    Sb[0, 1] += mag
                out.append((Sb, mag))
        return out
    if pred == "iseye":
        for n in (2, 3, 4):
            I = np.eye(n)
            if kind == "identity":
                out.append((I, 0.0))
            elif kind == "near-identity":
                for mag in NEAR_MAGS:
                    A = I.copy()
                    A[0, n - 1] += mag
                    out.append((A, mag))
            else:
                for mag in FAR_MAGS:
                    A = I.copy()
                    A[n - 1, 0] += mag
                    out.append((A, mag))
        return out
    if pred in ("isunit", "isunitvec"):
        dims = [4] if pred == "isunit" else [2, 3, 4, 6]
        for d in dims:
            u = np.array([0.6, 0.8] + [0.0] * (d - 2))
            if kind == "unit":
                out.append((u, 0.0))
                out.append((np.roll(u, 1), 0.0))
            elif kind == "near-unit":
                out += [(u * (1 + m), m) for m in NEAR_MAGS]
            elif kind == "nonunit":
                out += [(u * (1 + m), m) for m in FAR_MAGS] + [(u * (1 - 1e-3), 1e-3)]
            elif kind == "zero":
                out.append((np.zeros(d), 1.0))
        return out
    if pred == "iszerovec":
        for d in (2, 3, 6):
            if kind == "zero":
                out.append((np.zeros(d), 0.0))
            else:
                out += [(np.r_[m, np.zeros(d - 1)], m) for m in (NEAR_MAGS if kind == "near-zero" else FAR_MAGS)]
        return out
    if pred == "iszero":
        if kind == "zero":
            return [(0.0, 0.0), (0, 0.0)]
        return [(m, m) for m in (NEAR_MAGS if kind == "near-zero" else FAR_MAGS)] + \
               ([(-1e-3, 1e-3)] if kind == "nonzero" else [])
    if pred in ("isunittwist", "isunittwist2"):
        three = pred == "isunittwist"
        w = np.array([0.6, 0.0, 0.8]) if three else np.array([1.0])
        v = np.array([1.0, -2.0, 0.5]) if three else np.array([1.0, -2.0])
        vu = np.array([0.0, 0.6, 0.8]) if three else np.array([0.6, 0.8])
        z = np.zeros_like(w)
        if kind == "unit-rot":
            return [(np.r_[v, w], 0.0), (np.r_[0 * v, w], 0.0)]
        if kind == "unit-trans":
            return [(np.r_[vu, z], 0.0)]
        if kind == "near-unit":
            return [(np.r_[v, w * (1 + m)], m) for m in NEAR_MAGS]
        if kind == "nonunit-rot":
            return [(np.r_[v, w * (1 + m)], m) for m in FAR_MAGS] + [(np.r_[vu, w * 0.5], 0.5)]
        if kind == "nonunit-trans":
            return [(np.r_[vu * (1 + m), z], m) for m in FAR_MAGS]
    raise MachineryError("predicate %s kind %s" % (pred, kind))


def predicate_case(j, e, rng):
    import spatialmath.base as base
    from spatialmath import SO2, SE2, SO3, SE3, Twist2, Twist3, UnitQuaternion
    call, expect = e["call"], e["expect"]
    pred, kind = call["pred"], call["kind"]
    fns = {"isR": lambda a: base.isR(a), "isrot": lambda a: base.isrot(a, check=True),
           "isrot2": lambda a: base.isrot2(a, check=True), "ishom": lambda a: base.ishom(a, check=True),
           "ishom2": lambda a: base.ishom2(a, check=True), "isskew": lambda a: base.isskew(a),
           "isskewa": lambda a: base.isskewa(a), "iseye": lambda a: base.iseye(a),
           "isunit": lambda a: base.isunit(a), "isunitvec": lambda a: base.isunitvec(a),
           "iszerovec": lambda a: base.iszerovec(a), "iszero": lambda a: base.iszero(a),
           "isunittwist": lambda a: base.isunittwist(a), "isunittwist2": lambda a: base.isunittwist2(a),
           "SO2.isvalid": lambda a: SO2.isvalid(a, check=True), "SE2.isvalid": lambda a: SE2.isvalid(a, check=True),
           "SO3.isvalid": lambda a: SO3.isvalid(a, check=True), "SE3.isvalid": lambda a: SE3.isvalid(a, check=True),
           "Twist2.isvalid": lambda a: Twist2.isvalid(a, check=True),
           "Twist3.isvalid": lambda a: Twist3.isvalid(a, check=True),
           "UnitQuaternion.isvalid": lambda a: UnitQuaternion.isvalid(a, check=True)}
    args = list(predicate_args(pred, kind, rng))
    if expect == "false" and kind in ("nonorth", "scaled", "reflection", "lastrow"):
        # the same far arrays in SINGLE precision (the distance from the group is a property of the values, not of
        # the element type): still rejected
        fl = [(a, mg) for a, mg in args if np.asarray(a).dtype.kind == "f"]
        args += [(np.asarray(a, dtype=np.float32), mg) for a, mg in fl]
        args += [(np.asarray(a, dtype=object), mg) for a, mg in fl[::2]]
    for arg, mag in args:
        cid = (pred, kind, str(np.asarray(arg).dtype))
        feat = "%s;mag=%g%s" % (kind, mag, ";float32" if np.asarray(arg).dtype == np.float32 else ";object-dtype" if np.asarray(arg).dtype == object else "")
        detail = {"kind": "predicate", "pred": pred, "argkind": kind, "mag": mag,
                  "arg": np.asarray(arg).tolist()}
        try:
            r = fns[pred](arg)
        except Exception as ex:  # noqa: BLE001
            if np.asarray(arg).dtype == object and expect == "false":
                j.ok(cid)            # an object-dtype array may be refused by an exception instead of False
                continue
            if expect == "dontcare":
                j.skip("don't-care band")
                continue
            j.fail("%s|base.%s|%s|raised-%s" % (PID, pred, feat, type(ex).__name__), detail, cid)
            continue
        if expect == "dontcare":
            j.skip("don't-care band")
            j.count("dontcare_pred_" + str(bool(r)))
            continue
        if r is None or not isinstance(r, (bool, np.bool_)):
            j.fail("%s|base.%s|%s|returned-%s" % (PID, pred, feat, type(r).__name__), detail, cid)
        elif bool(r) != (expect == "true"):
            j.fail("%s|base.%s|%s|answered-%s" % (PID, pred, feat, bool(r)), detail, cid)
        else:
            j.ok(cid)


def primitive_constructors(j, thorough):
    """the membership predicates with check=True accept every value produced by the primitive constructors: every
    constructor case of Ctor.tla (exact angles and valuations: axis lengths, non-orthogonal orientation / approach
    vectors, special angles, both units) through every entry point; the value HELD by the object (or returned by the
    base function) is given to the predicate of its class"""
    import spatialmath.base as base
    from spatialmath import SO2, SE2, SO3, SE3, UnitQuaternion
    import ctorlib as cl
    rc = run_tlc("MC_Ctor", "Ctor_thorough" if thorough else "Ctor_quick", timeout=600)
    preds = {"SO2": lambda a: SO2.isvalid(a, check=True), "SE2": lambda a: SE2.isvalid(a, check=True),
             "SO3": lambda a: SO3.isvalid(a, check=True), "SE3": lambda a: SE3.isvalid(a, check=True),
             "UnitQuaternion": lambda a: UnitQuaternion.isvalid(a, check=True)}
    n = 0
    for case in rc.json:
        if "fn" not in case or case["fn"] in ("v-norm", "v-interp"):
            continue
        exact_known = case["val"]["den"] != 0
        for unit in ("rad", "deg"):
            for label, thunk in (cl.entry_points(case, unit) if exact_known else cl.v_entry_points(case, unit)):
                cid = ("primitive", label, case["fn"])
                try:
                    v = thunk()
                except Exception:  # noqa: BLE001  (a constructor that raises holds nothing: C01's subject)
                    continue
                items = []
                if hasattr(v, "data") and type(v).__name__ in preds:
                    items = [(type(v).__name__ + ".isvalid", preds[type(v).__name__], a) for a in v.data]
                elif isinstance(v, np.ndarray) and v.dtype.kind == "f":
                    if v.shape == (4, 4):
                        items = [("ishom", lambda a: base.ishom(a, check=True), v)]
                    elif v.shape == (3, 3):
                        items = [("ishom2", lambda a: base.ishom2(a, check=True), v)] if label in cl.PLANAR_HOM else \
                            [("isrot", lambda a: base.isrot(a, check=True), v)]
                    elif v.shape == (2, 2):
                        items = [("isrot2", lambda a: base.isrot2(a, check=True), v)]
                for pname, pred, a in items:
                    n += 1
                    try:
                        ok = bool(pred(a))
                    except Exception as ex:  # noqa: BLE001
                        ok = False
                    if not ok:
                        j.fail("%s|%s|value-of-%s;%s|rejects-a-constructed-value" % (PID, pname, label.replace("|", "_"), case["fn"]),
                               {"kind": "primitive", "entry": label, "case": case, "unit": unit, "value": np.asarray(a).tolist()}, cid)
                    else:
                        j.ok(cid)
    return n


def run(tier):
    j = Judge(PID)
    rng = random.Random(common.seed() + 6)
    r = run_tlc("MC_Validity", "Validity", timeout=300)
    seen = set()
    for rep, e in [(rep, e) for rep in range(6 if tier == "thorough" else 1) for e in r.json]:
        SHIFT[0] = [0.0, 0.37, -1.3, 2.2, 0.011, -2.9][rep]
        key = str(e["call"]) + str(rep)
        if key in seen:
            continue
        seen.add(key)
        if e["call"]["op"] == "construct":
            construct_case(j, e, rng)
        elif e["call"]["op"] == "construct-from-object":
            object_case(j, e)
        elif e["call"]["op"] == "mutate-with-object":
            mutate_case(j, e)
        else:
            predicate_case(j, e, rng)
    if len(seen) < 2000:
        raise MachineryError("validity export too small")
    j.sample({"case": r.json[100]})
    j.sample({"case": r.json[-5]})
    SHIFT[0] = 0.0
    n_prim = primitive_constructors(j, tier == "thorough")
    cov = {"constructed_values_given_to_predicates": n_prim, "states": r.distinct, "transitions": r.generated, "traces_validated_against_impl": len(seen),
           "exhaustive": True, "checker_cmd": r.cmd,
           "rule": "case = (class, container form, sequence of item kinds) or (predicate, argument kind); each realised "
                   "on 3 members x 3 magnitudes x varying entry; non-trivial = all"}
    return {"judge": j, "coverage": cov, "level": "model_checking", "assumptions": [
        "far = perturbation >= 1e-5 in one entry / reflection / corrupted last row (distance from the group "
        "well above 1e-6); 1e-12..1e-7 is the don't-care band and is only counted",
        "for UnitQuaternion a non-unit non-zero 4-vector may be rejected or stored normalised"]}


def replay(rp):
    for c in rp["cases"][:10]:
        print({k: c[k] for k in c if k in ("cls", "form", "kinds", "mag", "pred", "argkind", "residual")})
    return 0
