"""Regenerate MANIFEST.json from the table below (keeps it schema-valid at all times)."""
import json
import os

V = os.path.dirname(os.path.dirname(os.path.abspath(__file__)))

CHECKS = {
    "C10": dict(
        text="TLC exhaustively explores the SMList model (Python-list semantics transcribed from CPython, "
             "validated edge by edge against CPython's own list): every transition for lengths 0..12 x indices "
             "-7..7 x all 1792 slices x argument kinds is replayed into every list-capable class; every "
             "depth-2 (quick) / depth-3 (thorough) path and random depth-60 behaviours are driven through one live "
             "object; recorded traces of an independent random driver and of the repository's own 228 tests are "
             "judged by TLC (SMListTrace). Exhaustive within these bounds, which are the bounds the property states; "
             "sampled beyond (depth-4 paths, long behaviours).",
        note="Trusted: TLC/SANY, the id<->member encoding in harness/elems.py, '.data' as the abstract state "
             "of an object. Copy-construction of spatial-vector classes is explored but not judged.",
        technique="TLA+ state machine (SMList.tla) model-checked with TLC; transition/path replay into the "
                  "library + trace validation of recorded executions (SMListTrace.tla)",
        ref="6 (C10), 3.2, 3.3"),
    "C08": dict(
        text="TLC enumerates every cell of the documented operator table (Dispatch.tla: all ordered pairs of the 16 "
             "public classes plus Int/Float/conforming and non-conforming arrays x 10 operators x single/multi-valued "
             "operands = 12.8k cells), checks the table's own sanity (2D x 3D, rotation x rigid, matrix x quaternion/twist "
             "are all must-raise, results name real classes, scalar products commute) and exports the documented outcome; "
             "every cell is executed against the library after Python's reflection protocol and compared (class of the "
             "result, never None / identity / foreign elements, must-raise). Operator calls made by the repository's "
             "own tests are recorded at the special-method level and judged by TLC (DispatchTrace). Exhaustive over the "
             "finite table, which is exactly the quantifier of C08.",
        note="Trusted: the transcription of the docstring tables into Dispatch!Doc (cells the documentation does not "
             "decide are 'unspec': executed, not judged); values of results are judged by C02/C04/C09/C20, not here.",
        technique="TLA+ dispatch-table machine (Dispatch.tla) enumerated by TLC; per-cell replay into the library; "
                  "trace validation of the test-suite's operator calls (DispatchTrace.tla)",
        ref="6 (C08), Appendix B"),
    "C09": dict(
        text="TLC enumerates (Dispatch.tla, Broadcast part) every (class, operator, m, n) with m, n in 0..5 for the 8 "
             "list-capable classes and operators * / + - == != ** and pose*point, every per-value method named by the "
             "statement and interp over a vector of s, and exports the result length and the Pick map (which element of "
             "each operand feeds result i) or ValueError; LenRule is checked by TLC. Every case is executed on operands "
             "built from pairwise distinguishable members and each result element compared with the library's own "
             "single-valued operation on the picked elements. Exhaustive within the bounds the property states. "
             "In addition SeqMachine.tla drives ONE live multi-valued object (SE3, SO3, UnitQuaternion, SE2, SO2, Twist3, "
             "Twist2) through TLC-generated behaviours interleaving broadcasting products / quotients, inv, **, prod and "
             "the list operations over the EXACT rigid-motion domain; every value of the object is compared with the "
             "specification's exact value after every step (its invariants and action properties are model-checked "
             "exhaustively on a small instance).",
        note="Oracle for element values is the single-valued operation itself (statement's wording); its correctness is "
             "C02/C04. Result containers (object, list, array stacked on first or last axis) are all accepted. Methods "
             "not named by the statement (Twist accessors, angvec, ...) are explored and counted, not judged.",
        technique="TLA+ broadcast/dispatch machine enumerated by TLC; per-case replay into the library",
        ref="6 (C09)"),
    "C02": dict(
        text="The group laws are invariants of the exact model (ExactRigid.tla: integer quaternions up to scale, rational "
             "translations) checked by TLC on every state of GroupMachine.tla: the closed lattice cube-group x {-1,0,1}^3 "
             "(648 states, all operations incl. X**n, |n|<=8), its planar counterpart (36), rational motions (generic "
             "angles 36.87..143.13 deg) and all ordered pairs of cube motions (thorough). Every transition and every "
             "depth-5 expression tree is replayed in SO2 SE2 SO3 SE3 UnitQuaternion (up to sign) Twist2 Twist3 (as "
             "motions) and compared with the exact value at translation scales 1e-6..1e6 (exact by homogeneity). "
             "Off the exact domain the same laws are evaluated by the implementation on both sides at real "
             "elements with angles in [0,pi] incl. 0, pi and values within 1e-12 of them (sampled valuations).",
        note="Exact oracle only on the integer/rational sub-domain; elsewhere laws + cross-route agreement (a defect "
             "common to all routes that respects every law would be missed). Twist routes through an exact half turn "
             "are left to C03.",
        technique="TLA+ exact group model (ExactRigid/GroupMachine) model-checked with TLC; transition and "
                  "expression-tree replay into the library; law instances on sampled real valuations",
        ref="6 (C02), 2.2, 4"),
    "C01": dict(
        text="Every named constructor is an action of Ctor.tla with its exact value on the Gaussian-angle / integer-"
             "quaternion domain (TLC checks ValOK and the sanity of the three documented axis orders) and, in the "
             "valuation family, with symbolic arguments (0, +-pi/2, +-pi, each +-1e-12, many turns, axis lengths "
             "1e-3..1e6, |t| up to 1e6). TLC enumerates all (constructor, order, angle, axis, translation) cases; each "
             "is executed through every entry point bound to the action (base function, SO2/SE2/SO3/SE3/UnitQuaternion/"
             "Twist3) in both units and the result checked with the property's own predicate (1e-9) and against the "
             "exact value where the spec has one. Results are pushed through TLC-generated expression programs "
             "(*, /, inv, **n), prod, interp, normalisation and the Rand constructors, re-checking every value. "
             "Exhaustive over the enumerated option/tag space; real arguments are sampled by tag.",
        note="GroupMachine!C01_Closure is the model-level counterpart (TLC). Validity is judged on stored arrays; "
             "uniformity of Rand is not checked.",
        technique="TLA+ constructor machine (Ctor.tla, ExactAngles.tla) enumerated by TLC; per-entry-point replay; "
                  "validity predicate + exact comparison",
        ref="6 (C01)"),
    "C04": dict(
        text="GroupMachine.tla carries a representation variable and a Conv action for every conversion the library "
             "offers among {SO3, SE3, UnitQuaternion, Twist3, UnitDualQuaternion} and {SO2, SE2, Twist2} (+ SE2->SE3); "
             "TLC checks that conversion leaves the abstract motion unchanged (C04_ConvKeeps, C04_RepShape) on the closed "
             "lattice (1992 states, every transition replayed) and generates behaviours that interleave group operations "
             "and conversions; a live object is carried through them and compared with the exact motion after every "
             "step, so convert(X*Y)=convert(X)*convert(Y) and convert(X.inv())=convert(X).inv() are exercised in every "
             "order. Every named constructor (Ctor.tla) must give the documented rotation in every class offering it. "
             "Valuations: round trips at angles within 1e-12..1e-9 of 0 and pi, q vs -q equality, embeddings acting on points.",
        note="UnitDualQuaternion values are built and read through the library's SE3 conversions; exact oracle on the "
             "rational sub-domain only, valuations judged by round trip / cross-route agreement to 1e-6.",
        technique="TLA+ group machine with representation/conversion actions, TLC exhaustive lattice + simulated "
                  "behaviours replayed through one live object",
        ref="6 (C04)"),
    "C06": dict(
        text="PointAction.tla computes R p + t exactly on rational points; (XY)p = X(Yp), X^-1(Xp) = p, distance and "
             "handedness preservation are TLC-checked laws of the model. TLC enumerates every call form (one pose x N "
             "points N=1..7 in list/tuple/1-D/row/column/d x N form; 2..5 poses x one point; 3D and 2D) and each is "
             "executed through the matrix classes, UnitQuaternion, UnitDualQuaternion, homtrans and qvmul at data "
             "scales 1e-6, 1, 1e6; values and result shapes are compared with the exact columns (1e-9 relative). "
             "Further call forms: X.inv() of a multi-valued X applied column by column to X*p; rotations by tiny angles "
             "(1e-9..1e-5) and within 1e-9..1e-5 of a half turn through every route against Rodrigues' formula.",
        note="Poses are a fixed list of lattice and rational motions; real-valued poses are covered by C02/C04 laws.",
        technique="TLA+ exact point-action model enumerated by TLC; per-route replay",
        ref="6 (C06)"),
    "C07": dict(
        text="Validity.tla defines item kinds (valid, near = don't-care band, far kinds: non-orthogonal, scaled, reflection, "
             "corrupted last row, non-algebra-form twist matrices, zero / non-unit quaternion), container forms and the "
             "outcome accept / reject / reject-or-normalise; TLC checks its sanity (one far item anywhere forces "
             "rejection) and enumerates every (class, form, sequence of up to 3 item kinds), every (class, object of "
             "another class) and every (predicate, argument kind). Each case is realised on several members, "
             "magnitudes 1e-5..1 and entries; outcomes, absence of None / foreign elements and, on acceptance, equality "
             "of the stored items with the supplied ones are compared. Exhaustive over the finite kind space.",
        note="Perturbations of 1e-12..1e-7 are explored and counted, never judged (the statement's 1e-6 band).",
        technique="TLA+ validity table machine enumerated by TLC; gamma_defect realisation and replay",
        ref="6 (C07)"),
    "C15": dict(
        text="Api.tla is the interface table: 100+ entries (base functions, constructors, methods, pose*vector) with the "
             "admissible lengths of each vector argument, the entries that take or return angles with a unit, the entries "
             "with an axis order, and the separate-scalar call forms. TLC checks the table's sanity and enumerates every "
             "(entry, argument, container form in {list, tuple, 1-D, row, column}, length 0..8, int/float), every unit / "
             "bad unit / order name, alias and misspelling / scalar-vs-packed case with its expected outcome; each is "
             "executed: accepted forms must give results identical (shape and bits) to the 1-D array form, wrong lengths "
             "must raise (never None, truncation or padding), deg must equal rad, unknown units/orders must raise. "
             "Exhaustive over the table; the table is cross-checked against the package's export list by reflection and "
             "names it does not cover are listed in evidence.",
        note="The table is the author's transcription of signatures/docstrings. Predicates (is*) are only checked for "
             "form-interchangeability, not for rejecting wrong lengths; 2-D point-set arguments are out of scope as the "
             "statement says.",
        technique="TLA+ interface-table machine (Api.tla) enumerated by TLC; per-case replay with a bitwise oracle "
                  "(result of the 1-D array form)",
        ref="6 (C15)"),
    "C17": dict(
        text="SpatialMath.tla is the system specification: a heap of library objects and arrays transformed by "
             "constructors, operators (outcomes from DispatchTable), per-value methods, conversions, list mutators and "
             "augmented assignment. Its action property C17_Frame (a step changes nothing but its designated target; only "
             "list mutators / augmented assignment / drop designate one) and RaiseFrame are model-checked exhaustively on a "
             "small heap, and TLC generates depth-25 behaviours in which results flow into later calls; they are replayed "
             "on live objects and the content hash of EVERY live object is compared after every step, together with the "
             "model's prediction of class and length. In addition every entry of the Api table in every container form "
             "(argument bytes before/after, call twice for determinism), every matrix-argument entry, every cell of the "
             "operator table (both operands; right operand for augmented forms) and every public method/property found "
             "by reflection (single- and multi-valued receivers, display methods included) are executed. Sharing.tla "
             "(value semantics: several objects derived from one another by indexing, slicing, construction, append / "
             "extend / insert and then mutated through the list interface; action property Frame) is explored "
             "exhaustively to depth 3 (56k behaviours; depth 4 sampled in the thorough tier) and every behaviour is "
             "replayed with EVERY live object compared after EVERY step.",
        note="A heap behaviour is abandoned at the first step whose outcome differs from the model in class/length/"
             "exception (those differences belong to C08/C09/C10 and are counted in evidence). Methods needing arguments "
             "are reached through the Api table, not by reflection; graphics/animation entry points are not called.",
        technique="TLA+ heap machine (SpatialMath.tla) model-checked + simulated by TLC; behaviour replay with full-heap "
                  "content hashes; table-driven argument snapshots",
        ref="6 (C17), 2.4"),
    "C12": dict(
        text="ExactQuat.tla states every identity of the statement as a theorem over the integers and TLC evaluates each on "
             "a grid that is sufficient for its polynomial degree ({0,1}^n for multilinear ones, {0,1,2}^n for quadratic "
             "ones, all basis tuples for the trilinear dual-quaternion laws) - a proof for the specification over any "
             "commutative ring - plus unit dual norm and homomorphism of the rigid-motion embedding on the rational "
             "lattice. The implementation (base functions, Quaternion / UnitQuaternion / DualQuaternion operators and "
             "methods) is executed on the same grids, random integers and sigma-scaled copies; results are logged as "
             "integer events and judged by TLC (QuatTrace.tla), ~13k events per run. exp/log: lattice values and the two "
             "round-trip laws on sampled magnitudes 1e-6..1e6 and |v| up to pi-1e-6, and on the structured cases of "
             "QuatExpLog.tla (every integer quaternion of the -2..2 box incl. pure ones at several scales; vector parts of "
             "norm k pi/4 with the exact eighth-turn table); products of unit dual quaternions of integer rigid motions "
             "judged by TLC up to the sign of the whole 8-vector; dual norm (1,0) for every unit "
             "dual quaternion built from lattice motions at scales 1e-3..1e6.",
        note="The 'proof' reading needs the assumption that each implementation function is a polynomial map of the "
             "stated degree (checked on extra points, not proved). The symbolic execution of library code mentioned in "
             "the statement's quantifier is a different technique and is not used.",
        technique="TLA+ exact algebra with TLC-evaluated theorems on degree-sufficient grids; recorded integer events "
                  "judged by TLC (trace validation of pure functions)",
        ref="6 (C12), 2.2"),
    "C13": dict(
        text="ExactLie.tla: skew/vex/skewa/vexa for so(2), so(3), se(2), se(3), skew(a)b = a x b, the adjoint as an integer "
             "matrix over a common denominator, ad(S), the velocity Jacobian, delta2tr / tr2delta. TLC evaluates the "
             "theorems (bilinear ones on basis vectors; Ad(T1T2)=Ad(T1)Ad(T2), Ad(T^-1)Ad(T)=I, Ad(T)S = vee(T[S]T^-1) on "
             "the cube-group and rational lattices). The base functions and SE3.Ad/jacob, Twist3.ad are executed on integer "
             "vectors (scales 1e-6..1e6) and lattice/rational motions; results are logged as integer events and judged by "
             "TLC (LieTrace.tla). Laws involving exp of a general twist, Twist3.Ad, the first-order agreement of tr2delta "
             "with the logarithm (|d| = 1e-9..1e-2, bound 2|d|^2) and real-valued motions with |t| up to 1e3 are "
             "evaluated on sampled valuations.",
        note="exp(ad S) uses a 12-line power-series expm in the harness (trusted). Exact oracle on the integer / rational "
             "sub-domain only.",
        technique="TLA+ exact Lie-algebra model with TLC-evaluated theorems; integer events judged by TLC; laws on "
                  "sampled valuations",
        ref="6 (C13)"),
    "C19": dict(
        text="ExactLine.tla decides incidence, parallelism, intersection and equality of Pluecker lines division-free over "
             "the integers and gives principal point, foot, distances, plane intersection as exact rationals; six "
             "geometric theorems are TLC-checked on integer boxes. LineCases.tla constructs ~2800 cases (lines from two "
             "points / point+direction / two planes with queries, lines transformed by lattice and rational motions, line "
             "pairs CONSTRUCTED in general / parallel / intersecting / coincident position with PairSanity as invariant, "
             "plane hits, plane membership); each is executed at data scales 1e-3, 1, 1e3 and compared to 1e-9 relative "
             "to the data magnitude. Incidence is measured as a residual on the object's own (v, w).",
        note="Boolean predicates (contains, ==, !=, |, ^, isparallel) use absolute thresholds of a few eps in the library: "
             "they are judged only on configurations whose floating-point evaluation is exact or whose margin is large, "
             "and merely counted elsewhere. The line-line intersection point (intersects()) is not named by C19.",
        technique="TLA+ exact line geometry + constructed-case machine enumerated by TLC; per-case replay at three scales",
        ref="6 (C19)"),
    "C20": dict(
        text="ExactSpatial.tla: crm/crf as integer matrices, the duality (v x* f).m = -f.(v x m) proved on basis triples, "
             "v x v = 0, symmetry and parallel-axis form of the spatial inertia, momentum of a translating body, Ad / Ad' "
             "transport (from ExactLie). The four spatial-vector classes, SpatialInertia, SE3* and Twist3* are executed on "
             "integer 6-vectors (basis, random, scales 1e-6/1/1e6), integer (m, c, I) and lattice/rational motions; ~27k "
             "integer events are judged by TLC. Typed arithmetic is enumerated over every ordered pair of classes and "
             "lengths 1..3 (same class in/out, mixed classes and unequal lengths must raise, documented product classes).",
        note="Each implementation map is assumed polynomial in its arguments (checked on extra points).",
        technique="TLA+ exact spatial algebra; integer events judged by TLC; exhaustive typed-operator enumeration",
        ref="6 (C20)"),
    "C03": dict(
        text="Screw.tla DEFINES the exponential by Chasles' screw form T_p Rot(q) T_{a v} T_{-p} over integer quaternions, "
             "integer axis points and rational axial translations; TLC checks on every generated case (4065 screws, "
             "translations, 24 planar rotations) that the motion fixes the axis, shifts axis points by a v, has rotation part "
             "q and is valid, and exports the exact matrix. The harness forms the exponential coordinates from the same "
             "integers and checks every exp entry point (vector / matrix argument, unit twist + theta, SE3.Exp, Twist3.exp, "
             "SO3.Exp, 2D counterparts) against the exact matrix and every log entry point (twist=True/False, SE3.log, "
             "SE3.Twist3, Twist3(SE3), SO3.log, 2D) against the coordinates, finiteness, algebra form and |w| <= pi, at "
             "translation scales 1e-6..1e6. Valuations: rotation magnitude log-uniform 1e-12..pi and pi-1e-12..pi, axes "
             "incl. coordinate and near-degenerate ones, |t| 0..1e6: exp(log T)=T, log(exp S)=S (<= pi-1e-6), one-parameter "
             "subgroup, exp(S,theta)=exp(theta S), agreement with a power-series expm for |t| <= 1e3, class methods.",
        note="Exactness only on the rational screw family; elsewhere laws and the series (a defect respecting all of them is missed).",
        technique="TLA+ screw-motion model (Screw.tla) checked and enumerated by TLC; replay of exp/log entry points; laws on valuations",
        ref="6 (C03)"),
    "C05": dict(
        text="ExactAngles.tla / Ctor.tla fix the documented axis orders as exact products of elementary rotations (OrderSanity, "
             "ValOK checked by TLC). TLC enumerates angle triples over quarter turns (every singular configuration) and "
             "Pythagorean angles x 3 orders + 3 aliases, Euler triples and 272 axis-angle rotations. For each exact R: "
             "constructors reproduce R; rebuilding from the extracted angles (library constructor AND the documented product "
             "formed by the harness) reproduces R to 1e-6; ranges; deg = rad*180/pi; base functions and SO3/SE3/"
             "UnitQuaternion methods, SO(3) and SE(3) input, flip on/off; planar (x,y,theta). Offsets 1e-12..1e-1 either side "
             "of every singular value (pitch +-90, Euler theta 0/pi, angle 0/pi) are valuations.",
        note="At singular configurations any in-range triple that rebuilds R is accepted.",
        technique="TLA+ exact angle-set model enumerated by TLC; extraction/rebuild replay; sampled offsets",
        ref="6 (C05)"),
    "C11": dict(
        text="Interp.tla: for end poses m0 p^n the interpolant at s = k/n is exactly [q0 p^k, t0 + (k/n)(t1 - t0)] (Endpoints "
             "invariant; FixedAxis, AllValid theorems). 3136 curves (n <= 4, 7 starts x 7 steps x 16 translation pairs, 128 "
             "planar) are replayed through trinterp (SO3 / SE3), SO3/SE3.interp, UnitQuaternion.interp, slerp (shortest on/off, "
             "with/without start), trinterp2, SO2/SE2.interp, scalar and vector s, scales 1e-3..1e3; where the shorter arc is "
             "not requested the other arc about the same axis is accepted. Valuations: relative angle 1e-12..pi-1e-6, s in "
             "{0, 1e-12, .., 1-1e-12, 1}: validity, linear translation, fixed axis and angle proportional to s; s outside "
             "[0,1] must raise for the 3D matrix and quaternion interpolators.",
        note="Antipodal quaternion pairs are excluded as in the statement.",
        technique="TLA+ exact interpolation model enumerated by TLC; curve replay through every interpolator; valuations",
        ref="6 (C11)"),
    "C14": dict(
        text="Normalise.tla: directions of integer data are exact - matrix normalisation keeps a, n || o x a, o' || a x (o x a) "
             "(FrameOK), vectors/quaternions keep direction, unit twists have unit rotational or (irrotational) translational "
             "part, angle wrapping on quarter turns is arithmetic mod 4 (WrapOK); TLC enumerates 24 cube rotations x integer "
             "noise E/K x translations, integer vectors/twists, all quarter-turn pairs in -9..9. trnorm, SO3/SE3.norm, "
             "trnorm2, SO2/SE2.norm, unitvec(_norm), unit, Quaternion.unit, UnitQuaternion(), unittwist(_norm), unittwist2, "
             "Twist3/Twist2.unit, angdiff are checked for validity, idempotence (1e-12), valid-input-unchanged, preserved "
             "translation / approach axis / plane, at noise 1e-15..1e-2, norms 1e-6..1e6, zero-threshold twists, real angles "
             "within +-1e3 incl. multiples of pi.",
        note="For real-valued noise the expected directions are cross products of the input columns formed by the harness.",
        technique="TLA+ direction-preservation model enumerated by TLC; replay with magnitude valuations",
        ref="6 (C14)"),
    "C18": dict(
        text="Shares Screw.tla with C03: zero-pitch screws about integer axes through integer points with AxisFixed / "
             "AxialShift / ValidAll checked by TLC. Twist3.Revolute/Prismatic and Twist2.Revolute/Prismatic are built from "
             "the same integers with axis lengths 1e-3..1e6; exp(theta S) (scalar / vector theta, rad / deg, S*theta, "
             "theta*S, se3 form) is compared with the exact matrix and, for theta = k pi/2 (k = -4..4), with exact integer "
             "powers; axis points must stay fixed and R u = u, trace = 1 + 2 cos(theta) for arbitrary theta; pitch, pole, "
             "line, theta, isprismatic, inverse are checked against the axis data.",
        note="For theta off the exact family the axis-fixed / axis-invariant / trace conditions characterise the rotation.",
        technique="TLA+ screw-motion model enumerated by TLC; replay through the twist classes",
        ref="6 (C18)"),
    "C16": dict(
        text="Api.tla lists the 46 entries documented ':SymPy: supported' and 10 symbolic pose expressions; TLC enumerates "
             "(entry, all-symbolic | mixed symbols and numbers). Each is called with SymPy symbols, substituted at special "
             "angles (0, +-pi/2, pi), special lengths (0, 1e-6, 1e6) and random points and compared (1e-12 relative) with the "
             "numeric call at the same numbers; entries the numeric path returns as exactly 0 or 1 at every point must be "
             "symbol-free 0 / 1 in the symbolic result; symbolic rotx/roty/rotz substituted at the exact Gaussian angles of "
             "Ctor.tla (rational cos/sin) must give TLC's exact matrices. Pose expressions cover compose, invert, power, "
             "divide and action on points.",
        note="SE3.Delta is documented as SymPy-supported but normalises numerically (after the repair of C15) and is not "
             "exercised symbolically; the spec's role here is the entry/mode enumeration and the exact constructor values.",
        technique="TLA+ interface table enumerated by TLC; symbolic-vs-numeric replay with exact substitution at lattice angles",
        ref="6 (C16)"),
}

ENGINE = {"name": "tlc-replay", "path": "/verif/check",
          "kind_free_text": "explicit TLA+ specifications under /verif/spec checked with TLC; behaviours "
                            "exported as JSON and replayed into the library; recorded traces judged by TLC"}


def main():
    props = [json.loads(l) for l in open(os.path.join(V, "properties.jsonl"))]
    checks = []
    for p in props:
        pid = p["id"]
        if pid not in CHECKS:
            continue
        c = CHECKS[pid]
        checks.append({
            "property_id": pid,
            "quick_cmd": "./check %s --tier quick" % pid,
            "thorough_cmd": "./check %s --tier thorough" % pid,
            "evidence_file": "/verif/evidence/%s.json" % pid,
            "replay_cmd_template": "./check %s --replay {path}" % pid,
            "engine": "tlc-replay",
            "level_claimed": {"category": c.get("category", "model_checking"), "text": c["text"],
                              "design_ref": "DESIGN.md section " + c["ref"]},
            "level_note": c["note"],
            "technique": c["technique"],
        })
    fixes = []
    try:
        import subprocess
        out = subprocess.run(["git", "-C", "/repo", "log", "--format=%h %s"], stdout=subprocess.PIPE,
                             text=True).stdout
        fixes = [l.split()[0] for l in out.splitlines() if l.split(" ", 1)[1].startswith("hook:")]
    except Exception:
        pass
    m = {
        "version": 1,
        "setup_cmd": "./check setup",
        "hooks": {
            "guard": "SPATIALMATH_PYTHON_VERIF",
            "enable": "no source hooks are needed: with SPATIALMATH_PYTHON_VERIF=1 the harness installs add-only "
                      "tracing wrappers around public methods in its own process (harness/smtrace.py); /repo is "
                      "imported from its working tree, there is no build step",
            "baseline_off_cmd": "cd /repo && /venv/bin/python -m pytest -ra -q -p no:cacheprovider --timeout=900 "
                                "--continue-on-collection-errors",
            "source_commits": fixes,
            "add_only": True,
        },
        "engines": [dict(ENGINE, serves_properties=sorted(CHECKS))],
        "checks": checks,
        "notes": "Genuine defects repaired by 'fix:' commits in /repo and open findings are listed in "
                 "/verif/known_findings.json; see DESIGN.md section 5.",
        "not_applicable": [{"property_id": p["id"],
                            "reason": "check not built yet"}
                           for p in props if p["id"] not in CHECKS],
    }
    with open(os.path.join(V, "MANIFEST.json"), "w") as f:
        json.dump(m, f, indent=1)
    print("MANIFEST: %d checks, %d not yet claimed" % (len(checks), len(m["not_applicable"])))


if __name__ == "__main__":
    main()
