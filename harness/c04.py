"""C04 - all representations of the same motion agree; conversions are homomorphisms.

Spec: GroupMachine.tla with the representation variable `rep` and the Conv action (conversion
leaves the abstract motion unchanged - C04_ConvKeeps, checked by TLC); Ctor.tla for "every named
constructor yields the same rotation in each class".  Replay: a live object is carried through
group operations AND conversions; after every step its value must equal the exact motion, so
convert(X*Y) = convert(X)*convert(Y) and convert(X.inv()) = convert(X).inv() are exercised along
every behaviour, in every order.
"""
import math
import random

import numpy as np

import common
from common import Judge, MachineryError, run_tlc
import gamma
import grouplib as gl
import ctorlib as cl

PID = "C04"
TOL = 1e-6


def udq_cls():
    from spatialmath.DualQuaternion import UnitDualQuaternion
    return UnitDualQuaternion


def build(rep, h, sigma=1.0):
    if rep == "UnitDualQuaternion":
        from spatialmath import SE3
        return udq_cls()(SE3(gamma.T4(h, sigma)))
    return gamma.build(rep, h, sigma)


def project(rep, X):
    if rep == "UnitDualQuaternion":
        return np.asarray(X.SE3().A, dtype=float)
    return gamma.project(rep, X)


def expected(rep, h, sigma=1.0):
    if rep == "UnitDualQuaternion":
        return gamma.T4(h, sigma)
    return gamma.expected(rep, h, sigma)


def convert(frm, to, X, flip):
    from spatialmath import SO2, SE2, SO3, SE3, UnitQuaternion, Twist2, Twist3
    k = (frm, to)
    if k == ("SO3", "UnitQuaternion"):
        return UnitQuaternion(X)
    if k == ("UnitQuaternion", "SO3"):
        return X.SO3()
    if k == ("SO3", "SE3"):
        return SE3.SO3(X)
    if k == ("SE3", "SO3"):
        return SO3(X.R)
    if k == ("UnitQuaternion", "SE3"):
        return X.SE3()
    if k == ("SE3", "UnitQuaternion"):
        return UnitQuaternion(X)
    if k == ("SE3", "Twist3"):
        return X.Twist3() if flip else Twist3(X)
    if k == ("Twist3", "SE3"):
        return X.SE3()
    if k == ("SE3", "UnitDualQuaternion"):
        return udq_cls()(X)
    if k == ("UnitDualQuaternion", "SE3"):
        return X.SE3()
    if k == ("SO2", "SE2"):
        return X.SE2()
    if k == ("SE2", "SO2"):
        return SO2(X.R)
    if k == ("SE2", "Twist2"):
        return X.Twist2() if flip else Twist2(X)
    if k == ("Twist2", "SE2"):
        return X.SE2()
    if k == ("SE2", "SE3"):
        return X.SE3()
    raise MachineryError("no conversion %s" % (k,))


def apply(rep, X, call, sigma, flip=False):
    op = call["op"]
    if op == "conv":
        return convert(call["from"], call["to"], X, flip)
    if rep == "UnitDualQuaternion":
        G = build(rep, call["g"], sigma)
        return X * G if op == "mulr" else G * X
    return gl.apply(rep, X, call, sigma)


def judge_step(j, rep, rep2, pre, call, post, X, sigma, kind, flip=False):
    """returns the new live object (or None when the step had to be skipped / failed)"""
    g = call.get("g")
    op = call["op"] if call["op"] != "conv" else "conv(%s->%s)" % (call["from"], call["to"])
    site = "%s.%s" % (rep, op)
    feat = "%s;angle(%s)->%s;sigma=%g" % (kind, gl.angle_band(pre), gl.angle_band(post), sigma)
    cid = (rep, op, gl.angle_band(pre), gl.angle_band(post), sigma, kind)
    detail = {"kind": kind, "rep": rep, "rep2": rep2, "sigma": sigma, "pre": pre, "call": call, "post": post}
    try:
        Y = apply(rep, X, call, sigma, flip)
    except Exception as ex:  # noqa: BLE001
        j.fail("%s|%s|%s|raised-%s" % (PID, site, feat, type(ex).__name__), detail, cid)
        return None
    want = {"UnitDualQuaternion": "UnitDualQuaternion"}.get(rep2, rep2)
    if type(Y).__name__ != want:
        j.fail("%s|%s|%s|returned-%s" % (PID, site, feat, type(Y).__name__), detail, cid)
        return None
    try:
        got = project(rep2, Y)
    except Exception as ex:  # noqa: BLE001
        j.fail("%s|%s|%s|unreadable-%s" % (PID, site, feat, type(ex).__name__), detail, cid)
        return None
    exp = expected(rep2, post, sigma)
    scale = gamma.tscale(pre, g, post, sigma=sigma) if rep2 not in ("SO3", "SO2", "UnitQuaternion") else 0.0
    d = gamma.distance(rep2, got, exp)
    if not (d <= TOL * max(1.0, scale)):
        j.fail("%s|%s|%s|wrong-value" % (PID, site, feat), dict(detail, distance=d), cid)
        return None
    j.ok(cid, nontrivial=call["op"] == "conv")
    return Y


def replay_edges(j, edges, sigmas):
    seen = set()
    n = 0
    for e in edges:
        key = (str(e["pre"]["num"]), e["rep"], str(e["call"]))
        if key in seen:
            continue
        seen.add(key)
        for k, sigma in enumerate(sigmas):
            if sigma != 1.0 and e["rep"] in ("SO3", "SO2", "UnitQuaternion"):
                continue
            try:
                X = build(e["rep"], e["pre"], sigma)
            except Exception as ex:  # noqa: BLE001
                j.fail("%s|%s.build|angle(%s)|raised-%s" % (PID, e["rep"], gl.angle_band(e["pre"]),
                                                            type(ex).__name__), {"pre": e["pre"]})
                continue
            judge_step(j, e["rep"], e["rep2"], e["pre"], e["call"], e["post"], X, sigma, "edge",
                       flip=(n + k) % 2 == 0)
        n += 1
    return n


def replay_behaviour(j, h, sigma, flip):
    rep = h[0]["rep"]
    cur = h[0]["post"]
    try:
        X = build(rep, cur, sigma)
    except Exception:  # noqa: BLE001
        return
    for step in h[1:]:
        Y = judge_step(j, rep, step["rep"], cur, step["call"], step["post"], X, sigma, "behaviour", flip)
        rep, cur = step["rep"], step["post"]
        if Y is None:
            try:
                X = build(rep, cur, sigma)        # re-synchronise and go on
            except Exception:  # noqa: BLE001
                return
        else:
            X = Y


# ---- named constructors agree in every class --------------------------------------------------

def constructors_agree(j, cases):
    for case in cases:
        exact = case["val"]["den"] != 0
        E = cl.expected_T4(case) if exact else None
        for unit in ("rad", "deg"):
            vals = []
            eps = cl.entry_points(case, unit) if exact else cl.v_entry_points(case, unit)
            for label, thunk in eps:
                try:
                    v = thunk()
                    Ts = cl.result_T4(label, v)
                except Exception:  # noqa: BLE001  (crashes are C01's / C15's subject)
                    j.skip("constructor raised (reported by C01)")
                    continue
                planar = label in cl.PLANAR_HOM or type(v).__name__ in ("SO2", "SE2") or \
                    (isinstance(v, np.ndarray) and v.shape == (2, 2))
                vals.append((label, Ts[0][:3, :3], planar))
            if exact:
                feat = cl.angle_features(case) + ";" + unit
                for label, R, planar in vals:
                    d = float(np.max(np.abs(R - E[:3, :3])))
                    cid = (label, case["fn"], cl.angle_features(case), unit)
                    if d > TOL:
                        j.fail("%s|%s|%s|differs-from-documented-rotation" % (PID, label, feat),
                               {"kind": "ctor", "case": case, "unit": unit, "distance": d}, cid)
                    else:
                        j.ok(cid)
            else:
                # no exact value: all entry points of the same dimension must agree with each other
                ref = [x for x in vals if not x[2]]
                for label, R, planar in ref[1:]:
                    d = float(np.max(np.abs(R - ref[0][1])))
                    cid = (label, case["fn"], "valuation", unit)
                    if d > TOL:
                        j.fail("%s|%s|%s;%s|classes-disagree" % (PID, label, case["fn"], unit),
                               {"kind": "ctor-v", "case": case, "unit": unit, "other": ref[0][0], "distance": d}, cid)
                    else:
                        j.ok(cid)


# ---- valuations: near 0 / near pi round trips, q vs -q, embeddings --------------------------------

def angle_set_bridges(j, rng=None):
    """an angle set extracted from one representation and fed to the same named constructor of ANOTHER class gives
    the same rotation - at the singular configurations of the angle set too (Euler middle angle 0 / pi, pitch +-90 deg)"""
    from spatialmath import SO3, SE3, UnitQuaternion
    hp = math.pi / 2
    specials = {"eul-middle-pi": gamma.rotz(0.4) @ gamma.roty(math.pi) @ gamma.rotz(-1.1), "half-turn-x": gamma.rotx(math.pi),
                "half-turn-xy-axis": gamma.rotz(0.7) @ gamma.rotx(math.pi) @ gamma.rotz(-0.7), "eul-middle-0": gamma.rotz(0.9),
                "pitch+90": gamma.rotz(0.3) @ gamma.roty(hp) @ gamma.rotx(-0.5), "pitch-90": gamma.rotz(-1.2) @ gamma.roty(-hp) @ gamma.rotx(0.8),
                "generic": gamma.rotz(0.3) @ gamma.roty(-0.5) @ gamma.rotx(1.1)}
    if rng is not None:
        # rotations all over the group: every branch of the extraction formulas (which entry dominates) is taken
        for i in range(40):
            specials["random-%02d" % i] = gamma.rotz(rng.uniform(-3.1, 3.1)) @ gamma.roty(rng.uniform(-3.1, 3.1)) @ gamma.rotx(rng.uniform(-3.1, 3.1))
    for tag, R in specials.items():
        T = np.eye(4)
        T[:3, :3] = R
        bridges = {"SO3.eul->UnitQuaternion.Eul": lambda: UnitQuaternion.Eul(SO3(R, check=False).eul()).R,
                   "UnitQuaternion.eul->SE3.Eul": lambda: SE3.Eul(UnitQuaternion(SO3(R, check=False)).eul()).R,
                   "SE3.eul(deg)->SO3.Eul(deg)": lambda: SO3.Eul(SE3(T, check=False).eul(unit="deg"), unit="deg").R,
                   "SO3.rpy->UnitQuaternion.RPY": lambda: UnitQuaternion.RPY(SO3(R, check=False).rpy()).R,
                   "UnitQuaternion.rpy(xyz)->SE3.RPY(xyz)": lambda: SE3.RPY(UnitQuaternion(SO3(R, check=False)).rpy(order="xyz"), order="xyz").R,
                   "SE3.rpy(yxz,deg)->SO3.RPY(yxz,deg)": lambda: SO3.RPY(SE3(T, check=False).rpy(order="yxz", unit="deg"), order="yxz", unit="deg").R,
                   "SO3.angvec->UnitQuaternion.AngVec": lambda: UnitQuaternion.AngVec(*SO3(R, check=False).angvec()).R}
        for name, fn in bridges.items():
            cid = ("bridge", name, "random" if tag.startswith("random") else tag)
            try:
                d = float(np.max(np.abs(np.asarray(fn(), dtype=float) - R)))
            except Exception as ex:  # noqa: BLE001
                j.fail("%s|%s|%s|raised-%s" % (PID, name, "random" if tag.startswith("random") else tag, type(ex).__name__), {"kind": "bridge", "R": R.tolist()}, cid)
                continue
            if d > TOL:
                j.fail("%s|%s|%s|different-rotation" % (PID, name, "random" if tag.startswith("random") else tag), {"kind": "bridge", "R": R.tolist(), "distance": d}, cid)
            else:
                j.ok(cid)


def valuations(j, rng, n):
    from spatialmath import SO2, SE2, SO3, SE3, UnitQuaternion, Twist3, Twist2
    angle_set_bridges(j, rng)
    angs = [0.0, 1e-12, 1e-9, 3e-9, 1e-6, 0.5, math.pi / 2, 2.5, math.pi - 1e-6, math.pi - 3e-9,
            math.pi - 1e-9, math.pi - 1e-12, math.pi]
    for k in range(n):
        a = angs[k % len(angs)]
        Q = gamma.rotz(rng.uniform(-3, 3)) @ gamma.roty(rng.uniform(-1.5, 1.5)) @ gamma.rotx(rng.uniform(-3, 3))
        R = Q @ [gamma.rotx, gamma.roty, gamma.rotz][k % 3](a) @ Q.T
        t = np.array([rng.gauss(0, 1) for _ in range(3)]) * 10 ** rng.uniform(-3, 6)
        T = np.eye(4)
        T[:3, :3] = R
        T[:3, 3] = t
        band = "0" if a == 0 else "near-0" if a < 1e-5 else "pi" if a == math.pi else "near-pi" if a > 3.14 else "mid"
        sc = max(1.0, float(np.linalg.norm(t)))
        routes = {
            "SO3->UnitQuaternion->SO3": (lambda: UnitQuaternion(SO3(R, check=False)).SO3().A, R, 1.0),
            "SO3->UnitQuaternion.R": (lambda: UnitQuaternion(SO3(R, check=False)).R, R, 1.0),
            "SE3->UnitDualQuaternion->SE3": (lambda: udq_cls()(SE3(T, check=False)).SE3().A, T, sc),
            "SE3->UnitQuaternion->SE3": (lambda: UnitQuaternion(SE3(T, check=False)).SE3().A[:3, :3], R, 1.0),
        }
        routes["SE3->Twist3->SE3"] = (lambda: Twist3(SE3(T, check=False)).SE3().A, T, sc)
        # unit quaternion -> exponential coordinates (twice the vector part of its logarithm) -> rotation, from either
        # quaternion of the double cover
        if 1e-6 < a < math.pi - 1e-6:
            routes["UnitQuaternion->log->SO3.Exp"] = (lambda: SO3.Exp(2 * np.asarray(UnitQuaternion(SO3(R, check=False)).log().v)).A, R, 1.0)
            routes["UnitQuaternion(-q)->log->SO3.Exp"] = (
                lambda: SO3.Exp(2 * np.asarray(UnitQuaternion(-UnitQuaternion(SO3(R, check=False)).vec, norm=False, check=False).log().v)).A, R, 1.0)
        # a unit revolute twist about an axis through a point, exponentiated with the angle a (0 included), is the
        # rotation by a about that axis through that point
        uax = Q[:, k % 3]
        qpt = np.array([0.5, -1.0, 2.0])
        Tabout = np.eye(4)
        Tabout[:3, :3] = R
        Tabout[:3, 3] = qpt - R @ qpt
        routes["Twist3.Revolute(axis,point).exp(angle)"] = (lambda: Twist3.Revolute(uax, qpt).exp(a).A, Tabout, 1.0)
        routes["Twist3.Revolute(axis,point).exp(angle,deg)"] = (lambda: Twist3.Revolute(uax, qpt).exp(math.degrees(a), units="deg").A, Tabout, 1.0)
        # every representation of the motion moves a point the same way
        pt = np.array([0.7, -1.2, 2.5])
        want_p = R @ pt + t
        routes["UnitDualQuaternion*point"] = (lambda: np.asarray(udq_cls()(SE3(T, check=False)) * pt, dtype=float).ravel(), want_p, sc)
        routes["Twist3->SE3*point"] = (lambda: np.asarray(Twist3(SE3(T, check=False)).SE3() * pt, dtype=float).ravel(), want_p, sc)
        routes["UnitQuaternion*point"] = (lambda: np.asarray(UnitQuaternion(SO3(R, check=False)) * pt, dtype=float).ravel(), R @ pt, 1.0)
        routes["UnitDualQuaternion.SE3*point"] = (lambda: np.asarray(udq_cls()(SE3(T, check=False)).SE3() * pt, dtype=float).ravel(), want_p, sc)
        # a twist times a pose is the product of the poses (mixed representations in one product)
        Y3 = SE3(0.5, -1.0, 2.0) * SE3.Ry(0.4)
        routes["Twist3*SE3"] = (lambda: (Twist3(SE3(T, check=False)) * Y3).A, T @ Y3.A, sc)
        if k % 3 == 2:          # planar: rotation about z
            X2p = SE2(t[0], t[1], a if k % 2 else -a)
            Y2p = SE2(-1.0, 0.5, 0.7)
            routes["Twist2*SE2"] = (lambda: (Twist2(X2p) * Y2p).A, (X2p * Y2p).A, max(1.0, abs(t[0]), abs(t[1])))
        for name, (fn, ref, s) in routes.items():
            cid = ("roundtrip", name, band)
            try:
                got = np.asarray(fn(), dtype=float)
                d = float(np.max(np.abs(got - ref)))
            except Exception as ex:  # noqa: BLE001
                j.fail("%s|%s|angle=%s|raised-%s" % (PID, name, band, type(ex).__name__),
                       {"kind": "roundtrip", "route": name, "T": T.tolist()}, cid)
                continue
            if d > TOL * s:
                j.fail("%s|%s|angle=%s|round-trip-changes-motion" % (PID, name, band),
                       {"kind": "roundtrip", "route": name, "T": T.tolist(), "distance": d}, cid)
            else:
                j.ok(cid)
        # q and -q are the same rotation and compare equal
        q = UnitQuaternion(SO3(R, check=False))
        mq = UnitQuaternion(-q.vec, norm=False, check=False)
        cid = ("q-vs-minus-q", band)
        try:
            same = (q == mq) is True or (q == mq) == True  # noqa: E712
            dR = float(np.max(np.abs(q.R - mq.R)))
            ne = (q != mq)
        except Exception as ex:  # noqa: BLE001
            j.fail("%s|UnitQuaternion.==|q,-q;angle=%s|raised-%s" % (PID, band, type(ex).__name__),
                   {"kind": "q-vs-minus-q", "q": q.vec.tolist()}, cid)
            continue
        if not same or ne is True or dR > TOL:
            j.fail("%s|UnitQuaternion.==|q,-q;angle=%s|q-and-minus-q-differ" % (PID, band),
                   {"kind": "q-vs-minus-q", "q": q.vec.tolist(), "eq": bool(same), "dR": dR}, cid)
        else:
            j.ok(cid)
        # embeddings preserve the action on points
        th = a if k % 2 else -a
        p2 = np.array([rng.uniform(-5, 5), rng.uniform(-5, 5)])
        X2 = SE2(t[0], t[1], th)
        cid = ("embedding", band)
        try:
            lhs = np.asarray(X2.SE3() * np.r_[p2, 0.0]).flatten()
            rhs = np.r_[np.asarray(X2 * p2).flatten(), 0.0]
            d1 = float(np.max(np.abs(lhs - rhs)))
            r2 = SO2(th)
            d2 = float(np.max(np.abs(np.asarray(r2.SE2() * p2).flatten() - np.asarray(r2 * p2).flatten())))
            r3 = SO3(R, check=False)
            p3 = np.array([rng.uniform(-5, 5) for _ in range(3)])
            d3 = float(np.max(np.abs(np.asarray(SE3.SO3(r3) * p3).flatten() - np.asarray(r3 * p3).flatten())))
            # homomorphism of SE2 -> SE3
            Y2 = SE2(p2[0], p2[1], 0.3)
            d4 = float(np.max(np.abs((X2 * Y2).SE3().A - (X2.SE3() * Y2.SE3()).A)))
        except Exception as ex:  # noqa: BLE001
            j.fail("%s|embedding|angle=%s|raised-%s" % (PID, band, type(ex).__name__), {"kind": "embedding"}, cid)
            continue
        if max(d1, d2, d3, d4) > TOL * max(1.0, abs(t[0]), abs(t[1])):
            j.fail("%s|embedding|angle=%s|does-not-preserve-points" % (PID, band),
                   {"kind": "embedding", "d": [d1, d2, d3, d4], "t": t.tolist(), "theta": th}, cid)
        else:
            j.ok(cid)


def run(tier):
    j = Judge(PID)
    thorough = tier == "thorough"
    rng = random.Random(common.seed() + 4)
    rl = run_tlc("MC_Group", "Group_convlat", timeout=300)
    nedge = replay_edges(j, rl.json, [1.0, 1e6, 1e-6] if thorough else [1.0])
    j.sample({"edge": next(e for e in rl.json if e["call"]["op"] == "conv")})
    nsim = 1500 if thorough else 250
    nbeh = 0
    stats = {"Group_convlat": rl.stats()}
    for cfg in ("Group_conv3", "Group_conv2"):
        rs = run_tlc("MC_Group", cfg, workers=1, simulate=nsim, depth=7, seed_=common.seed() + 21, timeout=600)
        stats[cfg] = {"behaviours": len(rs.json), "states": rs.generated}
        if len(rs.json) < nsim // 3:
            raise MachineryError("%s produced %d behaviours" % (cfg, len(rs.json)))
        for k, h in enumerate(rs.json):
            replay_behaviour(j, h, [1.0, 1e-6, 1e3, 1e6][k % 4], k % 2 == 0)
            nbeh += 1
        j.sample({"behaviour": [(s["call"]["op"], s["rep"]) for s in rs.json[0]]})
    lat = j.evaluations
    rc = run_tlc("MC_Ctor", "Ctor_thorough" if thorough else "Ctor_quick", timeout=600)
    constructors_agree(j, rc.json)
    nctor = j.evaluations - lat
    valuations(j, rng, 260 if thorough else 65)
    cov = {"states": rl.distinct + rc.distinct, "transitions": rl.generated + rc.generated,
           "traces_validated_against_impl": nedge + nbeh + len(rc.json), "tlc": stats,
           "lattice_exact": lat, "constructor_agreement": nctor,
           "valuation": j.evaluations - lat - nctor, "exhaustive": True,
           "rule": "case = (representation, operation or conversion pair, angle class before/after, scale); "
                   "non-trivial = the step is a conversion"}
    return {"judge": j, "coverage": cov, "level": "model_checking", "assumptions": [
        "UnitDualQuaternion values are built and read through the library's own SE3 conversions (their "
        "stored parts are judged by C12)",
        "twist representations at exact half turns are left to C03"]}


def replay(rp):
    j = Judge(PID)
    for c in rp["cases"]:
        if c.get("kind") in ("edge", "behaviour"):
            try:
                X = build(c["rep"], c["pre"], c["sigma"])
                judge_step(j, c["rep"], c["rep2"], c["pre"], c["call"], c["post"], X, c["sigma"], c["kind"])
            except Exception as ex:  # noqa: BLE001
                print("raised", ex)
        else:
            print(c)
    for k, v in j.failures.items():
        print(k, v[0].get("distance"))
    print("conforms" if not j.failures else "FAILS")
    return 1 if j.failures else 0
