"""C03 - exponential and logarithm are correct and mutually inverse on the whole group.

Spec: Screw.tla - the exponential is DEFINED by Chasles' screw form T_p Rot(q) T_{a v} T_{-p}; TLC
checks on every generated case that it fixes the axis, shifts axis points by a v, has rotation part q
and is a valid member, and exports the exact matrix.  The harness forms the exponential coordinates
from the same integers (w = theta v/|v|, vlin = theta (p x v)/|v| + a v) and checks every exp entry
point against the exact matrix and every log entry point against the coordinates, in 3D and 2D.
Off the exact domain the mutual-inverse laws, the one-parameter-subgroup law, exp(S, theta) for unit
twists and agreement with the power series are evaluated on magnitude sweeps 1e-12 .. pi.
"""
import math
import random

import numpy as np

import common
from common import Judge, MachineryError, run_tlc
import gamma
from c13 import series_expm

PID = "C03"
TOL = 1e-7


def twist_of(c):
    """exponential coordinates of a screw3 case from its integers (one sqrt, one atan2)"""
    q = c["q"]
    v = np.array(q[1:], dtype=float)
    nv = float(np.linalg.norm(v))
    th = 2.0 * math.atan2(nv, q[0])
    p = np.array(c["p"], dtype=float)
    a = c["an"] / c["ad"]
    w = th * v / nv
    vlin = th * np.cross(p, v) / nv + a * v
    return np.r_[vlin, w], th


def band(th):
    if th == 0:
        return "0"
    if th < 1e-5:
        return "tiny"
    if abs(th - math.pi) < 1e-12:
        return "pi"
    if th > math.pi - 1e-5:
        return "near-pi"
    return "mid"


def is_algebra(L, n):
    """se(n)/so(n) form: skew-symmetric rotation block, zero bottom row, real and finite"""
    L = np.asarray(L)
    if L.dtype.kind not in "fiu" or not np.all(np.isfinite(L.astype(float))):
        return False
    L = L.astype(float)
    K = L[:n, :n]
    if float(np.max(np.abs(K + K.T))) > 1e-9:
        return False
    if L.shape[0] == n + 1 and float(np.max(np.abs(L[n, :]))) > 0:
        return False
    return True


def check(j, ok, site, feat, mode, detail, cid):
    if ok:
        j.ok(cid)
    else:
        j.fail("%s|%s|%s|%s" % (PID, site, feat, mode), detail, cid)


def guard(j, site, feat, detail, cid, fn):
    try:
        return fn()
    except Exception as ex:  # noqa: BLE001
        j.fail("%s|%s|%s|raised-%s" % (PID, site, feat, type(ex).__name__), detail, cid)
        return None


def multi_case(j, e, sigma):
    """class-level forms on sequences of twists / multi-valued poses (Screw.Multi3, Multi2)"""
    import spatialmath.base as b
    from spatialmath import SE3, SO3, SE2, SO2, Twist3, Twist2
    c = e["c"]
    n = len(e["m"])
    if c["k"] == "multi3":
        Ms = [gamma.T4(h, sigma) for h in e["m"]]
        Ss = []
        for q in c["qs"]:
            S, th = twist_of({"q": q, "p": c["p"], "an": c["an"], "ad": c["ad"]})
            S = S.copy()
            S[:3] *= sigma
            Ss.append(S)
        Ss = np.array(Ss)
        Ws = Ss[:, 3:]
        Rs = [M[:3, :3] for M in Ms]
        sc = max(1.0, max(float(np.linalg.norm(M[:3, 3])) for M in Ms))
        feat = "multi3;n=%d;sigma=%g" % (n, sigma)
        detail = {"kind": "multi3", "case": c, "sigma": sigma}
        exps = {"SE3.Exp(Nx6_array)": (lambda: SE3.Exp(Ss), Ms, sc), "SE3.Exp(list_of_6-vectors)": (lambda: SE3.Exp([s_ for s_ in Ss]), Ms, sc),
                "SE3.Exp(4x4_matrix)": (lambda: SE3.Exp(b.skewa(Ss[0])), Ms[:1], sc),
                "SO3.Exp(Nx3_array,so3=False)": (lambda: SO3.Exp(Ws, so3=False), Rs, 1.0),
                "SO3.Exp(3x3_so(3)_matrix)": (lambda: SO3.Exp(b.skew(Ws[0])), Rs[:1], 1.0),
                "Twist3(Nx6).exp()": (lambda: Twist3([s_ for s_ in Ss]).exp(), Ms, sc),
                # the same sequence with a PURE TRANSLATION in front (the first value must not decide for the others)
                "Twist3([transl]+Nx6).exp()": (lambda: Twist3([np.r_[1.0, -2.0, 0.5, 0, 0, 0]] + [s_ for s_ in Ss]).exp(),
                                               [b.transl(1.0, -2.0, 0.5)] + Ms, sc + 3.0),
                "Twist3([transl]+Nx6).exp(1)": (lambda: Twist3([np.r_[1.0, -2.0, 0.5, 0, 0, 0]] + [s_ for s_ in Ss]).exp(1.0),
                                                [b.transl(1.0, -2.0, 0.5)] + Ms, sc + 3.0),
                "Twist3(Nx6).SE3()": (lambda: Twist3([s_ for s_ in Ss]).SE3(), Ms, sc)}
        X = SE3([M for M in Ms], check=False)
        XR = SO3([R for R in Rs], check=False)
        logs = {"SE3[N].log(twist=True)": (lambda: X.log(twist=True), Ss, sc, None),
                "SE3[N].log()": (lambda: [b.vexa(L) for L in X.log()], Ss, sc, None),
                "SE3[N].Twist3()": (lambda: [t.S for t in X.Twist3()], Ss, sc, None),
                "Twist3(SE3[N])": (lambda: [np.asarray(d) for d in Twist3(X).data], Ss, sc, None),
                "SO3[N].log(twist=True)": (lambda: XR.log(twist=True), Ws, 1.0, None)}
        expf, back = b.trexp, b.trexp
        thmax = max(2.0 * math.atan2(float(np.linalg.norm(q[1:])), q[0]) for q in c["qs"])
    else:
        Ms = [gamma.T3(h, sigma) for h in e["m"]]
        p = np.array(c["p"][:2], dtype=float) * sigma
        ths = [2.0 * math.atan2(g[1], g[0]) for g in c["gs"]]
        Ss = np.array([np.r_[th * p[1], -th * p[0], th] for th in ths])
        sc = max(1.0, float(np.linalg.norm(p)), max(float(np.linalg.norm(M[:2, 2])) for M in Ms))
        feat = "multi2;n=%d;sigma=%g" % (n, sigma)
        detail = {"kind": "multi2", "case": c, "sigma": sigma}
        exps = {"SE2.Exp(Nx3_array,se2=False)": (lambda: SE2.Exp(Ss, se2=False), Ms, sc),
                "SE2.Exp(Nx3_array)": ((lambda: SE2.Exp(Ss)) if n != 3 else (lambda: SE2.Exp(Ss, se2=False)), Ms, sc), "SE2.Exp(list_of_3-vectors)": (lambda: SE2.Exp([s_ for s_ in Ss]), Ms, sc),
                "SE2.Exp(3x3_matrix)": (lambda: SE2.Exp(b.skewa(Ss[0])), Ms[:1], sc),
                "Twist2(Nx3).exp()": (lambda: Twist2([s_ for s_ in Ss]).exp(), Ms, sc)}
        X = SE2([M for M in Ms], check=False)
        logs = {"SE2[N].log(twist=True)": (lambda: X.log(twist=True), Ss, sc, None),
                "SE2[N].Twist2()": (lambda: [t.S for t in X.Twist2()], Ss, sc, None),
                "Twist2(SE2[N])": (lambda: [np.asarray(d) for d in Twist2(X).data], Ss, sc, None)}
        thmax = max(abs(t) for t in ths)
    for site, (fn, want, scale) in exps.items():
        cid = (site, n, sigma)
        r = guard(j, site, feat, detail, cid, fn)
        if r is None:
            continue
        vals = [np.asarray(a, dtype=float) for a in r.data] if hasattr(r, "data") else None
        if vals is None or len(vals) != len(want):
            j.fail("%s|%s|%s|wrong-number-of-values" % (PID, site, feat), dict(detail, got=None if vals is None else len(vals)), cid)
            continue
        d = max(float(np.max(np.abs(v - w))) if v.shape == np.shape(w) else float("inf") for v, w in zip(vals, want))
        check(j, d <= TOL * scale, site, feat, "wrong-exponential", dict(detail, distance=d), cid)
    if thmax <= math.pi - 1e-6:
        for site, (fn, want, scale, _) in logs.items():
            cid = (site, n, sigma)
            r = guard(j, site, feat, detail, cid, fn)
            if r is None:
                continue
            try:
                vals = [np.asarray(a, dtype=float) for a in r]
            except Exception:  # noqa: BLE001
                vals = None
            if vals is None or len(vals) != len(want) or any(v.shape != np.shape(w) for v, w in zip(vals, want)):
                j.fail("%s|%s|%s|not-one-twist-vector-per-value" % (PID, site, feat),
                       dict(detail, got_shapes=None if vals is None else [list(v.shape) for v in vals]), cid)
                continue
            d = max(float(np.max(np.abs(v - w))) for v, w in zip(vals, want))
            check(j, d <= TOL * scale, site, feat, "log-differs-from-coordinates", dict(detail, distance=d), cid)


def lattice_case(j, e, sigma):
    import spatialmath.base as b
    from spatialmath import SE3, SO3, SE2, SO2, Twist3, Twist2
    c = e["c"]
    k = c["k"]
    if k in ("multi3", "multi2"):
        return multi_case(j, e, sigma)
    M = gamma.T4(e["m"], sigma)
    sc = max(1.0, float(np.linalg.norm(M[:3, 3])))
    if k in ("screw3", "translation"):
        if k == "screw3":
            S, th = twist_of(c)
            S = S.copy()
            S[:3] *= sigma
        else:
            S, th = np.r_[np.array(c["t"], dtype=float) * sigma, 0, 0, 0], 0.0
        bd = band(th)
        feat = "%s;theta=%s;sigma=%g" % (k, bd, sigma)
        detail = {"kind": k, "case": c, "sigma": sigma, "theta": th}
        exps = {"base.trexp(vec)": lambda: b.trexp(S), "base.trexp(matrix)": lambda: b.trexp(b.skewa(S)),
                "SE3.Exp": lambda: SE3.Exp(S).A, "Twist3.exp": lambda: Twist3(S).exp().A,
                "Twist3.SE3": lambda: Twist3(S).SE3().A}
        if th > 0:
            exps["base.trexp(unit,theta)"] = lambda: b.trexp(S / th, th)
            exps["Twist3.exp(theta)"] = lambda: Twist3(S / th).exp(th).A
        for site, fn in exps.items():
            cid = (site, k, bd, sigma)
            r = guard(j, site, feat, detail, cid, fn)
            if r is not None:
                d = float(np.max(np.abs(np.asarray(r, dtype=float) - M)))
                check(j, d <= TOL * sc, site, feat, "wrong-exponential", dict(detail, distance=d), cid)
        logs = {"base.trlog(twist)": lambda: b.trlog(M, twist=True), "base.trlog(matrix)": lambda: b.vexa(b.trlog(M)),
                "SE3.log(twist)": lambda: SE3(M, check=False).log(twist=True), "SE3.Twist3": lambda: SE3(M, check=False).Twist3().S,
                "Twist3(SE3)": lambda: Twist3(SE3(M, check=False)).S}
        for site, fn in logs.items():
            cid = (site, k, bd, sigma)
            L = guard(j, site, feat, detail, cid, fn)
            if L is None:
                continue
            L = np.asarray(L)
            if L.dtype.kind not in "fiu" or L.shape != (6,) or not np.all(np.isfinite(L.astype(float))):
                j.fail("%s|%s|%s|log-not-real-finite" % (PID, site, feat), dict(detail, got=repr(L)[:200]), cid)
                continue
            L = L.astype(float)
            wn = float(np.linalg.norm(L[3:]))
            back = guard(j, site, feat, detail, cid, lambda: b.trexp(L))
            ok = wn <= math.pi + 1e-9 and back is not None and float(np.max(np.abs(back - M))) <= TOL * sc
            if ok and th <= math.pi - 1e-6:
                ok = float(np.max(np.abs(L - S))) <= TOL * sc
                mode = "log-differs-from-coordinates"
            else:
                mode = "exp(log)-differs-or-angle>pi"
            check(j, ok, site, feat, mode, dict(detail, got=L.tolist()), cid)
        # the matrix form of the log is of algebra form
        cid = ("base.trlog(form)", k, bd, sigma)
        Lm = guard(j, "base.trlog(matrix)", feat, detail, cid, lambda: b.trlog(M))
        if Lm is not None:
            check(j, np.shape(Lm) == (4, 4) and is_algebra(Lm, 3), "base.trlog(matrix)", feat, "not-algebra-form", detail, cid)
        # rotation part alone
        R = M[:3, :3]
        w = S[3:]
        for site, fn in {"base.trexp(so3 vec)": lambda: b.trexp(w), "base.trexp(so3 matrix)": lambda: b.trexp(b.skew(w)),
                         "SO3.Exp": lambda: SO3.Exp(w).A}.items():
            cid = (site, bd)
            r = guard(j, site, feat, detail, cid, fn)
            if r is not None:
                check(j, float(np.max(np.abs(np.asarray(r, dtype=float) - R))) <= TOL, site, feat, "wrong-exponential", detail, cid)
        for site, fn in {"base.trlog(R,twist)": lambda: b.trlog(R, twist=True), "base.trlog(R)": lambda: b.vex(b.trlog(R)),
                         "SO3.log": lambda: b.vex(SO3(R, check=False).log())}.items():
            cid = (site, bd)
            L = guard(j, site, feat, detail, cid, fn)
            if L is None:
                continue
            L = np.asarray(L, dtype=float)
            ok = L.shape == (3,) and np.all(np.isfinite(L)) and float(np.linalg.norm(L)) <= math.pi + 1e-9 and \
                float(np.max(np.abs(b.trexp(L) - R))) <= TOL
            if ok and th <= math.pi - 1e-6:
                ok = float(np.max(np.abs(L - w))) <= TOL
            check(j, ok, site, feat, "wrong-logarithm", dict(detail, got=L.tolist()), cid)
    elif k == "unittrans":
        d = np.array(c["d"], dtype=float)
        u = d / c["len"]
        dist = float(c["n"] * c["len"]) * sigma
        feat = "unittrans;n=%d;sigma=%g" % (c["n"], sigma)
        detail = {"kind": k, "case": c, "sigma": sigma, "theta": dist}
        U = np.r_[u, 0.0, 0.0, 0.0]
        forms = {"base.trexp(prismatic_unit,theta)": lambda: b.trexp(U, dist), "base.trexp(prismatic_matrix,theta)": lambda: b.trexp(b.skewa(U), dist),
                 "Twist3.exp(theta)": lambda: Twist3(U).exp(dist).A, "Twist3.Prismatic.exp(theta)": lambda: Twist3.Prismatic(d).exp(dist).A,
                 "Twist3*theta.exp": lambda: (Twist3(U) * dist).exp().A, "base.trexp(theta*S)": lambda: b.trexp(U * dist)}
        for site, fn in forms.items():
            cid = (site, k, c["n"], sigma)
            r = guard(j, site, feat, detail, cid, fn)
            if r is not None:
                dd = float(np.max(np.abs(np.asarray(r, dtype=float) - M)))
                check(j, dd <= TOL * sc, site, feat, "not-the-translation-by-theta", dict(detail, distance=dd), cid)
        if c["d"][2] == 0:
            H = gamma.T3(e["m"], sigma)
            U2 = np.r_[u[:2], 0.0]
            forms2 = {"base.trexp2(prismatic_unit,theta)": lambda: b.trexp2(U2, dist), "base.trexp2(prismatic_matrix,theta)": lambda: b.trexp2(b.skewa(U2), dist),
                      "Twist2.exp(theta)": lambda: Twist2(U2).exp(dist).A, "Twist2.Prismatic.exp(theta)": lambda: Twist2.Prismatic(d[:2]).exp(dist).A,
                      "base.trexp2(theta*S)": lambda: b.trexp2(U2 * dist)}
            for site, fn in forms2.items():
                cid = (site, k, c["n"], sigma)
                r = guard(j, site, feat, detail, cid, fn)
                if r is not None:
                    dd = float(np.max(np.abs(np.asarray(r, dtype=float) - H)))
                    check(j, dd <= TOL * sc, site, feat, "not-the-translation-by-theta", dict(detail, distance=dd), cid)
    elif k == "unit3":
        # two-argument form exp(U, theta): U = unit twist of the zero-pitch screw (q, p), theta = n * angle(q)
        S, th = twist_of(dict(c, an=0, ad=1))
        U = S / th
        U[:3] *= sigma
        ang = c["n"] * th
        feat = "unit3;n=%d;sigma=%g" % (c["n"], sigma)
        detail = {"kind": k, "case": c, "sigma": sigma, "theta": ang, "unit_twist": U.tolist()}
        forms = {"base.trexp(unit vec,theta)": lambda: b.trexp(U, ang),
                 "base.trexp(unit matrix,theta)": lambda: b.trexp(b.skewa(U), ang),
                 "Twist3.exp(theta)": lambda: Twist3(U).exp(ang).A,
                 "Twist3.exp(theta,deg)": lambda: Twist3(U).exp(math.degrees(ang), "deg").A,
                 "Twist3.exp([theta])": lambda: Twist3(U).exp([ang])[0].A,
                 "Twist3*theta.exp": lambda: (Twist3(U) * ang).exp().A,
                 # the same motion written with the REVERSED unit twist and the negated angle
                 "base.trexp(-unit_vec,-theta)": lambda: b.trexp(-U, -ang),
                 "base.trexp(-unit_matrix,-theta)": lambda: b.trexp(b.skewa(-U), -ang),
                 "Twist3(-unit).exp(-theta)": lambda: Twist3(-U).exp(-ang).A}
        for site, fn in forms.items():
            cid = (site, k, c["n"], sigma)
            r = guard(j, site, feat, detail, cid, fn)
            if r is not None:
                d = float(np.max(np.abs(np.asarray(r, dtype=float) - M)))
                check(j, d <= TOL * sc, site, feat, "differs-from-exp(theta*S)", dict(detail, distance=d), cid)
        R, wu = M[:3, :3], U[3:]
        for site, fn in {"base.trexp(so3 unit vec,theta)": lambda: b.trexp(wu, ang),
                         "base.trexp(so3 unit matrix,theta)": lambda: b.trexp(b.skew(wu), ang),
                         "base.rodrigues(unit,theta)": lambda: b.rodrigues(wu, ang)}.items():
            cid = (site, k, c["n"])
            r = guard(j, site, feat, detail, cid, fn)
            if r is not None:
                d = float(np.max(np.abs(np.asarray(r, dtype=float) - R)))
                check(j, d <= TOL, site, feat, "differs-from-exp(theta*S)", dict(detail, distance=d), cid)
    elif k == "unit2":
        g, p = c["g"], np.array(c["p"][:2], dtype=float) * sigma
        th = 2.0 * math.atan2(g[1], g[0])
        H = gamma.T3(e["m"], sigma)
        U = np.r_[p[1], -p[0], 1.0]
        ang = c["n"] * th
        feat = "unit2;n=%d;sigma=%g" % (c["n"], sigma)
        detail = {"kind": k, "case": c, "sigma": sigma, "theta": ang, "unit_twist": U.tolist()}
        sc = max(1.0, float(np.linalg.norm(H[:2, 2])), float(np.linalg.norm(p)))
        forms = {"base.trexp2(unit vec,theta)": lambda: b.trexp2(U, ang),
                 "base.trexp2(unit matrix,theta)": lambda: b.trexp2(b.skewa(U), ang),
                 "Twist2.exp(theta)": lambda: Twist2(U).exp(ang).A,
                 "Twist2.exp(theta,deg)": lambda: Twist2(U).exp(math.degrees(ang), "deg").A,
                 "Twist2.exp([theta])": lambda: Twist2(U).exp([ang])[0].A,
                 "Twist2*theta.exp": lambda: (Twist2(U) * ang).exp().A,
                 "base.trexp2(-unit_vec,-theta)": lambda: b.trexp2(-U, -ang),             # clockwise unit twist (w = -1)
                 "base.trexp2(-unit_matrix,-theta)": lambda: b.trexp2(b.skewa(-U), -ang),
                 "base.trexp2(-unit_list,-theta)": lambda: b.trexp2([float(x) for x in -U], -ang),
                 "Twist2(-unit).exp(-theta)": lambda: Twist2(-U).exp(-ang).A,
                 "base.trexp2(so2 unit matrix,theta)": lambda: b.rt2tr(b.trexp2(b.skew(1.0), ang), H[:2, 2]),
                 "base.trexp2(so2 unit vec,theta)": lambda: b.rt2tr(b.trexp2([1.0], ang), H[:2, 2])}
        for site, fn in forms.items():
            cid = (site, k, c["n"], sigma)
            r = guard(j, site, feat, detail, cid, fn)
            if r is not None:
                d = float(np.max(np.abs(np.asarray(r, dtype=float) - H)))
                check(j, d <= TOL * sc, site, feat, "differs-from-exp(theta*S)", dict(detail, distance=d), cid)
    elif k == "screw2":
        g, p = c["g"], np.array(c["p"][:2], dtype=float) * sigma
        th = 2.0 * math.atan2(g[1], g[0])
        H = gamma.T3(e["m"], sigma)
        # planar twist of a rotation by th about p:  v = th * (p_y, -p_x),  w = th
        S = np.r_[th * p[1], -th * p[0], th]
        bd = band(abs(th))
        feat = "screw2;theta=%s;sigma=%g" % (bd, sigma)
        detail = {"kind": k, "case": c, "sigma": sigma, "theta": th}
        sc = max(1.0, float(np.linalg.norm(H[:2, 2])), float(np.linalg.norm(p)))
        for site, fn in {"base.trexp2(vec)": lambda: b.trexp2(S), "base.trexp2(matrix)": lambda: b.trexp2(b.skewa(S)),
                         "SE2.Exp": lambda: SE2.Exp(S).A, "Twist2.exp": lambda: Twist2(S).exp().A,
                         "base.trexp2(unit,theta)": lambda: b.trexp2(S / th, th),
                         "base.trexp2(so2)": lambda: b.rt2tr(b.trexp2([th]), H[:2, 2]),
                         "SO2.Exp": lambda: b.rt2tr(SO2.Exp([th]).A if False else SO2.Exp(b.skew(th)).A, H[:2, 2])}.items():
            cid = (site, bd, sigma)
            r = guard(j, site, feat, detail, cid, fn)
            if r is not None:
                d = float(np.max(np.abs(np.asarray(r, dtype=float) - H)))
                check(j, d <= TOL * sc, site, feat, "wrong-exponential", dict(detail, distance=d), cid)
        for site, fn in {"base.trlog2(twist)": lambda: b.trlog2(H, twist=True), "base.trlog2(matrix)": lambda: b.vexa(b.trlog2(H)),
                         "SE2.log(twist)": lambda: SE2(H, check=False).log(twist=True), "SE2.Twist2": lambda: SE2(H, check=False).Twist2().S}.items():
            cid = (site, bd, sigma)
            L = guard(j, site, feat, detail, cid, fn)
            if L is None:
                continue
            L = np.asarray(L)
            if L.dtype.kind not in "fiu" or L.shape != (3,) or not np.all(np.isfinite(L.astype(float))):
                j.fail("%s|%s|%s|log-not-real-finite" % (PID, site, feat), dict(detail, got=repr(L)[:200]), cid)
                continue
            L = L.astype(float)
            ok = abs(L[2]) <= math.pi + 1e-9 and float(np.max(np.abs(b.trexp2(L) - H))) <= TOL * sc
            if ok and abs(th) <= math.pi - 1e-6:
                ok = float(np.max(np.abs(L - S))) <= TOL * sc
            check(j, ok, site, feat, "wrong-logarithm", dict(detail, got=L.tolist()), cid)


def valuations(j, rng, n):
    import spatialmath.base as b
    from spatialmath import SE3, Twist3, SE2, Twist2
    for i in range(n):
        # rotation magnitude: log-uniform 1e-12 .. pi and pi - 1e-12 .. pi
        r = rng.random()
        if i % 5 == 0:
            th = math.pi - 10 ** rng.uniform(-12, -1)
        elif i % 5 == 1:
            th = [0.0, math.pi, math.pi / 2, 1e-12, 1e-9][i // 5 % 5]
        else:
            th = 10 ** rng.uniform(-12, math.log10(math.pi))
        ax = [np.array([1.0, 0, 0]), np.array([0, 1.0, 0]), np.array([0, 0, 1.0]), np.array([1.0, 1e-8, 0]) / math.hypot(1, 1e-8)]
        u = ax[i % 7] if i % 7 < 4 else (lambda v: v / np.linalg.norm(v))(np.array([rng.gauss(0, 1) for _ in range(3)]))
        tm = [0.0, 1e-6, 1.0, 1e3, 1e6][i % 5] * (1 if i % 3 else rng.random() + 0.5)
        vl = np.array([rng.gauss(0, 1) for _ in range(3)])
        vl = vl / np.linalg.norm(vl) * tm
        S = np.r_[vl, th * u]
        bd = band(th)
        tb = "t=%s" % ("0" if tm == 0 else "1e%d" % int(3 * math.floor(math.log10(tm) / 3)))
        feat = "theta=%s;%s" % (bd, tb)
        detail = {"kind": "valuation", "S": S.tolist(), "theta": th}
        T = guard(j, "base.trexp", feat, detail, ("val", "exp", bd, tb), lambda: b.trexp(S))
        if T is None:
            continue
        sc = max(1.0, float(np.linalg.norm(T[:3, 3])), tm)
        # the result is a valid SE(3) and equals the defining power series (moderate norms only)
        check(j, gamma.validity_residual("SE3", T) <= 1e-9, "base.trexp", feat, "not-a-group-member", detail, ("val", "valid", bd, tb))
        if tm <= 1e3:
            d = float(np.max(np.abs(T - series_expm(b.skewa(S)))))
            check(j, d <= TOL * sc, "base.trexp", feat, "differs-from-power-series", dict(detail, distance=d), ("val", "series", bd, tb))
        # log is finite, real, of algebra form, |w| <= pi, and exp(log T) = T
        L = guard(j, "base.trlog", feat, detail, ("val", "log", bd, tb), lambda: b.trlog(T, twist=True))
        if L is not None:
            L = np.asarray(L)
            ok = L.dtype.kind in "fiu" and L.shape == (6,) and np.all(np.isfinite(L.astype(float))) and \
                float(np.linalg.norm(L[3:].astype(float))) <= math.pi + 1e-9
            if ok:
                back = b.trexp(L.astype(float))
                ok = float(np.max(np.abs(back - T))) <= TOL * sc
            check(j, ok, "base.trlog", feat, "exp(log)-differs", dict(detail, got=repr(L)[:200]), ("val", "explog", bd, tb))
            if ok and th <= math.pi - 1e-6:
                d = float(np.max(np.abs(L.astype(float) - S)))
                check(j, d <= TOL * sc, "base.trlog", feat, "log(exp)-differs", dict(detail, distance=d), ("val", "logexp", bd, tb))
        # class methods agree with the base functions
        for site, fn in {"SE3.Exp": lambda: SE3.Exp(S).A, "Twist3.exp": lambda: Twist3(S).exp().A}.items():
            r2 = guard(j, site, feat, detail, ("val", site, bd, tb), fn)
            if r2 is not None:
                check(j, float(np.max(np.abs(r2 - T))) <= TOL * sc, site, feat, "differs-from-base", detail, ("val", site, bd, tb))
        # the rotational algebras alone: so(3) as a 3-vector and as a skew matrix, so(2) as a scalar and as a skew
        # matrix, base functions and class methods - the rotation of exp(S) / the planar rotation by th2
        from spatialmath import SO3, SO2
        w = th * u
        th2_ = th if i % 2 else -th
        R2 = np.array([[math.cos(th2_), -math.sin(th2_)], [math.sin(th2_), math.cos(th2_)]])
        for site, fn, want in (("base.trexp(so3-vector)", lambda: b.trexp(w), T[:3, :3]), ("base.trexp(so3-matrix)", lambda: b.trexp(b.skew(w)), T[:3, :3]),
                               ("SO3.Exp(vector)", lambda: SO3.Exp(w).A, T[:3, :3]), ("SO3.Exp(matrix)", lambda: SO3.Exp(b.skew(w)).A, T[:3, :3]),
                               ("base.trexp2(so2-scalar)", lambda: b.trexp2(th2_), R2), ("base.trexp2(so2-matrix)", lambda: b.trexp2(b.skew(th2_)), R2),
                               ("SO2.Exp", lambda: SO2.Exp(th2_).A, R2)):
            r5 = guard(j, site, feat, detail, ("val", site, bd), fn)
            if r5 is not None:
                r5 = np.asarray(r5, dtype=float)
                ok = r5.shape == want.shape and float(np.max(np.abs(r5 - want))) <= TOL
                check(j, ok, site, feat, "differs-from-the-rotation-of-exp(S)", dict(detail, got=r5.tolist()), ("val", site, bd))
        # two-argument forms with the REVERSED unit generator (-u, -1): the rotation by -theta
        if th > 0:
            for site, fn, want in (("base.trexp(-unit so3,theta)", lambda: b.trexp(-u, th), T[:3, :3].T),
                                   ("base.trexp(skew(-unit),theta)", lambda: b.trexp(b.skew(-u), th), T[:3, :3].T),
                                   ("base.trexp2(-1,theta)", lambda: b.trexp2(-1.0, abs(th2_)), R2.T if th2_ > 0 else R2),
                                   ("base.trexp2([-1],theta)", lambda: b.trexp2([-1.0], abs(th2_)), R2.T if th2_ > 0 else R2),
                                   ("base.trexp2(skew(-1),theta)", lambda: b.trexp2(b.skew(-1.0), abs(th2_)), R2.T if th2_ > 0 else R2),
                                   ("base.trexp2(+1,theta)", lambda: b.trexp2(1.0, abs(th2_)), R2 if th2_ > 0 else R2.T)):
                r6 = guard(j, site, feat, detail, ("val", site, bd), fn)
                if r6 is not None:
                    r6 = np.asarray(r6, dtype=float)
                    ok = r6.shape == want.shape and float(np.max(np.abs(r6 - want))) <= TOL
                    check(j, ok, site, feat, "not-the-rotation-by-minus-theta", dict(detail, got=r6.tolist()), ("val", site, bd))
        # ONE twist exponentiated with a vector of magnitudes: one motion per magnitude (class methods, list and ndarray)
        if 0 < th and tm <= 1e3:
            Su = S / th
            mags_ = [th, 0.5 * th, -0.3]
            for site, fn, dim in (("Twist3.exp(vector)", lambda: Twist3(Su).exp(mags_), 3), ("Twist3.exp(ndarray)", lambda: Twist3(Su).exp(np.array(mags_)), 3),
                                  ("Twist2.exp(vector)", lambda: Twist2(np.r_[Su[0], Su[1], 1.0]).exp(mags_), 2),
                                  ("Twist2.exp(ndarray)", lambda: Twist2(np.r_[Su[0], Su[1], 1.0]).exp(np.array(mags_)), 2)):
                r7 = guard(j, site, feat, detail, ("val", site, bd), fn)
                if r7 is not None:
                    try:
                        ok = len(r7) == len(mags_)
                        for i_, m_ in enumerate(mags_):
                            ref = b.trexp(Su * m_) if dim == 3 else b.trexp2(np.r_[Su[0], Su[1], 1.0] * m_)
                            ok = ok and float(np.max(np.abs(np.asarray(r7[i_].A, dtype=float) - ref))) <= TOL * max(1.0, tm)
                    except Exception:  # noqa: BLE001
                        ok = False
                    check(j, ok, site, feat, "not-one-motion-per-magnitude", detail, ("val", site, bd))
        # exp(S, theta) = exp(theta S) for a unit twist; one-parameter subgroup
        if th > 0:
            r3 = guard(j, "base.trexp(unit,theta)", feat, detail, ("val", "unit", bd, tb), lambda: b.trexp(S / th, th))
            if r3 is not None:
                check(j, float(np.max(np.abs(r3 - T))) <= TOL * sc, "base.trexp(unit,theta)", feat, "differs-from-exp(theta*S)", detail, ("val", "unit", bd, tb))
        a1, a2 = 0.3, 0.45
        r4 = guard(j, "base.trexp", feat, detail, ("val", "subgroup", bd, tb), lambda: b.trexp(S * a1) @ b.trexp(S * a2) - b.trexp(S * (a1 + a2)))
        if r4 is not None:
            check(j, float(np.max(np.abs(r4))) <= TOL * sc, "base.trexp", feat, "one-parameter-subgroup-violated", detail, ("val", "subgroup", bd, tb))
        # 2D
        th2 = th if i % 2 else -th
        S2 = np.r_[vl[:2], th2]
        H = guard(j, "base.trexp2", feat, detail, ("val2", "exp", bd, tb), lambda: b.trexp2(S2))
        if H is None:
            continue
        sc2 = max(1.0, float(np.linalg.norm(H[:2, 2])), tm)
        check(j, gamma.validity_residual("SE2", H) <= 1e-9, "base.trexp2", feat, "not-a-group-member", detail, ("val2", "valid", bd, tb))
        if tm <= 1e3:
            d = float(np.max(np.abs(H - series_expm(b.skewa(S2)))))
            check(j, d <= TOL * sc2, "base.trexp2", feat, "differs-from-power-series", dict(detail, distance=d), ("val2", "series", bd, tb))
        L2 = guard(j, "base.trlog2", feat, detail, ("val2", "log", bd, tb), lambda: b.trlog2(H, twist=True))
        if L2 is not None:
            L2 = np.asarray(L2)
            ok = L2.dtype.kind in "fiu" and L2.shape == (3,) and np.all(np.isfinite(L2.astype(float))) and abs(float(L2[2])) <= math.pi + 1e-9
            if ok:
                ok = float(np.max(np.abs(b.trexp2(L2.astype(float)) - H))) <= TOL * sc2
            check(j, ok, "base.trlog2", feat, "exp(log)-differs", dict(detail, got=repr(L2)[:200]), ("val2", "explog", bd, tb))
            if ok and abs(th2) <= math.pi - 1e-6:
                d = float(np.max(np.abs(L2.astype(float) - S2)))
                check(j, d <= TOL * sc2, "base.trlog2", feat, "log(exp)-differs", dict(detail, distance=d), ("val2", "logexp", bd, tb))


def run(tier):
    j = Judge(PID)
    thorough = tier == "thorough"
    rng = random.Random(common.seed() + 3)
    r = run_tlc("MC_Screw", "Screw", timeout=600)
    seen = set()
    n = 0
    for e in r.json:
        key = str(e["c"])
        if key in seen:
            continue
        seen.add(key)
        n += 1
        if e["c"]["k"] == "screw3" and not thorough and n % 4:
            continue
        if e["c"]["k"] in ("unit3", "unit2", "multi3", "multi2", "unittrans"):
            scales = [1.0, 1e3] if thorough else [1.0]
        else:
            scales = [1.0, 1e-6, 1e3, 1e6] if (thorough or n % 8 == 0 or e["c"]["k"] != "screw3") else [1.0]
        for s in scales:
            lattice_case(j, e, s)
    if n < 3000:
        raise MachineryError("screw export too small: %d" % n)
    j.sample({"case": r.json[7]})
    lat = j.evaluations
    valuations(j, rng, 1500 if thorough else 300)
    cov = {"states": r.distinct, "transitions": r.generated, "traces_validated_against_impl": n,
           "lattice_exact": lat, "valuation": j.evaluations - lat, "checker_cmd": r.cmd,
           "rule": "lattice case = (entry point, screw / translation / planar, angle band from exact integers, scale); "
                   "valuation case = (law, angle band, translation band)"}
    return {"judge": j, "coverage": cov, "level": "model_checking", "assumptions": [
        "the exponential is DEFINED by the screw form; exactness only for rotations 2 atan2(|v|, s) of integer quaternions "
        "of the -2..2 box, integer axis points and rational axial translations",
        "off that domain: mutual-inverse laws, one-parameter subgroup, unit-twist form and a power-series expm in the "
        "harness (for |t| <= 1e3); a defect respecting all of these would be missed"]}


def replay(rp):
    for c in rp["cases"][:6]:
        print({k: v for k, v in c.items() if k != "case"}, c.get("case"))
    return 0
