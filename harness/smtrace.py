"""Recording of real executions (Direction B).

Add-only wrappers around the public list methods (and, for other properties, the operator
dunders) of the spatialmath classes, installed in the *harness process* - /repo is not touched.
One event per outermost public call, written after it returned or raised.  Element values are
projected to small integer ids by content (shape + bytes), so the abstract state of an object is
the id sequence of its .data - the vocabulary of SMList.tla.
"""
import functools
import os

import numpy as np

NONE = 99

GUARD = "SPATIALMATH_PYTHON_VERIF"


class Recorder:
    def __init__(self):
        self.events = []
        self.ids = {}
        self.depth = 0
        self.tid = {}          # id(obj) -> trace id
        self.keep = []         # strong refs: id() must not be reused
        self.last_post = {}    # tid -> ids after the last logged event
        self.strict = False    # True: a change between two logged calls is NOT re-begun
        self.enabled = True

    # -- projection ----------------------------------------------------------------
    def idof(self, a):
        if isinstance(a, np.ndarray):
            try:
                # value identity: rounded to 1e-10 so that re-normalisation noise of a few ulp
                # (UnitQuaternion re-normalises on construction) does not make a new value
                b = np.round(np.asarray(a, dtype=float), 10) + 0.0
                key = (a.shape, b.tobytes())
            except Exception:  # noqa: BLE001  (object arrays)
                key = ("obj", repr(a))
        else:
            key = ("py", type(a).__name__, repr(a))
        if key not in self.ids:
            self.ids[key] = len(self.ids) + 1
        return self.ids[key]

    def ids_of(self, obj):
        return [self.idof(a) for a in obj.data]

    def trace_of(self, obj):
        k = id(obj)
        if k not in self.tid:
            self.tid[k] = len(self.tid) + 1
            self.keep.append(obj)
        return self.tid[k]

    # -- events ----------------------------------------------------------------------
    def emit(self, obj, call, a, pre, res):
        t = self.trace_of(obj)
        post = self.ids_of(obj)
        cls = type(obj).__name__
        if t not in self.last_post or (not self.strict and self.last_post[t] != pre):
            self.events.append({"tid": t, "cls": cls, "call": {"op": "begin"}, "a": [],
                                "pre": [], "post": pre, "res": {"k": "none"}})
        if call is None:      # unjudged call form: only re-synchronise
            self.events.append({"tid": t, "cls": cls, "call": {"op": "begin"}, "a": [],
                                "pre": [], "post": post, "res": {"k": "none"}})
        else:
            self.events.append({"tid": t, "cls": cls, "call": call, "a": a, "pre": pre,
                                "post": post, "res": res})
        self.last_post[t] = post

    def outcome(self, recv, r):
        if r is None:
            return {"k": "none"}
        if isinstance(r, (bool, np.bool_)):
            return {"k": "other", "t": "bool"}
        if isinstance(r, (int, np.integer)):
            return {"k": "int", "v": int(r)}
        if isinstance(r, list):
            vs = []
            for y in r:
                if type(y) is not type(recv) or len(y.data) != 1:
                    return {"k": "other", "t": "list"}
            vs = [k for y in r for k in self.ids_of(y)]
            return {"k": "objs", "v": vs}
        if hasattr(r, "data") and isinstance(r.data, list):
            return {"k": "obj", "v": self.ids_of(r), "cls": type(r).__name__}
        return {"k": "other", "t": type(r).__name__}

    def kind(self, recv, v):
        if type(v) is type(recv):
            n = len(v.data)
            return ("single" if n == 1 else "multi" if n > 1 else None), self.ids_of(v)
        if hasattr(v, "data") and isinstance(getattr(v, "data"), list):
            return "wrong", []
        return None, []


REC = Recorder()


def _idx(i):
    if isinstance(i, (int, np.integer)) and not isinstance(i, bool):
        return int(i)
    return None


def _wrap(name, orig):
    @functools.wraps(orig)
    def w(self, *args, **kw):
        rec = REC
        if not rec.enabled or rec.depth > 0:
            return orig(self, *args, **kw)
        rec.depth += 1
        try:
            pre = rec.ids_of(self)
        except Exception:  # noqa: BLE001
            rec.depth -= 1
            return orig(self, *args, **kw)
        call, a = None, []
        try:
            if kw:
                call = None
            elif name == "__getitem__" and len(args) == 1:
                i = args[0]
                if isinstance(i, slice):
                    p = [NONE if v is None else _idx(v) for v in (i.start, i.stop, i.step)]
                    if None not in p:
                        call = {"op": "slice", "st": p[0], "sp": p[1], "sk": p[2]}
                elif _idx(i) is not None:
                    call = {"op": "getitem", "i": _idx(i)}
            elif name == "__setitem__" and len(args) == 2 and _idx(args[0]) is not None:
                k, a = rec.kind(self, args[1])
                if k:
                    call = {"op": "setitem", "i": _idx(args[0]), "kind": k}
            elif name == "__delitem__" and len(args) == 1 and _idx(args[0]) is not None:
                call = {"op": "del", "i": _idx(args[0])}
            elif name == "append" and len(args) == 1:
                k, a = rec.kind(self, args[0])
                if k:
                    call = {"op": "append", "kind": k}
            elif name == "extend" and len(args) == 1:
                v = args[0]
                if type(v) is type(self):
                    a = rec.ids_of(v)
                    call = {"op": "extend", "n": len(a)}
                elif hasattr(v, "data") and isinstance(v.data, list):
                    call = {"op": "extend_wrong", "what": "object" if len(v.data) else "empty-object"}
                elif isinstance(v, list) and any(type(o) is not type(self) for o in v):
                    call = {"op": "extend_wrong", "what": "list-mixed"}
            elif name == "insert" and len(args) == 2 and _idx(args[0]) is not None:
                k, a = rec.kind(self, args[1])
                if k:
                    call = {"op": "insert", "i": _idx(args[0]), "kind": k}
            elif name == "pop":
                if len(args) == 0:
                    call = {"op": "pop0"}
                elif len(args) == 1 and _idx(args[0]) is not None:
                    call = {"op": "pop", "i": _idx(args[0])}
            elif name in ("reverse", "clear") and not args:
                call = {"op": name}
        except Exception:  # noqa: BLE001
            call = None
        res = None
        try:
            r = orig(self, *args, **kw)
            res = rec.outcome(self, r)
            return r
        except Exception as e:
            res = {"k": "raise", "e": "IndexError" if isinstance(e, IndexError) else "Other",
                   "t": type(e).__name__}
            raise
        finally:
            try:
                rec.emit(self, call, a, pre, res)
            finally:
                rec.depth -= 1
    w._smtrace = True
    return w


LIST_METHODS = ["__getitem__", "__setitem__", "__delitem__", "append", "extend", "insert", "pop",
                "reverse", "clear"]


def _all_subclasses(c):
    out = []
    for s in c.__subclasses__():
        out.append(s)
        out.extend(_all_subclasses(s))
    return out


def install_list_wrappers():
    """Wrap every definition of a list method reachable from SMUserList (add-only)."""
    if os.environ.get(GUARD) != "1":
        raise RuntimeError("tracing requires %s=1" % GUARD)
    import spatialmath  # noqa: F401
    import spatialmath.DualQuaternion  # noqa: F401
    from spatialmath.smuserlist import SMUserList
    from collections import UserList
    n = 0
    for name in LIST_METHODS:
        # methods SMUserList inherits unchanged from UserList get an explicit wrapper there
        if name not in SMUserList.__dict__:
            setattr(SMUserList, name, _wrap(name, getattr(UserList, name)))
            n += 1
        for c in [SMUserList] + _all_subclasses(SMUserList):
            f = c.__dict__.get(name)
            if f is not None and callable(f) and not getattr(f, "_smtrace", False):
                setattr(c, name, _wrap(name, f))
                n += 1
    return n
