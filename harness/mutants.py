"""Run the registered checks against a seeded change (never committed to /repo).

    python harness/mutants.py <dir-with-patch.diff,demo.py,meta.json> [--props C10,C17] [--tier quick]

Steps: /repo must be clean -> demo on clean tree (must exit 0) -> git apply -> demo (must exit
non-zero) -> repository test-suite (must still pass: 228 passed, only the 2 baseline failures)
-> ./check <prop> for each property -> git checkout -- . (always).  Prints and returns a record.
"""
import argparse
import json
import os
import re
import subprocess
import sys
import time

REPO = "/repo"
VERIF = os.path.dirname(os.path.dirname(os.path.abspath(__file__)))
PY = "/venv/bin/python"
FAST = [PY, "-m", "pytest", "-q", "-p", "no:cacheprovider", "-W", "ignore", "--timeout=120", "tests",
        "--deselect", "tests/base/test_transforms3d.py::Test3D::test_plot",
        "--deselect", "tests/test_pose2d.py::TestSE2::test_graphics"]


def sh(cmd, cwd=None, env=None, timeout=3600):
    p = subprocess.run(cmd, cwd=cwd, env=env, stdout=subprocess.PIPE, stderr=subprocess.STDOUT, text=True,
                       timeout=timeout)
    return p.returncode, p.stdout


def clean():
    rc, out = sh(["git", "-C", REPO, "status", "--porcelain", "--untracked-files=no"])
    return out.strip() == ""


def run_demo(d):
    env = dict(os.environ, PYTHONPATH=REPO, PYTHONDONTWRITEBYTECODE="1", MPLBACKEND="Agg")
    return sh([PY, "-W", "ignore", os.path.join(d, "demo.py")], cwd=REPO, env=env, timeout=600)


def main():
    ap = argparse.ArgumentParser()
    ap.add_argument("dir")
    ap.add_argument("--props")
    ap.add_argument("--tier", default="quick")
    ap.add_argument("--skip-tests", action="store_true")
    a = ap.parse_args()
    d = os.path.abspath(a.dir)
    meta = json.load(open(os.path.join(d, "meta.json")))
    props = (a.props.split(",") if a.props else [meta["property"]])
    rec = {"dir": d, "property": meta["property"], "props_run": props, "tier": a.tier}
    if not clean():
        print("REFUSING: /repo has uncommitted changes")
        return 2
    rc0, out0 = run_demo(d)
    rec["demo_clean_exit"] = rc0
    try:
        rc, out = sh(["git", "-C", REPO, "apply", os.path.join(d, "patch.diff")])
        if rc != 0:
            print("patch does not apply:", out)
            return 2
        rc1, out1 = run_demo(d)
        rec["demo_mutant_exit"] = rc1
        rec["demo_mutant_tail"] = out1.strip().splitlines()[-3:]
        if not a.skip_tests:
            rct, outt = sh(FAST, cwd=REPO, env=dict(os.environ, MPLBACKEND="Agg", PYTHONDONTWRITEBYTECODE="1"))
            rec["tests"] = outt.strip().splitlines()[-1] if outt.strip() else ""
        rec["checks"] = {}
        for p in props:
            t0 = time.time()
            rcc, outc = sh([os.path.join(VERIF, "check"), p, "--tier", a.tier], cwd=VERIF, timeout=7200,
                           env=dict(os.environ, VERIF_EVIDENCE_DIR=os.path.join(VERIF, "build", "mutant_evidence")))
            keys = re.findall(r"^VIOLATION property=\S+ replay=\S+ key=(\S+)", outc, re.M)
            rec["checks"][p] = {"exit": rcc, "violations": len(keys), "keys": keys[:8],
                                "wall_s": round(time.time() - t0, 1),
                                "machinery": [l for l in outc.splitlines() if l.startswith("MACHINERY")][:2]}
    finally:
        sh(["git", "-C", REPO, "checkout", "--", "."])
    rec["repo_clean_after"] = clean()
    rec["caught_by"] = [p for p, c in rec.get("checks", {}).items() if c["exit"] == 1]
    print(json.dumps(rec, indent=1))
    with open(os.path.join(d, "result_%s.json" % a.tier), "w") as f:
        json.dump(rec, f, indent=1)
    return 0


if __name__ == "__main__":
    sys.exit(main())
