"""C19 - Pluecker lines: incidence, projection and rigid transformation are consistent.

Spec: ExactLine.tla (division-free incidence / parallelism / equality; rational principal point, foot,
distances, plane intersection; theorems TLC-checked on integer boxes) and LineCases.tla (constructed
cases: lines from points / point+direction / planes, queries, transformed lines, line pairs in general,
parallel, intersecting and coincident position, plane hits, plane membership).  Each case is executed at
data scales 1e-3, 1, 1e3 (homogeneous) and compared with the exact rationals to 1e-9 relative to the
data magnitude.  Boolean predicates are judged only where their floating-point evaluation is exact
(axis-parallel configurations) or the margin is large; elsewhere they are explored and counted.
"""
import math
import random

import numpy as np

import common
from common import Judge, MachineryError, run_tlc
import gamma

PID = "C19"
TOL = 1e-9
SIGMAS = [1.0, 1e-3, 1e3]


def rat(r, s=1.0):
    return np.array(r["n"], dtype=float) / float(r["d"]) * s


def incidence_residual(L, x, scale):
    """relative distance of point x from line L, measured on the object's own (v, w)"""
    w = np.asarray(L.w, dtype=float)
    v = np.asarray(L.v, dtype=float)
    return float(np.linalg.norm(np.cross(w, x) - v)) / (float(np.linalg.norm(w)) * max(scale, 1e-300))


def axis_parallel(w):
    return sum(1 for c in w if c != 0) == 1


def check(j, ok, site, feat, mode, detail, cid):
    if ok:
        j.ok(cid)
    else:
        j.fail("%s|%s|%s|%s" % (PID, site, feat, mode), detail, cid)


def run_case(j, e, s):
    from spatialmath import Plucker, SE3
    from spatialmath.geom3d import Plane
    c, a = e["c"], e["ans"]
    k = c["k"]
    feat = "sigma=%g" % s
    detail = {"kind": k, "case": c, "sigma": s}

    def P3(v):
        return np.array(v, dtype=float) * s

    def guard(site, fn, cid):
        try:
            return fn()
        except Exception as ex:  # noqa: BLE001
            j.fail("%s|%s|%s|raised-%s" % (PID, site, feat, type(ex).__name__), detail, cid)
            return None

    if k in ("line", "pointdir", "planes"):
        if k == "line":
            mk = lambda: Plucker.PQ(P3(c["P"]), P3(c["Q"]))                                  # noqa: E731
            site0 = "Plucker.PQ"
            mag = max(1e-300, s * max(np.max(np.abs(c["P"])), np.max(np.abs(c["Q"])), 1))
            vs, ws = s * s, s
        elif k == "pointdir":
            mk = lambda: Plucker.PointDir(P3(c["P"]), np.array(c["D"], dtype=float) * s)     # noqa: E731
            site0 = "Plucker.PointDir"
            mag = max(1e-300, s * max(np.max(np.abs(c["P"])), 1))
            vs, ws = s * s, s
        else:
            p1 = np.r_[np.array(c["p1"][:3], dtype=float), c["p1"][3] * s]
            p2 = np.r_[np.array(c["p2"][:3], dtype=float), c["p2"][3] * s]
            mk = lambda: Plucker.Planes(p1, p2)                                              # noqa: E731
            site0 = "Plucker.Planes"
            mag = max(1e-300, s)
            vs, ws = s, 1.0
        L = guard(site0, mk, (site0, "construct", s))
        if L is None:
            return
        ev, ew = np.array(a["line"]["v"], dtype=float) * vs, np.array(a["line"]["w"], dtype=float) * ws
        dv = float(np.max(np.abs(L.v - ev))) / max(float(np.max(np.abs(ev))), mag * float(np.max(np.abs(ew))), 1e-300)
        dw = float(np.max(np.abs(L.w - ew))) / max(float(np.max(np.abs(ew))), 1e-300)
        check(j, dv <= TOL and dw <= TOL, site0, feat, "wrong-coordinates", dict(detail, dv=dv, dw=dw), (site0, "coords", s))
        check(j, abs(float(np.dot(L.v, L.w))) <= TOL * max(float(np.linalg.norm(L.v)) * float(np.linalg.norm(L.w)), 1e-300),
              site0, feat, "pluecker-constraint", detail, (site0, "constraint", s))
        if a["line"]["pp"]["d"] != 0:
            epp = rat(a["line"]["pp"], s)
            pp = guard("Plucker.pp", lambda: np.asarray(L.pp, dtype=float), ("pp", s))
            if pp is not None:
                check(j, float(np.max(np.abs(pp - epp))) <= TOL * mag, "Plucker.pp", feat, "wrong-point", detail, ("pp", s))
        if k == "line":
            for name in ("P", "Q"):
                r = incidence_residual(L, P3(c[name]), mag)
                check(j, r <= TOL, "Plucker.PQ", feat, "defining-point-off-line", dict(detail, residual=r), ("line", "incidence", s))
            # contains(): judged where floating point is exact (axis-parallel direction), explored otherwise
            for name in ("P", "Q"):
                r = guard("Plucker.contains", lambda: L.contains(P3(c[name])), ("contains", s))
                if r is None:
                    continue
                if axis_parallel(a["line"]["w"]) and s == 1.0:
                    check(j, bool(r) is True, "Plucker.contains", feat + ";axis-parallel", "defining-point-not-contained", detail, ("contains", "exact"))
                else:
                    j.skip("contains() with its absolute 50-eps threshold on non-exact data: explored only")
                    j.count("contains_defining_point_%s" % bool(r))
            # contains() with an EXPLICIT tolerance scaled to the data (1e-9 relative): decidable at every scale, for a
            # single point and for a 3xN array of points (defining points, a point far along the line, an off-line one)
            nwv = math.sqrt(sum(x * x for x in a["line"]["w"])) * s
            tol_c = 1e-9 * mag * nwv * 1e3
            far_on = P3(c["P"]) + 1e3 * (P3(c["P"]) - P3(c["Q"]))
            cols = [P3(c["P"]), P3(c["Q"]), far_on]
            want = [True, True, True]
            if not a["xon"] and a["dist2"]["n"] / a["dist2"]["d"] >= 0.01:
                cols.append(P3(c["x"]))
                want.append(False)
            for nm, pt, w_ in zip(("P", "Q", "far", "x"), cols, want):
                r = guard("Plucker.contains(tol)", lambda: L.contains(pt, tol=tol_c), ("contains-tol", nm, s))
                if r is not None:
                    check(j, bool(r) is w_, "Plucker.contains(tol)", feat, "answered-%s-for-%s" % (bool(r), "on-line-point" if w_ else "off-line-point"),
                          detail, ("contains-tol", nm, s))
            ra = guard("Plucker.contains(3xN,tol)", lambda: L.contains(np.array(cols).T, tol=tol_c), ("contains-tol", "array", s))
            if ra is not None:
                got = [bool(x) for x in np.asarray(ra).ravel()]
                check(j, got == want, "Plucker.contains(3xN,tol)", feat, "array-form-differs-from-single-points", dict(detail, got=got, want=want),
                      ("contains-tol", "array", s))
            xq = P3(c["x"])
            if not a["xon"]:
                r = guard("Plucker.contains", lambda: L.contains(xq), ("contains", s))
                d2 = a["dist2"]["n"] / a["dist2"]["d"]
                if r is not None and d2 >= 0.01:
                    check(j, bool(r) is False, "Plucker.contains", feat, "far-point-contained", detail, ("contains", "far"))
            # point(lambda) at lambda = j |w|
            nw = math.sqrt(sum(x * x for x in a["line"]["w"])) * s
            pj = guard("Plucker.point", lambda: np.asarray(L.point(c["j"] * nw), dtype=float).flatten(), ("point", s))
            if pj is not None:
                check(j, pj.shape == (3,) and float(np.max(np.abs(pj - rat(a["pointj"], s)))) <= TOL * max(mag, abs(c["j"]) * nw),
                      "Plucker.point", feat, "wrong-point", detail, ("point", s))
                if pj.shape == (3,):
                    check(j, incidence_residual(L, pj, max(mag, abs(c["j"]) * nw)) <= TOL, "Plucker.point", feat,
                          "point-off-line", detail, ("point", "incidence", s))
            # several parameters at once: column k is the point of parameter k (the exact one at j |w| among them)
            lams = [c["j"] * nw, 0.0, -0.5 * nw, 2.0 * nw]
            for site, arg in (("Plucker.point(list)", lams), ("Plucker.point(ndarray)", np.array(lams))):
                pv = guard(site, lambda: np.asarray(L.point(arg), dtype=float), ("point-vector", s))
                if pv is not None:
                    ok = pv.shape == (3, len(lams)) and float(np.max(np.abs(pv[:, 0] - rat(a["pointj"], s)))) <= TOL * max(mag, abs(c["j"]) * nw)
                    if ok:
                        for k, lam in enumerate(lams):
                            one = np.asarray(L.point(lam), dtype=float).flatten()
                            ok = ok and float(np.max(np.abs(pv[:, k] - one))) <= TOL * max(mag, 2 * nw)
                    check(j, ok, site, feat, "column-k-is-not-the-point-of-parameter-k", detail, ("point-vector", s))
            cl = guard("Plucker.closest", lambda: L.closest(xq), ("closest", s))
            if cl is not None:
                magx = max(mag, float(np.max(np.abs(xq))))
                ok = float(np.max(np.abs(np.asarray(cl.p, dtype=float) - rat(a["foot"], s)))) <= TOL * magx
                check(j, ok, "Plucker.closest", feat, "wrong-foot", detail, ("closest", "p", s))
                ed = math.sqrt(a["dist2"]["n"] / a["dist2"]["d"]) * s
                check(j, abs(float(cl.d) - ed) <= TOL * magx, "Plucker.closest", feat, "wrong-distance", dict(detail, got=float(cl.d), exp=ed), ("closest", "d", s))
                # lam is measured from the principal point: lam = (x - pp).w / |w| = x.w / |w|
                elam = a["lamn"] * s * s / nw
                check(j, abs(float(cl.lam) - elam) <= TOL * magx, "Plucker.closest", feat, "wrong-parameter",
                      dict(detail, got=float(cl.lam), exp=elam), ("closest", "lam", s))
    elif k == "transform":
        T = gamma.T4(c["m"], s)
        L = guard("SE3*Plucker", lambda: SE3(T) * Plucker.PQ(P3(c["P"]), P3(c["Q"])), ("transform", s))
        if L is None:
            return
        if type(L).__name__ != "Plucker":
            j.fail("%s|SE3*Plucker|%s|returned-%s" % (PID, feat, type(L).__name__), detail, ("transform", s))
            return
        TP = np.array(a["TP"]["v"], dtype=float) / a["TP"]["d"] * s
        TQ = np.array(a["TQ"]["v"], dtype=float) / a["TQ"]["d"] * s
        Rw = np.array(a["Rw"]["v"], dtype=float) / a["Rw"]["d"] * s
        mag = max(1e-300, float(np.max(np.abs(TP))), float(np.max(np.abs(TQ))), s)
        r = max(incidence_residual(L, TP, mag), incidence_residual(L, TQ, mag))
        check(j, r <= TOL, "SE3*Plucker", feat, "transformed-points-off-line", dict(detail, residual=r), ("transform", "incidence", s))
        dw = float(np.max(np.abs(np.asarray(L.w, dtype=float) - Rw))) / max(float(np.max(np.abs(Rw))), 1e-300)
        check(j, dw <= TOL, "SE3*Plucker", feat, "wrong-direction", dict(detail, dw=dw), ("transform", "direction", s))
    elif k == "near":
        # nearly parallel pair (angle |e| / (2^kexp |w|) >= 1e-8, ten times the property's 1e-9): NOT parallel
        if s != 1.0:
            return
        Pn, Qn, Rn = (np.array(c[x], dtype=float) for x in ("P", "Q", "R"))
        w2 = (Pn - Qn) + np.array(c["e"], dtype=float) / 2.0 ** c["kexp"]        # exact in binary floating point
        fk = "near-parallel;2^-%d" % c["kexp"]
        L1 = guard("Plucker.PQ", lambda: Plucker.PQ(Pn, Qn), ("near", "PQ"))
        L2 = guard("Plucker.PointDir", lambda: Plucker.PointDir(Rn, w2), ("near", "PointDir"))
        if L1 is None or L2 is None:
            return
        for name, fn in {"isparallel": lambda: L1.isparallel(L2), "|": lambda: L1 | L2, "isparallel(swapped)": lambda: L2.isparallel(L1)}.items():
            sn = "Plucker." + name.replace("|", "__or__")
            r = guard(sn, fn, ("near", name, c["kexp"]))
            if r is not None:
                check(j, bool(r) is False, sn, fk, "answered-True", detail, ("near", name, c["kexp"]))
        cp = guard("Plucker.commonperp", lambda: L1.commonperp(L2), ("near", "commonperp", c["kexp"]))
        check(j, cp is not None, "Plucker.commonperp", fk, "returned-None", detail, ("near", "commonperp", c["kexp"]))
    elif k == "pair":
        L1 = Plucker.PQ(P3(c["L1"]["P"]), P3(c["L1"]["Q"]))
        L2 = Plucker(np.r_[np.array(c["L2"]["v"], dtype=float) * s * s, np.array(c["L2"]["w"], dtype=float) * s])
        kind = c["kind"]
        mag = max(s, 1e-300) * 10
        ed = math.sqrt(a["dist2"]["n"] / a["dist2"]["d"]) * s
        d = guard("Plucker.distance", lambda: float(L1.distance(L2)), ("distance", kind, s))
        if d is not None:
            check(j, abs(d - ed) <= TOL * mag, "Plucker.distance", feat + ";" + kind, "wrong-distance", dict(detail, got=d, exp=ed), ("distance", kind, s))
        cp = guard("Plucker.commonperp", lambda: L1.commonperp(L2), ("commonperp", kind, s))
        if kind == "general" and cp is not None or kind == "intersecting" and cp is not None:
            if cp is None or type(cp).__name__ != "Plucker":
                j.fail("%s|Plucker.commonperp|%s;%s|no-line" % (PID, feat, kind), detail, ("commonperp", kind, s))
            else:
                w = np.asarray(cp.w, dtype=float)
                nw = max(float(np.linalg.norm(w)), 1e-300)
                orth = max(abs(float(np.dot(w, L1.w))) / (nw * np.linalg.norm(L1.w)), abs(float(np.dot(w, L2.w))) / (nw * np.linalg.norm(L2.w)))

                def meets(A, B):       # relative reciprocal product
                    return abs(float(np.dot(A.w, B.v) + np.dot(B.w, A.v))) / (np.linalg.norm(A.w) * np.linalg.norm(B.w) * mag)
                check(j, orth <= TOL and meets(cp, L1) <= TOL and meets(cp, L2) <= TOL, "Plucker.commonperp", feat + ";" + kind,
                      "not-perpendicular-or-not-meeting", dict(detail, orth=orth), ("commonperp", kind, s))
                # ... and it must BE a line: moment orthogonal to direction (the reciprocal products above mean
                # "meets" only for coordinate vectors that satisfy the Pluecker constraint)
                vv = np.asarray(cp.v, dtype=float)
                pc = abs(float(np.dot(vv, w))) / (nw * max(float(np.linalg.norm(vv)), nw * mag))
                perp = "perpendicular-directions" if abs(float(np.dot(L1.w, L2.w))) <= 1e-12 * np.linalg.norm(L1.w) * np.linalg.norm(L2.w) else "oblique-directions"
                check(j, pc <= TOL, "Plucker.commonperp", feat + ";" + kind + ";" + perp, "result-violates-Pluecker-constraint",
                      dict(detail, residual=pc), ("commonperp", "constraint", kind, perp, s))
        elif kind in ("general",) and cp is None:
            j.fail("%s|Plucker.commonperp|%s;%s|returned-None" % (PID, feat, kind), detail, ("commonperp", kind, s))
        # predicates: judged on exact configurations (s = 1, axis-parallel first line) or with a clear margin
        exact = s == 1.0 and axis_parallel([p - q for p, q in zip(c["L1"]["P"], c["L1"]["Q"])]) and axis_parallel(c["L2"]["w"])
        preds = {"isparallel": (lambda: L1.isparallel(L2), a["parallel"]), "|": (lambda: L1 | L2, a["parallel"]),
                 "^": (lambda: L1 ^ L2, a["meets"]), "==": (lambda: L1 == L2, a["same"]), "!=": (lambda: L1 != L2, not a["same"])}
        for name, (fn, expv) in preds.items():
            sn = "Plucker." + {"|": "__or__", "^": "__xor__"}.get(name, name)
            r = guard(sn, fn, ("pred", name, kind))
            if r is None:
                continue
            clear = (name in ("isparallel", "|") and (exact or not expv)) or \
                    (name == "^" and (exact or (not expv and (a["parallel"] or ed >= 0.1 * s)))) or \
                    (name in ("==", "!=") and (exact or kind in ("general", "intersecting", "reversed")))
            if clear:
                check(j, bool(r) == bool(expv), sn, feat + ";" + kind, "answered-%s" % bool(r), detail, ("pred", name, kind, "judged"))
            else:
                j.skip("predicate with absolute eps threshold on inexact data: explored only")
                j.count("pred_%s_%s_%s" % (name, kind, "agrees" if bool(r) == bool(expv) else "differs"))
        if kind == "intersecting":
            X = P3(c["X"])
            ip = guard("Plucker.intersects", lambda: L1.intersects(L2), ("intersects", s))
            if ip is None:
                j.skip("intersects() returned None (decided by the ^ predicate with its eps threshold): explored")
                j.count("intersects_none")
            else:
                # the line-line intersection POINT is not among the quantities C19 names: explored only
                ipa = np.asarray(ip, dtype=float)
                j.skip("Plucker.intersects() value (not named by C19): explored")
                j.count("intersects_shape_%s_%s" % ("x".join(map(str, ipa.shape)),
                        "ok" if ipa.size == 3 and float(np.max(np.abs(ipa.flatten() - X))) <= 1e-6 * mag else "wrong"))
    elif k == "hit":
        L = Plucker.PQ(P3(c["P"]), P3(c["Q"]))
        pl = np.r_[np.array(c["pl"][:3], dtype=float), c["pl"][3] * s]
        h = guard("Plucker.intersect_plane", lambda: L.intersect_plane(pl), ("hit", s))
        if h is None:
            j.fail("%s|Plucker.intersect_plane|%s|returned-None" % (PID, feat), detail, ("hit", s))
            return
        ep = rat(a["p"], s)
        mag = max(s, float(np.max(np.abs(ep))), 1e-300)
        check(j, float(np.max(np.abs(np.asarray(h.p, dtype=float) - ep))) <= TOL * mag, "Plucker.intersect_plane", feat, "wrong-point", detail, ("hit", "p", s))
        # the reported parameter must reproduce the point: point(lam) = p
        pt = guard("Plucker.point", lambda: np.asarray(L.point(h.lam), dtype=float).flatten(), ("hit", "lam", s))
        if pt is not None:
            check(j, float(np.max(np.abs(pt - ep))) <= TOL * mag, "Plucker.intersect_plane", feat, "wrong-parameter",
                  dict(detail, lam=float(h.lam)), ("hit", "lam", s))
        # the plane given as a Plane OBJECT, used for two intersections (the line and the same line reversed): the
        # second one must find the same point - a plane is a value, an intersection does not consume it
        plo = guard("Plane", lambda: Plane(pl.copy()), ("hit", "Plane", s))
        if plo is not None:
            for tag_, LL in (("first", L), ("second", Plucker.PQ(P3(c["Q"]), P3(c["P"])))):
                h2 = guard("Plucker.intersect_plane(Plane)", lambda: LL.intersect_plane(plo), ("hit", "obj", tag_, s))
                if h2 is None:
                    j.fail("%s|Plucker.intersect_plane(Plane)|%s;%s|returned-None" % (PID, feat, tag_), detail, ("hit", "obj", tag_, s))
                    continue
                check(j, float(np.max(np.abs(np.asarray(h2.p, dtype=float) - ep))) <= TOL * mag, "Plucker.intersect_plane(Plane)",
                      feat + ";" + tag_, "wrong-point", detail, ("hit", "obj", tag_, s))
    elif k == "plane":
        p, n = P3(c["p"]), np.array(c["n"], dtype=float)
        pl = guard("Plane.PN", lambda: Plane.PN(p, n), ("plane", "PN", s))
        if pl is not None:
            # membership measured as a residual of the plane equation n.x + d = 0 on the object's own coefficients
            r = abs(float(np.dot(pl.n, p) + pl.d)) / (np.linalg.norm(n) * max(s, float(np.max(np.abs(p))), 1e-300))
            check(j, r <= TOL, "Plane.PN", feat, "defining-point-off-plane", dict(detail, residual=r), ("plane", "PN", s))
            cr = guard("Plane.contains", lambda: pl.contains(p), ("plane", "contains", s))
            if cr is not None:
                if s == 1.0:
                    check(j, bool(cr) is True, "Plane.contains", feat, "defining-point-not-contained", detail, ("plane", "contains"))
                else:
                    j.skip("Plane.contains with absolute threshold on scaled data: explored")
        q1, q2 = P3(c["q1"]), P3(c["q2"])
        pl3 = guard("Plane.P3", lambda: Plane.P3(np.array([p, q1, q2]).T), ("plane", "P3", s))
        if pl3 is not None:
            nn = np.linalg.norm(pl3.n)
            r = max(abs(float(np.dot(pl3.n, x) + pl3.d)) for x in (p, q1, q2)) / (nn * max(s, 1e-300) * 10)
            check(j, r <= TOL, "Plane.P3", feat, "defining-point-off-plane", dict(detail, residual=r), ("plane", "P3", s))


def valuations(j, rng, n):
    """real data over the quantified ranges: pairs of points 1e-3 .. 1e3 apart with coordinates up to 1e3 (close pairs
    FAR from the origin included), directions of length 1e-3 .. 1e3: the line exists, contains its defining points and
    point(lambda), satisfies the Pluecker constraint, and its principal point is the closest to the origin"""
    from spatialmath import Plucker
    for i in range(n):
        mag = 10 ** rng.uniform(-1, 3)
        P = np.array([rng.uniform(-1, 1) for _ in range(3)]) * mag
        sep = 10 ** rng.uniform(-3, 3) if i % 2 else 10 ** rng.uniform(-3, -1)
        dvec = np.array([rng.gauss(0, 1) for _ in range(3)])
        dvec = dvec / np.linalg.norm(dvec) * sep
        Q = P + dvec
        scale = max(float(np.max(np.abs(P))), float(np.max(np.abs(Q))), 1e-300)
        band = "separation=%s;coordinates=1e%d" % ("below-1e-1" if sep < 0.1 else "above-1e-1", int(math.floor(math.log10(scale))))
        detail = {"kind": "valuation", "P": P.tolist(), "Q": Q.tolist()}
        for site, mk in (("Plucker.PQ", lambda: Plucker.PQ(P, Q)), ("Plucker.PointDir", lambda: Plucker.PointDir(P, dvec))):
            cid = ("valuation", site, band)
            try:
                L = mk()
                u = dvec / sep
                # distance of the defining points and of two more points of the geometric line from the object's line
                res = max(incidence_residual(L, x, scale) for x in (P, Q, (P + Q) / 2, 2 * P - Q))
                cons = abs(float(np.dot(L.v, L.w))) / max(float(np.linalg.norm(L.v)) * float(np.linalg.norm(L.w)), 1e-300)
                pp = np.asarray(L.pp, dtype=float)
                foot = P - float(np.dot(P, u)) * u
                # (1e-9 relative to the data magnitude, divided by the relative separation: a pair 1e-3 apart at 1e3
                # determines its line to 1e-6 of that at best)
                tol = 1e-9 * max(1.0, scale / sep)
                ok = res <= tol and cons <= tol and float(np.max(np.abs(pp - foot))) <= tol * scale
            except Exception as ex:  # noqa: BLE001
                j.fail("%s|%s|%s|raised-%s" % (PID, site, band, type(ex).__name__), detail, cid)
                continue
            if not ok:
                j.fail("%s|%s|%s|line-does-not-contain-its-defining-data" % (PID, site, band), dict(detail, residual=res, constraint=cons), cid)
            else:
                j.ok(cid)


def small_motions(j, rng, n):
    """a line moved by a rigid motion whose rotation is tiny but not zero (1e-9 .. 1e-3 rad) still passes through the
    moved points: (T * L) contains T * P and T * Q to 1e-9 relative"""
    from spatialmath import Plucker, SE3
    for i in range(n):
        ang = (1e-9, 1e-8, 1e-7, 3e-7, 1e-6, 1e-5, 1e-3)[i % 7]
        P = np.array([rng.uniform(-3, 3) for _ in range(3)])
        Q = P + np.array([rng.uniform(0.5, 2), rng.uniform(-2, -0.5), rng.uniform(0.5, 2)])
        t = [rng.uniform(-2, 2) for _ in range(3)] if i % 2 else [0.0, 0.0, 0.0]
        feat = "rotation=%g;%s" % (ang, "with-translation" if i % 2 else "pure-rotation")
        cid = ("small-motion", feat)
        try:
            T = SE3(t) * (SE3.Rx, SE3.Ry, SE3.Rz)[i % 3](ang)
            L2 = T * Plucker.PQ(P, Q)
            A = np.asarray(T.A, dtype=float)
            pts = [A[:3, :3] @ x + A[:3, 3] for x in (P, Q, 3 * Q - 2 * P)]
            scale = max(1.0, max(float(np.max(np.abs(x))) for x in pts))
            res = max(incidence_residual(L2, x, scale) for x in pts)
        except Exception as ex:  # noqa: BLE001
            j.fail("%s|SE3*Plucker|%s|raised-%s" % (PID, feat, type(ex).__name__), {"kind": "small-motion", "angle": ang}, cid)
            continue
        if not (res <= 1e-9):
            j.fail("%s|SE3*Plucker|%s|moved-line-misses-moved-points" % (PID, feat), {"kind": "small-motion", "angle": ang, "residual": res}, cid)
        else:
            j.ok(cid)


def run(tier):
    j = Judge(PID)
    thorough = tier == "thorough"
    r = run_tlc("MC_Line", "Line", timeout=600)
    seen = set()
    n = 0
    for e in r.json:
        key = str(e["c"])
        if key in seen:
            continue
        seen.add(key)
        n += 1
        for s in (SIGMAS if (thorough or n % 3 == 0) else [1.0]):
            run_case(j, e, s)
    if n < 2000:
        raise MachineryError("line case export too small: %d" % n)
    j.sample({"case": r.json[0]})
    j.sample({"case": next(e for e in r.json if e["c"]["k"] == "pair")})
    lat = j.evaluations
    import random
    valuations(j, random.Random(common.seed() + 19), 1500 if thorough else 200)
    small_motions(j, random.Random(common.seed() + 191), 350 if thorough else 70)
    cov = {"lattice_exact": lat, "valuation": j.evaluations - lat, "states": r.distinct, "transitions": r.generated, "traces_validated_against_impl": n, "exhaustive": True,
           "theorems_checked_by_tlc": 6, "checker_cmd": r.cmd,
           "rule": "case = (method, query kind, constructed relation, scale); integer defining data from fixed point / "
                   "direction / plane / motion sets; predicates judged only on exact or clear-margin configurations"}
    return {"judge": j, "coverage": cov, "level": "model_checking", "assumptions": [
        "incidence is measured as a relative residual on the object's own (v, w), not through contains() and its "
        "absolute 50-eps threshold",
        "closest().lam and intersect_plane().lam are line parameters measured from the principal point along the unit "
        "direction (as point(lam) defines them)"]}


def replay(rp):
    for c in rp["cases"][:6]:
        print({k: v for k, v in c.items()})
    return 0
