"""C12 - quaternion and dual-quaternion arithmetic obeys the Hamilton algebra.

Spec: ExactQuat.tla - every identity of the statement is a polynomial identity that TLC evaluates on
a grid sufficient for its degree (a proof for the specification over any commutative ring).  Binding:
the library's functions and operators are executed on integer points - the same sufficient grids,
basis vectors, random integers and sigma-scaled copies (1e-6 .. 1e6) - the results are logged as
integer events and JUDGED BY TLC (QuatTrace.tla).  exp/log, which are not polynomial, are checked
at lattice points and by the round-trip laws on sampled valuations.
"""
import itertools
import json
import math
import os
import random

import numpy as np

import common
from common import Judge, MachineryError, run_tlc, write_ndjson

PID = "C12"
TOL = 1e-9


def to_ints(x, scale, j, site, feat, detail):
    """divide by the homogeneity factor, round, and check the residual against 1e-9 relative"""
    a = np.asarray(x, dtype=float).ravel() / scale
    r = np.round(a)
    mag = max(1.0, float(np.max(np.abs(a))) if a.size else 1.0)
    if not np.all(np.isfinite(a)) or float(np.max(np.abs(a - r))) > TOL * mag:
        return None
    return [int(v) for v in r]


def events_for(rng, thorough):
    """yield (fn, args dict of ints, sigma, degree, thunk producing the implementation value, site)"""
    import spatialmath.base as b
    from spatialmath import Quaternion, UnitQuaternion
    from spatialmath.DualQuaternion import DualQuaternion

    def Q(v, s=1.0):
        return np.array(v, dtype=float) * s

    grid01 = list(itertools.product((0, 1), repeat=4))
    basis = [(1, 0, 0, 0), (0, 1, 0, 0), (0, 0, 1, 0), (0, 0, 0, 1)]
    pts = [tuple(rng.randint(-100, 100) for _ in range(4)) for _ in range(60 if thorough else 20)]
    big = [tuple(rng.randint(-10000, 10000) for _ in range(4)) for _ in range(40 if thorough else 12)]
    sigmas = [1.0, 1e-6, 1e-3, 1e3, 1e6]

    def pairs():
        for p in grid01:
            for q in grid01:
                yield p, q, 1.0
        for p in basis:
            for q in basis:
                yield p, q, 1.0
        for p, q in zip(pts, pts[1:] + pts[:1]):
            for s in sigmas:
                yield p, q, s
        for p, q in zip(big, big[1:] + big[:1]):
            yield p, q, 1.0

    for p, q, s in pairs():
        yield "qqmul", {"a": p, "b": q}, s * s, (lambda p=p, q=q, s=s: b.qqmul(Q(p, s), Q(q, s))), "base.qqmul"
        yield "qqmul", {"a": p, "b": q}, s * s, (lambda p=p, q=q, s=s: (Quaternion(Q(p, s)) * Quaternion(Q(q, s))).vec), "Quaternion.*"
        yield "inner", {"a": p, "b": q}, s * s, (lambda p=p, q=q, s=s: [b.inner(Q(p, s), Q(q, s))]), "base.inner"
        yield "inner", {"a": p, "b": q}, s * s, (lambda p=p, q=q, s=s: [Quaternion(Q(p, s)).inner(Quaternion(Q(q, s)))]), "Quaternion.inner"
        yield "add", {"a": p, "b": q}, s, (lambda p=p, q=q, s=s: (Quaternion(Q(p, s)) + Quaternion(Q(q, s))).vec), "Quaternion.+"
        yield "sub", {"a": p, "b": q}, s, (lambda p=p, q=q, s=s: (Quaternion(Q(p, s)) - Quaternion(Q(q, s))).vec), "Quaternion.-"
        yield "matvec", {"a": p, "b": q}, s * s, (lambda p=p, q=q, s=s: b.matrix(Q(p, s)) @ Q(q, s)), "base.matrix@"
    singles = [(g, 1.0) for g in grid01] + [(g, s) for g in pts for s in sigmas] + [(g, 1.0) for g in big]
    for p, s in singles:
        yield "conj", {"a": p}, s, (lambda p=p, s=s: b.conj(Q(p, s))), "base.conj"
        yield "conj", {"a": p}, s, (lambda p=p, s=s: Quaternion(Q(p, s)).conj().vec), "Quaternion.conj"
        yield "norm2", {"a": p}, s * s, (lambda p=p, s=s: [b.qnorm(Q(p, s)) ** 2]), "base.qnorm"
        yield "norm2", {"a": p}, s * s, (lambda p=p, s=s: [Quaternion(Q(p, s)).norm() ** 2]), "Quaternion.norm"
        yield "matrix", {"a": p}, s, (lambda p=p, s=s: b.matrix(Q(p, s))), "base.matrix"
        yield "matrix", {"a": p}, s, (lambda p=p, s=s: Quaternion(Q(p, s)).matrix), "Quaternion.matrix"
        yield "neg", {"a": p}, s, (lambda p=p, s=s: (-Quaternion(Q(p, s))).vec), "Quaternion.neg"
        yield "scale", {"a": p, "n": 3}, s, (lambda p=p, s=s: (3 * Quaternion(Q(p, s))).vec), "int*Quaternion"
        yield "scale", {"a": p, "n": -2}, s, (lambda p=p, s=s: (Quaternion(Q(p, s)) * -2).vec), "Quaternion*int"
        yield "pure", {"a": p[1:]}, s, (lambda p=p, s=s: b.pure(Q(p[1:], s))), "base.pure"
    small = list(itertools.product((0, 1, 2), repeat=4))[::3] + [tuple(rng.randint(-6, 6) for _ in range(4)) for _ in range(10)]
    for p in small:
        for n in range(-6, 7):
            yield "qpow", {"a": p, "n": n}, 1.0, (lambda p=p, n=n: b.qpow(Q(p), n)), "base.qpow"
            yield "qpow", {"a": p, "n": n}, 1.0, (lambda p=p, n=n: (Quaternion(Q(p)) ** n).vec), "Quaternion.**"
    # kinematic rate functions: 2*qdot must equal the (half-free) product with the pure angular velocity
    for p, _ in singles[:40]:
        for w in [(1, 0, 0), (0, 1, 0), (0, 0, 1), (2, -3, 5)]:
            yield "rate_world2", {"a": p, "b": w}, 1.0, (lambda p=p, w=w: 2 * b.dot(Q(p), Q(w))), "base.dot"
            yield "rate_body2", {"a": p, "b": w}, 1.0, (lambda p=p, w=w: 2 * b.dotb(Q(p), Q(w))), "base.dotb"
    # rotation of a vector by an (unnormalised integer) quaternion: N(q) * qvmul(q/|q|, v) = vec(q v q*)
    for p in [g for g in pts if any(g)] + [(1, 1, 0, 0), (1, 1, 1, 1), (0, 1, 1, 0), (2, 1, 0, 0)]:
        nq = sum(c * c for c in p)
        for v in [(1, 2, 3), (0, 0, 1), (-4, 5, 7)]:
            yield "qvmul_n", {"a": p, "b": v}, 1.0 / nq, \
                (lambda p=p, v=v, nq=nq: b.qvmul(Q(p) / math.sqrt(nq), Q(v))), "base.qvmul"
            yield "qvmul_n", {"a": p, "b": v}, 1.0 / nq, \
                (lambda p=p, v=v, nq=nq: UnitQuaternion(Q(p) / math.sqrt(nq)) * Q(v)), "UnitQuaternion*v"
    # minimal 3-vector form of unit quaternions (Pythagorean quadruples, scalar parts >= 0.1)
    pyth = [(n, a, bb, c, d) for n in range(1, 12) for a in range(1, n + 1) for bb in range(-n, n + 1)
            for c in range(-n, n + 1) for d in range(0, n + 1)
            if a * a + bb * bb + c * c + d * d == n * n and a >= 0.1 * n]
    rng.shuffle(pyth)
    for (n1, *q1), (n2, *q2) in zip(pyth[:80], pyth[80:160]):
        yield "vvmul_n", {"a": tuple(q1), "b": tuple(q2)}, 1.0 / (n1 * n2), \
            (lambda q1=q1, q2=q2, n1=n1, n2=n2: b.vvmul(Q(q1[1:]) / n1, Q(q2[1:]) / n2)), "base.vvmul"
    # inner product of UNIT quaternion objects (Pythagorean quadruples; negative products included: q1 with -q2)
    for (n1, *q1), (n2, *q2) in zip(pyth[:40], pyth[40:80]):
        for sg in (1, -1):
            q2s = tuple(sg * c for c in q2)
            yield "inner", {"a": tuple(q1), "b": q2s}, 1.0 / (n1 * n2), \
                (lambda q1=q1, q2s=q2s, n1=n1, n2=n2: [UnitQuaternion(Q(q1) / n1).inner(UnitQuaternion(Q(q2s) / n2))]), "UnitQuaternion.inner"
    # dual quaternions
    b8 = [tuple(1 if i == k else 0 for i in range(8)) for k in range(8)]
    r8 = [tuple(rng.randint(-50, 50) for _ in range(8)) for _ in range(20 if thorough else 8)]

    def D(v, s=1.0):
        return DualQuaternion(Quaternion(Q(v[:4], s)), Quaternion(Q(v[4:], s)))

    def dvec(d):
        return np.r_[d.real.vec, d.dual.vec]
    for a in b8 + r8:
        for c in b8 + r8[:4]:
            for s in ([1.0] if a in b8 else [1.0, 1e-3, 1e3]):
                yield "dqmul", {"a": a, "b": c}, s * s, (lambda a=a, c=c, s=s: dvec(D(a, s) * D(c, s))), "DualQuaternion.*"
                yield "dqadd", {"a": a, "b": c}, s, (lambda a=a, c=c, s=s: dvec(D(a, s) + D(c, s))), "DualQuaternion.+"
                yield "dqsub", {"a": a, "b": c}, s, (lambda a=a, c=c, s=s: dvec(D(a, s) - D(c, s))), "DualQuaternion.-"
                yield "dqmatvec", {"a": a, "b": c}, s * s, (lambda a=a, c=c, s=s: D(a, s).matrix() @ dvec(D(c, s))), "DualQuaternion.matrix@"
        yield "dqconj", {"a": a}, 1.0, (lambda a=a: dvec(D(a).conj())), "DualQuaternion.conj"
    # products of UNIT dual quaternions built from rigid motions (integer quaternion, integer translation): composed
    # rotations beyond a half turn (negative real scalar part) included
    from spatialmath import SE3
    from spatialmath.DualQuaternion import UnitDualQuaternion
    mots = [((1, 1, 0, 0), (1, 0, 0)), ((1, 0, 0, 1), (0, 2, -1)), ((0, 0, 0, 1), (1, 2, 0)), ((1, 1, 1, 1), (1, -1, 0)),
            ((0, 1, 1, 0), (2, 0, 1)), ((1, 0, 0, 3), (0, 0, 0)), ((1, 0, -2, 0), (3, -2, 1)), ((2, 1, 0, 0), (0, 0, 0)),
            ((1, 0, 0, -1), (1, 1, 1)), ((1, 2, 2, 0), (0, 1, 0))]

    def T_of(q, t):
        qq = Q(q) / math.sqrt(sum(c * c for c in q))
        s_, x, y, z = qq
        R = np.array([[1 - 2 * (y * y + z * z), 2 * (x * y - s_ * z), 2 * (x * z + s_ * y)],
                      [2 * (x * y + s_ * z), 1 - 2 * (x * x + z * z), 2 * (y * z - s_ * x)],
                      [2 * (x * z - s_ * y), 2 * (y * z + s_ * x), 1 - 2 * (x * x + y * y)]])
        T = np.eye(4)
        T[:3, :3] = R
        T[:3, 3] = t
        return T
    # a UNIT dual quaternion (of a rigid motion) times a GENERAL dual quaternion: still the plain dual-number product
    for (q1, t1) in mots:
        K1 = 2.0 * math.sqrt(sum(c * c for c in q1))
        for bb in r8[:4] + b8[:3]:
            yield "udq_dq_mul", {"q1": q1, "t1": t1, "d1": 1, "b": bb}, 1.0, \
                (lambda q1=q1, t1=t1, bb=bb, K1=K1: K1 * dvec(UnitDualQuaternion(SE3(T_of(q1, t1))) * D(bb))), "UnitDualQuaternion*DualQuaternion"
    for (q1, t1) in mots:
        K1 = math.sqrt(sum(c * c for c in q1))

        def thc(q1=q1, t1=t1, K1=K1):
            v = dvec(UnitDualQuaternion(SE3(T_of(q1, t1))).conj())
            return np.r_[K1 * v[:4], 2 * K1 * v[4:]]
        yield "udqconj", {"q1": q1, "t1": t1, "d1": 1}, 1.0, thc, "UnitDualQuaternion.conj"
    for (q1, t1) in mots:
        for (q2, t2) in mots:
            K = math.sqrt(sum(c * c for c in q1) * sum(c * c for c in q2))

            def th(q1=q1, t1=t1, q2=q2, t2=t2, K=K):
                v = dvec(UnitDualQuaternion(SE3(T_of(q1, t1))) * UnitDualQuaternion(SE3(T_of(q2, t2))))
                return np.r_[K * v[:4], 2 * K * v[4:]]
            yield "udqmul", {"q1": q1, "t1": t1, "d1": 1, "q2": q2, "t2": t2, "d2": 1}, 1.0, th, "UnitDualQuaternion.*"


def symbolic_identities(j):
    """the polynomial identities proved by EXECUTING THE LIBRARY CODE ON SYMBOLS (four real symbols per quaternion,
    three per angular velocity): every difference must expand to exactly 0"""
    import sympy as sp
    import spatialmath.base as b
    A, B, C = list(sp.symbols("a0:4", real=True)), list(sp.symbols("b0:4", real=True)), list(sp.symbols("c0:4", real=True))
    W = list(sp.symbols("w0:3", real=True))
    O = lambda v: np.asarray(v, dtype=object)          # noqa: E731
    n2 = lambda q: sum(x * x for x in O(q).ravel())    # noqa: E731
    idents = {
        "associativity": lambda: O(b.qqmul(b.qqmul(A, B), C)) - O(b.qqmul(A, b.qqmul(B, C))),
        "distributivity": lambda: O(b.qqmul(A, [x + y for x, y in zip(B, C)])) - O(b.qqmul(A, B)) - O(b.qqmul(A, C)),
        "norm-multiplicative": lambda: [n2(b.qqmul(A, B)) - n2(A) * n2(B)],
        "conj-reverses-products": lambda: O(b.conj(b.qqmul(A, B))) - O(b.qqmul(b.conj(B), b.conj(A))),
        "q*conj(q)=normsq": lambda: O(b.qqmul(A, b.conj(A))) - np.array([n2(A), 0, 0, 0], dtype=object),
        "inner=dot-product": lambda: [b.inner(A, B) - sum(x * y for x, y in zip(A, B))],
        "inner(q,q)=scalar-of-q*conj(q)": lambda: [b.inner(A, A) - O(b.qqmul(A, b.conj(A)))[0]],
        "matrix-form=left-multiplication": lambda: O(b.matrix(A)) @ O(B) - O(b.qqmul(A, B)),
        "qpow(3)=q*q*q": lambda: O(b.qpow(A, 3)) - O(b.qqmul(A, b.qqmul(A, A))),
        "qpow(-2)=conj(q*q)": lambda: O(b.qpow(A, -2)) - O(b.conj(b.qqmul(A, A))),
        "qpow(0)=1": lambda: O(b.qpow(A, 0)) - np.array([1, 0, 0, 0], dtype=object),
        "2*dot=pure(w)*q": lambda: 2 * O(b.dot(A, W)) - O(b.qqmul([0] + W, A)),
        "2*dotb=q*pure(w)": lambda: 2 * O(b.dotb(A, W)) - O(b.qqmul(A, [0] + W)),
        "qvmul=vector-of-q*v*conj(q)": lambda: O(b.qvmul(A, W)) - O(b.qqmul(b.qqmul(A, [0] + W), b.conj(A)))[1:],
        "pure": lambda: O(b.pure(W)) - np.array([0] + W, dtype=object),
    }
    for name, fn in idents.items():
        cid = ("symbolic", name)
        try:
            res = [sp.expand(x) for x in O(fn()).ravel()]
        except Exception as ex:  # noqa: BLE001
            j.fail("%s|symbolic:%s|four-symbols-per-quaternion|library-code-raised-%s-on-symbols" % (PID, name, type(ex).__name__),
                   {"kind": "symbolic", "identity": name, "error": str(ex)[:200]}, cid)
            continue
        if any(x != 0 for x in res):
            j.fail("%s|symbolic:%s|four-symbols-per-quaternion|identity-does-not-hold" % (PID, name),
                   {"kind": "symbolic", "identity": name, "residue": [str(x)[:80] for x in res if x != 0][:4]}, cid)
        else:
            j.ok(cid, nontrivial=True)
    return len(idents)


def record_events(j, rng, thorough):
    events, meta = [], []
    for fn, args, scale, thunk, site in events_for(rng, thorough):
        mx = max([abs(c) for v in args.values() for c in (v if isinstance(v, tuple) else [v])] + [0])
        feat = fn
        cid = (site, fn, "grid" if mx <= 2 else "rand" if mx <= 100 else "big", "%.0e" % scale)
        detail = {"kind": "event", "fn": fn, "site": site, "args": {k: list(v) if isinstance(v, tuple) else v for k, v in args.items()},
                  "scale": scale}
        try:
            val = thunk()
        except Exception as ex:  # noqa: BLE001
            j.fail("%s|%s|%s|raised-%s" % (PID, site, feat, type(ex).__name__), detail, cid)
            continue
        ints = to_ints(val, scale, j, site, feat, detail)
        if ints is None:
            j.fail("%s|%s|%s|not-exact-to-1e-9" % (PID, site, feat), dict(detail, value=np.asarray(val, dtype=float).ravel().tolist()), cid)
            continue
        ev = {"fn": fn, "res": ints}
        for k, v in args.items():
            ev[k] = list(v) if isinstance(v, tuple) else v
        events.append(ev)
        meta.append((site, fn, detail, cid))
    return events, meta


def judge_with_tlc(events):
    d = os.path.join(common.BUILD, "C12_trace")
    os.makedirs(d, exist_ok=True)
    tr, vd = os.path.join(d, "events.ndjson"), os.path.join(d, "verdict.json")
    if os.path.exists(vd):
        os.remove(vd)
    write_ndjson(tr, events)
    r = run_tlc("QuatTrace", "QuatTrace", tag="C12_trace", workers=1, env={"TRACE": tr, "VERDICT": vd}, timeout=900)
    if not os.path.exists(vd):
        raise MachineryError("QuatTrace wrote no verdict")
    v = json.load(open(vd))
    if v["lines"] != len(events):
        raise MachineryError("QuatTrace consumed %s of %d events" % (v["lines"], len(events)))
    return set(v["rejected"]), r


def exp_log(j, rng, n):
    """exp/log are not polynomial: lattice values and round-trip laws on valuations (1e-6)"""
    from spatialmath import Quaternion, UnitQuaternion
    # lattice: exp of the pure quaternion (pi/2) u is the pure unit quaternion u (u a unit axis from integers)
    for u in [(1, 0, 0), (0, 1, 0), (0, 0, 1), (3, 4, 0), (1, 2, 2), (2, 3, 6)]:
        nu = math.sqrt(sum(c * c for c in u))
        uu = np.array(u) / nu
        for k in (1, 2, 3):                       # k quarter turns of the quaternion angle
            q = Quaternion(0.0, k * (math.pi / 2) * uu)
            exp_expected = {1: np.r_[0.0, uu], 2: np.r_[-1.0, 0, 0, 0], 3: np.r_[0.0, -uu]}[k]
            cid = ("exp-lattice", k)
            try:
                d = float(np.max(np.abs(q.exp().vec - exp_expected)))
            except Exception as ex:  # noqa: BLE001
                j.fail("%s|Quaternion.exp|lattice;k=%d|raised-%s" % (PID, k, type(ex).__name__), {"u": u, "k": k}, cid)
                continue
            if d > 1e-6:
                j.fail("%s|Quaternion.exp|lattice;k=%d|wrong-value" % (PID, k), {"u": u, "k": k, "distance": d}, cid)
            else:
                j.ok(cid)
    # nearly real quaternions: exp(log(q)) = q with the vector part a small fraction of the scalar part (both signs)
    for ratio in (1e-8, 1e-6, 1e-5, 3e-5, 1e-4, 1e-3, 1e-2):
        for sgn in (1.0, -1.0):
            for mag in (1e-3, 1.0, 5.0, 1e3):
                ax = np.array([[1.0, 0, 0], [0, 0.6, -0.8], [2.0, -1.0, 2.0]][int(mag) % 3])
                ax = ax / np.linalg.norm(ax)
                cid = ("exp(log(q)) nearly-real", "ratio=%g" % ratio, sgn)
                feat = "nearly-real;ratio=%g;s%s0" % (ratio, ">" if sgn > 0 else "<")
                try:
                    q = Quaternion(sgn * mag, ax * mag * ratio)
                    got = np.asarray(q.log().exp().vec, dtype=float)
                    d = float(np.max(np.abs(got - q.vec))) / mag
                    if not np.all(np.isfinite(got)):
                        d = float("inf")
                except Exception as ex:  # noqa: BLE001
                    j.fail("%s|Quaternion.log/exp|exp(log(q));%s|raised-%s" % (PID, feat, type(ex).__name__), {"ratio": ratio, "mag": mag}, cid)
                    continue
                if not (d <= 1e-6):
                    j.fail("%s|Quaternion.log/exp|exp(log(q));%s|law-violated" % (PID, feat), {"ratio": ratio, "mag": mag, "distance": d}, cid)
                else:
                    j.ok(cid)
    for i in range(n):
        mag = 10 ** rng.uniform(-6, 6)
        v = np.array([rng.gauss(0, 1) for _ in range(3)])
        v = v / np.linalg.norm(v)
        s = rng.gauss(0, 1) * mag
        vn = [1e-6, 1e-3, 0.5, 1.0, 2.0, 3.0, math.pi - 1e-6][i % 7]
        # exp(log(q)) = q for every q with non-zero vector part
        q = Quaternion(s, v * mag * rng.choice([1e-3, 1.0, 1e3]))
        band = "mag=%s" % ("1e%d" % int(3 * math.floor(math.log10(mag) / 3)))
        cid = ("exp(log(q))", band)
        try:
            d = float(np.max(np.abs(q.log().exp().vec - q.vec))) / max(1.0, float(np.max(np.abs(q.vec))))
        except Exception as ex:  # noqa: BLE001
            j.fail("%s|Quaternion.log/exp|exp(log(q));%s|raised-%s" % (PID, band, type(ex).__name__), {"q": q.vec.tolist()}, cid)
        else:
            if d > 1e-6:
                j.fail("%s|Quaternion.log/exp|exp(log(q));%s|law-violated" % (PID, band), {"q": q.vec.tolist(), "distance": d}, cid)
            else:
                j.ok(cid)
        # log(exp(q)) = q when the vector part has norm in (0, pi)
        q2 = Quaternion(rng.uniform(-2, 2), v * vn)
        cid = ("log(exp(q))", "absv=%g" % vn)
        try:
            d = float(np.max(np.abs(q2.exp().log().vec - q2.vec)))
        except Exception as ex:  # noqa: BLE001
            j.fail("%s|Quaternion.log/exp|log(exp(q));absv=%g|raised-%s" % (PID, vn, type(ex).__name__), {"q": q2.vec.tolist()}, cid)
        else:
            if d > 1e-6:
                j.fail("%s|Quaternion.log/exp|log(exp(q));absv=%g|law-violated" % (PID, vn), {"q": q2.vec.tolist(), "distance": d}, cid)
            else:
                j.ok(cid)
        # unit quaternion: exp(log(q)) = q
        th = [1e-9, 1e-6, 1e-3, 0.5, 2.0, 3.0, math.pi - 1e-6][i % 7]
        uq = UnitQuaternion(math.cos(th / 2), math.sin(th / 2) * v)
        cid = ("unit exp(log(q))", "theta=%g" % th)
        try:
            r = uq.log().exp()
            d = float(np.max(np.abs(r.vec - uq.vec)))
        except Exception as ex:  # noqa: BLE001
            j.fail("%s|UnitQuaternion.log/exp|theta=%g|raised-%s" % (PID, th, type(ex).__name__), {"q": uq.vec.tolist()}, cid)
        else:
            if d > 1e-6:
                j.fail("%s|UnitQuaternion.log/exp|theta=%g|law-violated" % (PID, th), {"q": uq.vec.tolist(), "distance": d}, cid)
            else:
                j.ok(cid)


def exp_log_lattice(j, thorough):
    """structured exp/log cases enumerated by TLC (QuatExpLog.tla): every integer quaternion of the -2..2 box with a
    non-zero vector part (pure ones included) at several scales; vector parts of norm exactly k pi/4"""
    from spatialmath import Quaternion
    r = run_tlc("MC_QuatExpLog", "QuatExpLog", timeout=300)
    seen = set()
    for c in r.json:
        key = json.dumps(c, sort_keys=True)
        if key in seen:
            continue
        seen.add(key)
        if c["k"] == "explog":
            for sigma in ((1e-6, 1e-3, 1.0, 7.0, 1e3, 1e6) if thorough else (1e-3, 1.0, 1e3)):
                qv = np.array(c["q"], dtype=float) * sigma
                feat = "%s;axes=%d;sigma=%g" % (c["cls"], c["axes"], sigma)
                cid = ("exp(log(q)) lattice", c["cls"], c["axes"], sigma)
                try:
                    got = np.asarray(Quaternion(qv).log().exp().vec, dtype=float)
                    d = float(np.max(np.abs(got - qv))) / max(1.0, float(np.max(np.abs(qv))))
                except Exception as ex:  # noqa: BLE001
                    j.fail("%s|Quaternion.log/exp|exp(log(q));%s|raised-%s" % (PID, feat, type(ex).__name__), {"q": qv.tolist()}, cid)
                    continue
                if d > 1e-6:
                    j.fail("%s|Quaternion.log/exp|exp(log(q));%s|law-violated" % (PID, feat), {"q": qv.tolist(), "got": got.tolist(), "distance": d}, cid)
                else:
                    j.ok(cid)
        elif c["k"] == "logexp":
            u = np.array(c["u"], dtype=float)
            u = u / np.linalg.norm(u)
            k = c["n"]
            qv = np.r_[float(c["s"]), k * math.pi / 4 * u]
            den = math.sqrt(2.0) if c["odd"] else 1.0
            expected = math.exp(c["s"]) * np.r_[c["cs"][0] / den, c["cs"][1] / den * u]
            feat = "s=%s;k=%d" % ("0" if c["s"] == 0 else "neg" if c["s"] < 0 else "pos", k)
            cid = ("log(exp(q)) lattice", feat)
            try:
                e = Quaternion(qv).exp()
                ev = np.asarray(e.vec, dtype=float)
                back = np.asarray(e.log().vec, dtype=float)
            except Exception as ex:  # noqa: BLE001
                j.fail("%s|Quaternion.exp/log|log(exp(q));%s|raised-%s" % (PID, feat, type(ex).__name__), {"q": qv.tolist()}, cid)
                continue
            d1 = float(np.max(np.abs(ev - expected))) / max(1.0, math.exp(c["s"]))
            d2 = float(np.max(np.abs(back - qv)))
            if d1 > 1e-6:
                j.fail("%s|Quaternion.exp|%s|wrong-value" % (PID, feat), {"q": qv.tolist(), "got": ev.tolist(), "expected": expected.tolist()}, cid)
            elif d2 > 1e-6:
                j.fail("%s|Quaternion.exp/log|log(exp(q));%s|law-violated" % (PID, feat), {"q": qv.tolist(), "got": back.tolist()}, cid)
            else:
                j.ok(cid)
    if len(seen) < 700:
        raise common.MachineryError("QuatExpLog export too small: %d" % len(seen))
    return r


def dual_norm(j, rng, thorough):
    """the dual norm of every unit dual quaternion built from a rigid motion is (1, 0) to 1e-6"""
    from spatialmath import SE3
    from spatialmath.DualQuaternion import UnitDualQuaternion
    import gamma
    r = run_tlc("MC_Group", "Group_lattice3", timeout=300)
    hs = [e["post"] for e in r.json][:: (1 if thorough else 9)]
    # screw motions with a translation ALONG the rotation axis (non-zero pitch) from Screw.tla
    rsw = run_tlc("MC_Screw", "Screw", tag="C12_Screw", timeout=600)
    sw = [e["m"] for e in rsw.json if e["c"]["k"] == "screw3" and e["c"]["an"] != 0]
    hs += sw[:: (5 if thorough else 40)]
    for h in hs:
        for sigma in (1e-3, 1.0, 1e3, 1e6):
            T = gamma.T4(h, sigma)
            cid = ("dual-norm", sigma)
            try:
                nrm = UnitDualQuaternion(SE3(T)).norm()
                a, b2 = float(nrm[0]), float(nrm[1])
            except Exception as ex:  # noqa: BLE001
                j.fail("%s|UnitDualQuaternion.norm|sigma=%g|raised-%s" % (PID, sigma, type(ex).__name__), {"T": T.tolist()}, cid)
                continue
            if not (abs(a - 1) <= 1e-6 and abs(b2) <= 1e-6 * max(1.0, sigma)):
                j.fail("%s|UnitDualQuaternion.norm|sigma=%g|not-(1,0)" % (PID, sigma), {"T": T.tolist(), "norm": [a, b2]}, cid)
            else:
                j.ok(cid)
    return r


def run(tier):
    j = Judge(PID)
    thorough = tier == "thorough"
    rng = random.Random(common.seed() + 12)
    rt = run_tlc("MC_ExactQuat", "ExactQuat", workers=1, timeout=900)        # the theorems
    n_sym = symbolic_identities(j)
    events, meta = record_events(j, rng, thorough)
    rejected, rj = judge_with_tlc(events)
    for k, (site, fn, detail, cid) in enumerate(meta, 1):
        if k in rejected:
            j.fail("%s|%s|%s|rejected-by-TLC" % (PID, site, fn), dict(detail, got=events[k - 1]["res"]), cid)
        else:
            j.ok(cid)
    j.sample({"event": events[5]})
    j.sample({"event": next(e for e in events if e["fn"] == "dqmul")})
    n_ev = len(events)
    exp_log(j, rng, 300 if thorough else 70)
    rx = exp_log_lattice(j, thorough)
    rl = dual_norm(j, rng, thorough)
    cov = {"identities_executed_on_symbols": n_sym, "states": rj.distinct + rl.distinct + rx.distinct + 1, "transitions": rj.generated + rl.generated + rx.generated,
           "traces_validated_against_impl": n_ev, "theorems_checked_by_tlc": 14,
           "events_judged_by_tlc": n_ev, "events_rejected": len(rejected),
           "lattice_exact": n_ev, "valuation": j.evaluations - n_ev, "checker_cmd": rt.cmd,
           "rule": "case = (implementation site, spec operator); events on the sufficient grids {0,1}^n, basis vectors, "
                   "random integers (|x| <= 1e2 / 1e4) and sigma-scaled copies; non-trivial = all"}
    return {"judge": j, "coverage": cov, "level": "model_checking", "assumptions": [
        "each implementation function is a polynomial map of the degree the statement implies (built from + - * and "
        "indexing); under that assumption agreement on the sufficient grid is agreement everywhere - checked, not "
        "proved, by the extra random and scaled points",
        "exp/log are transcendental: lattice values and round-trip laws on sampled valuations only"]}


def replay(rp):
    for c in rp["cases"][:10]:
        print(c)
    return 0
