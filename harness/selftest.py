"""./check selftest - the machinery checks itself (DESIGN section 9).

 1. binding of the trace specifications: a recorded trace is accepted as recorded; after corrupting ONE
    field (a post-state id, a result class, one integer of a result) TLC rejects exactly that line;
 2. a dropped hook is noticed: with the append wrapper removed the driver trace no longer explains its own
    pre-states (continuity) and is rejected;
 3. gamma / alpha round trips are the identity on the exact domain;
 4. vacuity: every operation of the list model occurs in the exported edge set.
Writes evidence/selftest.json; exit 0 iff every demonstration behaves as described.
"""
import copy
import json
import os
import random

import numpy as np

import common
from common import run_tlc, write_ndjson


def _judge(module, cfg, tag, events):
    d = os.path.join(common.BUILD, tag)
    os.makedirs(d, exist_ok=True)
    tr, vd = os.path.join(d, "trace.ndjson"), os.path.join(d, "verdict.json")
    if os.path.exists(vd):
        os.remove(vd)
    write_ndjson(tr, events)
    run_tlc(module, cfg, tag=tag, workers=1, env={"TRACE": tr, "VERDICT": vd}, timeout=600)
    return json.load(open(vd))["rejected"]


def run():
    common.use_repo()
    results = {}
    ok_all = True
    import c10_trace
    ev = c10_trace.group(c10_trace.driver_events(30, 25, 12345))
    rej0 = _judge("SMListTrace", "SMListTrace", "selftest_list0", ev)
    results["list_trace_as_recorded"] = {"events": len(ev), "rejected": rej0}
    ok_all &= rej0 == []
    # corrupt one post-state id of a mutator event
    k = next(i for i, e in enumerate(ev) if e["call"]["op"] in ("append", "insert") and e["res"]["k"] == "none" and e["post"])
    bad = copy.deepcopy(ev)
    bad[k]["post"][0] += 1000
    rej1 = _judge("SMListTrace", "SMListTrace", "selftest_list1", bad)
    results["list_trace_corrupted_post"] = {"corrupted_line": k + 1, "rejected": rej1}
    ok_all &= (k + 1) in rej1 and len(rej1) <= 2            # the line itself (+ possibly the continuity of the next)
    # corrupt the class of a returned object
    k2 = next(i for i, e in enumerate(ev) if e["res"].get("k") == "obj")
    bad = copy.deepcopy(ev)
    bad[k2]["res"]["cls"] = "SO3" if bad[k2]["res"]["cls"] != "SO3" else "SE3"
    rej2 = _judge("SMListTrace", "SMListTrace", "selftest_list2", bad)
    results["list_trace_corrupted_class"] = {"corrupted_line": k2 + 1, "rejected": rej2}
    ok_all &= rej2 == [k2 + 1]
    # drop a hook: remove every append event - the following event's pre-state is then unexplained
    dropped = [e for e in ev if e["call"]["op"] != "append"]
    rej3 = _judge("SMListTrace", "SMListTrace", "selftest_list3", dropped)
    n_app = sum(1 for e in ev if e["call"]["op"] == "append" and e["res"]["k"] == "none")
    results["list_trace_hook_dropped"] = {"successful_appends_removed": n_app, "rejected_lines": len(rej3)}
    ok_all &= len(rej3) > 0 and n_app > 0
    # pure-function events: one integer changed
    qe = [{"fn": "qqmul", "a": [1, 2, 3, 4], "b": [0, 1, 0, -1], "res": [2, -2, 6, -2]},
          {"fn": "conj", "a": [1, 2, 3, 4], "res": [1, -2, -3, -4]},
          {"fn": "qqmul", "a": [1, 0, 0, 0], "b": [5, 6, 7, 8], "res": [5, 6, 7, 8]}]
    import spatialmath.base as b
    qe[0]["res"] = [int(x) for x in b.qqmul([1, 2, 3, 4], [0, 1, 0, -1])]
    r0 = _judge("QuatTrace", "QuatTrace", "selftest_q0", qe)
    qb = copy.deepcopy(qe)
    qb[1]["res"][2] += 1
    r1 = _judge("QuatTrace", "QuatTrace", "selftest_q1", qb)
    results["quat_events"] = {"as_recorded": r0, "one_integer_changed_in_line_2": r1}
    ok_all &= r0 == [] and r1 == [2]
    # gamma / alpha identities
    import elems
    bad_ids = []
    for cname in elems.SPEC:
        for kk in list(range(0, 300, 7)) + [299]:
            if elems.ident(cname, elems.arr(cname, kk)) != kk:
                bad_ids.append((cname, kk))
    results["elems_roundtrip_failures"] = bad_ids
    ok_all &= not bad_ids
    import gamma
    r = run_tlc("MC_Group", "Group_lattice3", timeout=300)
    worst = 0.0
    for e in r.json[::40]:
        for cname in ("SO3", "SE3", "UnitQuaternion"):
            X = gamma.build(cname, e["post"])
            worst = max(worst, gamma.distance(cname, gamma.project(cname, X), gamma.expected(cname, e["post"])))
    results["gamma_alpha_worst_distance"] = worst
    ok_all &= worst <= 1e-12
    # vacuity of the list model export
    re_ = run_tlc("MC_SMList", "SMList_edges")
    ops = sorted({x["call"]["op"] for x in re_.json})
    results["list_model_operations_exported"] = ops
    ok_all &= len(ops) == 17
    os.makedirs(common.EVID, exist_ok=True)
    with open(os.path.join(common.EVID, "selftest.json"), "w") as f:
        json.dump({"ok": bool(ok_all), "results": results}, f, indent=1, default=str)
    print("selftest:", "OK" if ok_all else "FAILED")
    for kx, v in results.items():
        print("  ", kx, str(v)[:160])
    return 0 if ok_all else 1
