"""aggregate VIOLATION lines: python summ.py < output"""
import re, sys, collections
c = collections.Counter()
ex = {}
for l in sys.stdin:
    m = re.search(r"key=(\S+)", l)
    if not l.startswith("VIOLATION") or not m:
        if l.startswith(("C0", "C1", "C2", "MACH", "KNOWN")):
            print(l.rstrip()[:300])
        continue
    p = m.group(1).split("|")
    site = p[1]
    k = (site, p[3])
    c[k] += 1
    ex.setdefault(k, p[1] + " " + p[2])
for k, n in sorted(c.items()):
    print("%4d  %-40s %-50s e.g. %s" % (n, k[0], k[1], ex[k]))
