"""C18 - unit twists encode screw geometry.

Spec: Screw.tla (shared with C03): zero-pitch screws T_p Rot(q) T_-p about integer axes through
integer points, with AxisFixed / AxialShift / ValidAll checked by TLC and the exact matrix exported.
Twist3.Revolute(axis, point) / Prismatic(axis) / Twist2.Revolute / Prismatic are built from the same
integers with axis lengths 1e-3 .. 1e6; exp(theta S) is compared with the exact matrix (and its exact
integer powers for theta = k pi/2, k in -4..4), axis points must stay fixed, and pitch, pole, line,
theta, isprismatic, se3 form, inverse and scalar multiples are checked against the axis data.
"""
import math
import random

import numpy as np

import common
from common import Judge, MachineryError, run_tlc
import gamma

PID = "C18"
TOL = 1e-7


def check(j, ok, site, feat, mode, detail, cid):
    if ok:
        j.ok(cid)
    else:
        j.fail("%s|%s|%s|%s" % (PID, site, feat, mode), detail, cid)


def guard(j, site, feat, detail, cid, fn):
    try:
        return fn()
    except Exception as ex:  # noqa: BLE001
        j.fail("%s|%s|%s|raised-%s" % (PID, site, feat, type(ex).__name__), detail, cid)
        return None


def on_axis_residual(x, p, u):
    return float(np.linalg.norm(np.cross(np.asarray(x, dtype=float) - p, u)))


def quarter(q):
    s, x, y, z = q
    v2 = x * x + y * y + z * z
    return v2 == s * s and sum(1 for c in (x, y, z) if c) == 1


FIX = 1e-9     # "leaves every point of the axis fixed": no tolerance is stated; 1e-9 x scale is four orders above the
               # rounding error of the closed form (1e-13 x scale) and far below any formula error


def revolute_case(j, e, alen, rng, sigma=1.0):
    import spatialmath.base as b
    from spatialmath import Twist3, SE3
    c = e["c"]
    q = c["q"]
    v = np.array(q[1:], dtype=float)
    nv = float(np.linalg.norm(v))
    u = v / nv
    th = 2.0 * math.atan2(nv, q[0])
    p = np.array(c["p"], dtype=float) * sigma
    M = gamma.T4(e["m"], sigma)
    a = u * alen
    sc = max(1.0, float(np.linalg.norm(p)))
    feat = "axislen=%g;point=%g;theta=%s" % (alen, sigma, "quarter" if quarter(q) else "pi" if q[0] == 0 else "generic")
    detail = {"kind": "revolute", "case": c, "axislen": alen, "theta": th, "point_scale": sigma}
    S = guard(j, "Twist3.Revolute", feat, detail, ("Revolute", alen), lambda: Twist3.Revolute(a, p))
    if S is None:
        return
    # exp(theta S) is the exact screw; scalar and vector theta, both units
    for site, fn in {"Twist3.exp(theta)": lambda: S.exp(th).A, "Twist3.exp(theta,deg)": lambda: S.exp(math.degrees(th), units="deg").A,
                     "(S*theta).exp()": lambda: (S * th).exp().A, "(theta*S).exp()": lambda: (th * S).exp().A,
                     "trexp(se3*theta)": lambda: b.trexp(S.se3() * th), "(S*theta).SE3()": lambda: (S * th).SE3().A,
                     # the revolute twist held AFTER a prismatic one (and before one) in an object holding several values
                     "Twist3([prismatic,S]).exp(theta)[1]": lambda: Twist3([Twist3.Prismatic([0, 0, 1]), S]).exp(th)[1].A,
                     "Twist3([S,prismatic]).exp(theta)[0]": lambda: Twist3([S, Twist3.Prismatic([0, 1, 0])]).exp(th)[0].A,
                     "Twist3([prismatic,S*theta]).exp()[1]": lambda: Twist3([Twist3.Prismatic([1, 0, 0]), S * th]).exp()[1].A}.items():
        cid = (site, feat)
        r = guard(j, site, feat, detail, cid, fn)
        if r is not None:
            d = float(np.max(np.abs(np.asarray(r, dtype=float) - M)))
            check(j, d <= TOL * sc, site, feat, "not-the-rotation-about-the-axis", dict(detail, distance=d), cid)
    dg = math.degrees(th)
    for site, fn in {"Twist3.exp(vector)": lambda: S.exp([0.0, th, -th]), "Twist3.exp(ndarray)": lambda: S.exp(np.array([0.0, th, -th])),
                     "Twist3.exp(vector,deg)": lambda: S.exp([0.0, dg, -dg], units="deg"),
                     "Twist3.exp(ndarray,deg)": lambda: S.exp(np.array([0.0, dg, -dg]), units="deg")}.items():
        cid = (site, feat)
        rv = guard(j, site, feat, detail, cid, fn)
        if rv is not None:
            ok = len(rv) == 3 and float(np.max(np.abs(rv[0].A - np.eye(4)))) <= TOL and float(np.max(np.abs(rv[1].A - M))) <= TOL * sc \
                and float(np.max(np.abs(rv[2].A @ M - np.eye(4)))) <= TOL * sc
            check(j, ok, site, feat, "wrong-sequence", detail, cid)
    # every point of the axis is fixed by exp(theta S) for arbitrary theta in [-2 pi, 2 pi], small ones included
    sweep = [th, -2.3, 2 * math.pi, 0.0, 5.1, 1e-9, -1e-6, 1e-4, 3e-3, -9e-3, 0.05, math.pi / 2, -math.pi]
    sweep += [rng.choice((-1, 1)) * 10 ** rng.uniform(-8, 0.79) for _ in range(3)]
    for t2 in sweep:
        T = guard(j, "Twist3.exp(theta)", feat, detail, ("axis-fixed", feat), lambda: S.exp(t2).A)
        if T is None:
            continue
        worst = 0.0
        for lam in (-3.0, 0.0, 1.5):
            x = p + lam * u
            worst = max(worst, float(np.max(np.abs(T[:3, :3] @ x + T[:3, 3] - x))))
        check(j, worst <= FIX * sc, "Twist3.exp(theta)", feat, "axis-point-moved", dict(detail, theta2=t2, moved=worst), ("axis-fixed", feat))
        if abs(t2) <= math.pi:      # both angular units generate the same motion
            Td = guard(j, "Twist3.exp(theta,deg)", feat, detail, ("deg=rad", feat), lambda: S.exp(math.degrees(t2), units="deg").A)
            if Td is not None:
                check(j, float(np.max(np.abs(Td - T))) <= FIX * sc, "Twist3.exp(theta,deg)", feat, "deg-differs-from-rad",
                      dict(detail, theta2=t2), ("deg=rad", feat))
        # the two-argument forms of the base exponential on the vector and on the se(3) matrix of the unit twist
        for site, fn in (("base.trexp(S,theta)", lambda: b.trexp(S.S, t2)), ("base.trexp(se3,theta)", lambda: b.trexp(S.se3(), t2)),
                         ("base.trexp(S,int(theta))", (lambda: b.trexp(S.S, int(t2))) if float(t2).is_integer() else None)):
            if fn is None:
                continue
            Tb = guard(j, site, feat, detail, (site, feat), fn)
            if Tb is not None:
                check(j, float(np.max(np.abs(np.asarray(Tb, dtype=float) - T))) <= FIX * sc, site, feat, "differs-from-Twist3.exp",
                      dict(detail, theta2=t2), (site, feat))
        # the inverse (negated) unit twist is a unit twist too: in the two-argument forms it generates the inverse motion
        for site, fn in (("base.trexp(-S,theta)", lambda: b.trexp(S.inv().S, t2)), ("base.trexp(-se3,theta)", lambda: b.trexp(S.inv().se3(), t2))):
            Tb = guard(j, site, feat, detail, (site, feat), fn)
            if Tb is not None:
                check(j, float(np.max(np.abs(np.asarray(Tb, dtype=float) @ T - np.eye(4)))) <= FIX * sc * 10, site, feat,
                      "not-the-inverse-motion", dict(detail, theta2=t2), (site, feat))
        # and it rotates by t2 about u: R u = u, trace = 1 + 2 cos
        R = T[:3, :3]
        ok = float(np.max(np.abs(R @ u - u))) <= TOL and abs(float(np.trace(R)) - (1 + 2 * math.cos(t2))) <= TOL
        check(j, ok, "Twist3.exp(theta)", feat, "wrong-rotation-angle-or-axis", dict(detail, theta2=t2), ("rotation", feat))
    # the rotational part alone: exp of the unit so(3) element with theta (0 included) is the rotation by theta about u
    for t2 in (0, 0.0, 1e-9, 0.7, -2.3, math.pi):
        for site, fn in (("base.trexp(w,theta)", lambda: b.trexp(np.asarray(S.w, dtype=float), t2)),
                         ("base.trexp(skew(w),theta)", lambda: b.trexp(b.skew(np.asarray(S.w, dtype=float)), t2))):
            Rb = guard(j, site, feat, detail, (site, feat), fn)
            if Rb is not None:
                Rb = np.asarray(Rb, dtype=float)
                ok = Rb.shape == (3, 3) and float(np.max(np.abs(Rb - S.exp(t2).A[:3, :3]))) <= TOL
                check(j, ok, site, feat, "differs-from-the-rotation-of-Twist3.exp", dict(detail, theta2=t2), (site, feat))
    # quarter-turn multiples against exact integer powers
    if quarter(q):
        for kq in range(-4, 5):
            Mk = np.linalg.matrix_power(M, kq) if kq >= 0 else np.linalg.matrix_power(np.linalg.inv(M), -kq)
            Mk = np.round(Mk)          # entries are integers for quarter turns about integer points
            r = guard(j, "Twist3.exp(k*pi/2)", feat, detail, ("quarter", kq), lambda: S.exp(kq * math.pi / 2).A)
            if r is not None:
                check(j, float(np.max(np.abs(r - Mk))) <= TOL * sc, "Twist3.exp(k*pi/2)", feat, "wrong-multiple-of-quarter-turn",
                      dict(detail, k=kq), ("quarter", kq))
    # reported geometry of the unit twist
    props = {
        "pitch": (lambda: abs(float(S.pitch())) <= 1e-9 * sc, "pitch-not-zero"),
        "theta": (lambda: abs(float(S.theta()) - 1.0) <= 1e-9, "theta-not-unit-rotation"),
        "isprismatic": (lambda: S.isprismatic is False or S.isprismatic == False, "revolute-reported-prismatic"),  # noqa: E712
        "pole": (lambda: on_axis_residual(S.pole(), p, u) <= 1e-9 * sc, "pole-off-axis"),
        "w": (lambda: float(np.max(np.abs(np.asarray(S.w, dtype=float) - u))) <= 1e-9, "w-not-unit-axis"),
        "se3": (lambda: float(np.max(np.abs(S.se3() - b.skewa(S.S)))) <= 1e-12 * sc, "se3-form-differs"),
        "inv": (lambda: float(np.max(np.abs(S.inv().S + S.S))) <= 1e-12 * sc and
                float(np.max(np.abs(S.inv().exp(th).A @ M - np.eye(4)))) <= TOL * sc, "inverse-not-negation"),
    }
    for name, (fn, mode) in props.items():
        cid = ("Twist3." + name, feat)
        ok = guard(j, "Twist3." + name, feat, detail, cid, fn)
        if ok is not None:
            check(j, bool(ok), "Twist3." + name, feat, mode, detail, cid)
    # scalar multiples S*k: AFTER the geometry accessors have been used on the scaled twist (their values on a
    # non-unit twist are outside the statement, which speaks of unit twists, and are not judged) the exponential of
    # S*k still equals S.exp(k)
    for kk in (2.5, -0.7):
        cidk = ("Twist3*k", feat, kk)
        Sk = guard(j, "Twist3.*", feat, detail, cidk, lambda: S * kk)
        if Sk is None:
            continue
        for name in ("pole", "theta", "pitch", "line", "se3", "inv"):
            try:
                getattr(Sk, name)()
            except Exception:  # noqa: BLE001
                j.count("accessor_on_scaled_twist_raised")
        th_k = guard(j, "Twist3(S*k).theta", feat, detail, ("Twist3(S*k).theta", feat), lambda: float(Sk.theta()))
        if th_k is not None:        # theta() is the rotation magnitude: |k| for S*k (S a unit twist)
            check(j, abs(th_k - abs(kk)) <= 1e-9, "Twist3(S*k).theta", feat, "theta-not-abs(k)", dict(detail, k=kk), ("Twist3(S*k).theta", feat))
        Ek = guard(j, "Twist3.exp(k)", feat, detail, cidk, lambda: S.exp(kk).A)
        Gk = guard(j, "(S*k).exp()", feat, detail, cidk, lambda: Sk.exp().A)
        if Ek is not None and Gk is not None:
            check(j, float(np.max(np.abs(Gk - Ek))) <= TOL * sc, "(S*k).exp()", feat, "differs-from-S.exp(k)-after-accessors",
                  dict(detail, k=kk), cidk)
    _POOL.append((np.asarray(S.S, dtype=float).copy(), u.copy(), p.copy(), sc))
    cid = ("Twist3.line", feat)
    L = guard(j, "Twist3.line", feat, detail, cid, lambda: S.line())
    if L is not None:
        w = np.asarray(L.w, dtype=float)
        vv = np.asarray(L.v, dtype=float)
        nw = max(float(np.linalg.norm(w)), 1e-300)
        ok = float(np.linalg.norm(np.cross(w, u))) / nw <= 1e-9 and \
            float(np.linalg.norm(np.cross(w, p) - vv)) / (nw * sc) <= 1e-9
        check(j, ok, "Twist3.line", feat, "line-of-action-off-axis", detail, cid)


_POOL = []


def multi_valued_lines(j):
    """line() of a Twist3 holding several unit twists with DIFFERENT axes: line i is the axis of twist i"""
    from spatialmath import Twist3
    for k in range(0, min(len(_POOL), 60) - 2, 3):
        trio = _POOL[k:k + 3]
        cid = ("Twist3[N].line",)
        detail = {"kind": "multi-valued-line", "twists": [t[0].tolist() for t in trio]}
        L = guard(j, "Twist3[N].line", "n=3", detail, cid, lambda: Twist3([t[0] for t in trio]).line())
        if L is None:
            continue
        ok = len(L) == 3
        if ok:
            for i, (S_, u, p, sc) in enumerate(trio):
                w = np.asarray(L[i].w, dtype=float)
                vv = np.asarray(L[i].v, dtype=float)
                nw = max(float(np.linalg.norm(w)), 1e-300)
                ok = ok and float(np.linalg.norm(np.cross(w, u))) / nw <= 1e-9 and \
                    float(np.linalg.norm(np.cross(w, p) - vv)) / (nw * sc) <= 1e-9
        check(j, ok, "Twist3[N].line", "n=3", "line-i-is-not-the-axis-of-twist-i", detail, cid)
        # the inverse of a Twist3 holding several unit twists: value i is the negation of twist i, and its exponential
        # undoes the exponential of twist i
        cid = ("Twist3[N].inv",)
        I = guard(j, "Twist3[N].inv", "n=3", detail, cid, lambda: Twist3([t[0] for t in trio]).inv())
        if I is not None:
            ok = len(I) == 3
            if ok:
                for i, (S_, u, p, sc) in enumerate(trio):
                    ok = ok and float(np.max(np.abs(np.asarray(I[i].S, dtype=float) + S_))) <= 1e-12 * sc and \
                        float(np.max(np.abs(I[i].exp(0.9).A @ Twist3(S_).exp(0.9).A - np.eye(4)))) <= TOL * sc
            check(j, ok, "Twist3[N].inv", "n=3", "value-i-is-not-the-negation-of-twist-i", detail, cid)
        # scalar multiples of a Twist3 holding several unit twists (int and float, both orders): value i is k times twist
        # i, and exp of it is twist i exponentiated with k
        for kname, kk in (("int", 2), ("float", 0.5), ("int3", 3)):
            for oname, fn in (("S*k", lambda: Twist3([t[0] for t in trio]) * kk), ("k*S", lambda: kk * Twist3([t[0] for t in trio]))):
                cid = ("Twist3[N]" + oname, kname)
                Mk = guard(j, "Twist3[N].%s" % oname, "n=3;k=%s" % kname, detail, cid, fn)
                if Mk is None:
                    continue
                try:
                    ok = len(Mk) == 3
                    if ok:
                        for i, (S_, u, p, sc) in enumerate(trio):
                            ok = ok and float(np.max(np.abs(np.asarray(Mk[i].S, dtype=float) - kk * S_))) <= 1e-12 * sc and \
                                float(np.max(np.abs(Mk[i].exp().A - Twist3(S_).exp(kk).A))) <= TOL * sc
                except Exception:  # noqa: BLE001
                    ok = False
                check(j, ok, "Twist3[N].%s" % oname, "n=3;k=%s" % kname, "value-i-is-not-k-times-twist-i", detail, cid)


def prismatic_case(j, d, alen):
    from spatialmath import Twist3
    u = np.array(d, dtype=float)
    u = u / np.linalg.norm(u)
    feat = "prismatic;axislen=%g" % alen
    detail = {"kind": "prismatic", "dir": list(d), "axislen": alen}
    S = guard(j, "Twist3.Prismatic", feat, detail, ("Prismatic", alen), lambda: Twist3.Prismatic(u * alen))
    if S is None:
        return
    for th in (0.0, 0.7, -2.5, 2 * math.pi, math.pi / 2):
        T = guard(j, "Twist3.exp(theta)", feat, detail, ("prismatic-exp",), lambda: S.exp(th).A)
        if T is not None:
            E = np.eye(4)
            E[:3, 3] = th * u
            check(j, float(np.max(np.abs(T - E))) <= TOL * max(1.0, abs(th)), "Twist3.exp(theta)", feat, "not-a-translation-by-theta",
                  dict(detail, theta=th), ("prismatic-exp",))
    cid = ("prismatic-props", alen)
    ok = guard(j, "Twist3.isprismatic", feat, detail, cid, lambda: bool(S.isprismatic) is True and
               float(np.max(np.abs(np.asarray(S.w, dtype=float)))) == 0 and abs(float(np.linalg.norm(S.v)) - 1) <= 1e-9)
    if ok is not None:
        check(j, ok, "Twist3.isprismatic", feat, "prismatic-not-reported-or-not-unit", detail, cid)
    # theta() is the ROTATION magnitude: none for a prismatic twist, its inverse and its multiples
    for site, fn in (("Twist3.theta", lambda: S.theta()), ("Twist3.inv().theta", lambda: S.inv().theta()), ("Twist3(S*k).theta", lambda: (S * 2.5).theta())):
        v = guard(j, site, feat, detail, (site, "prismatic"), fn)
        if v is not None:
            check(j, abs(float(v)) <= 1e-12, site, feat, "rotation-magnitude-of-a-prismatic-twist-not-zero", dict(detail, got=float(v)), (site, "prismatic"))
    ok = guard(j, "Twist3.*", feat, detail, ("prismatic-scale",), lambda: float(np.max(np.abs((S * 1.7).exp().A - S.exp(1.7).A))) <= TOL)
    if ok is not None:
        check(j, ok, "Twist3.*", feat, "scalar-multiple-inconsistent-with-exp", detail, ("prismatic-scale",))


def planar_case(j, e, rng, sigma=1.0):
    import spatialmath.base as b
    from spatialmath import Twist2
    c = e["c"]
    g, p = c["g"], np.array(c["p"][:2], dtype=float) * sigma
    th = 2.0 * math.atan2(g[1], g[0])
    H = gamma.T3(e["m"], sigma)
    sc = max(1.0, float(np.linalg.norm(p)))
    feat = "planar;point=%g;theta=%s" % (sigma, "quarter" if abs(g[0]) == abs(g[1]) else "pi" if g[0] == 0 else "generic")
    detail = {"kind": "planar", "case": c, "theta": th}
    S = guard(j, "Twist2.Revolute", feat, detail, ("Revolute2",), lambda: Twist2.Revolute(p))
    if S is None:
        return
    for site, fn in {"Twist2.exp(theta)": lambda: S.exp(th).A, "Twist2.exp(theta,deg)": lambda: S.exp(math.degrees(th), units="deg").A,
                     "(S*theta).exp()": lambda: (S * th).exp().A, "(theta*S).exp()": lambda: (th * S).exp().A}.items():
        cid = (site, feat)
        r = guard(j, site, feat, detail, cid, fn)
        if r is not None:
            d = float(np.max(np.abs(np.asarray(r, dtype=float) - H)))
            check(j, d <= TOL * sc, site, feat, "not-the-rotation-about-the-point", dict(detail, distance=d), cid)
    sweep = [th, -2.3, 2 * math.pi, 5.1, 0.0, 1e-9, -1e-6, 1e-4, -9e-3, 0.05, math.pi / 2, -math.pi]
    sweep += [rng.choice((-1, 1)) * 10 ** rng.uniform(-8, 0.79) for _ in range(2)]
    for t2 in sweep:
        T = guard(j, "Twist2.exp(theta)", feat, detail, ("point-fixed",), lambda: S.exp(t2).A)
        if T is not None:
            check(j, float(np.max(np.abs(T[:2, :2] @ p + T[:2, 2] - p))) <= FIX * sc, "Twist2.exp(theta)", feat, "centre-moved", dict(detail, theta2=t2), ("point-fixed",))
            for site, fn in (("base.trexp2(S,theta)", lambda: b.trexp2(S.S, t2)), ("base.trexp2(se2,theta)", lambda: b.trexp2(S.se2(), t2)),
                             ("base.trexp2(S,int(theta))", (lambda: b.trexp2(S.S, int(t2))) if float(t2).is_integer() else None)):
                if fn is None:
                    continue
                Tb = guard(j, site, feat, detail, (site,), fn)
                if Tb is not None:
                    check(j, float(np.max(np.abs(np.asarray(Tb, dtype=float) - T))) <= FIX * sc, site, feat, "differs-from-Twist2.exp",
                          dict(detail, theta2=t2), (site,))
            for site, fn in (("base.trexp2(-S,theta)", lambda: b.trexp2(S.inv().S, t2)), ("base.trexp2(-se2,theta)", lambda: b.trexp2(S.inv().se2(), t2))):
                Tb = guard(j, site, feat, detail, (site,), fn)
                if Tb is not None:
                    check(j, float(np.max(np.abs(np.asarray(Tb, dtype=float) @ T - np.eye(3)))) <= FIX * sc * 10, site, feat,
                          "not-the-inverse-motion", dict(detail, theta2=t2), (site,))
            ok = abs(T[0, 0] - math.cos(t2)) <= TOL and abs(T[1, 0] - math.sin(t2)) <= TOL
            check(j, ok, "Twist2.exp(theta)", feat, "wrong-rotation-angle", dict(detail, theta2=t2), ("rotation2",))
            if abs(t2) <= math.pi:
                Td = guard(j, "Twist2.exp(theta,deg)", feat, detail, ("deg=rad2",), lambda: S.exp(math.degrees(t2), units="deg").A)
                if Td is not None:
                    check(j, float(np.max(np.abs(Td - T))) <= FIX * sc, "Twist2.exp(theta,deg)", feat, "deg-differs-from-rad",
                          dict(detail, theta2=t2), ("deg=rad2",))
    dg = math.degrees(th)
    for site, fn in {"Twist2.exp(vector)": lambda: S.exp([0.0, th, -th]), "Twist2.exp(ndarray)": lambda: S.exp(np.array([0.0, th, -th])),
                     "Twist2.exp(vector,deg)": lambda: S.exp([0.0, dg, -dg], units="deg"),
                     "Twist2.exp(ndarray,deg)": lambda: S.exp(np.array([0.0, dg, -dg]), units="deg")}.items():
        rv = guard(j, site, feat, detail, (site,), fn)
        if rv is not None:
            ok = len(rv) == 3 and float(np.max(np.abs(rv[0].A - np.eye(3)))) <= TOL and float(np.max(np.abs(rv[1].A - H))) <= TOL * sc \
                and float(np.max(np.abs(rv[2].A @ H - np.eye(3)))) <= TOL * sc
            check(j, ok, site, feat, "wrong-sequence", detail, (site,))
    for d in ((1.0, 0.0), (3.0, -4.0)):
        u = np.array(d) / np.linalg.norm(d)
        P = guard(j, "Twist2.Prismatic", feat, detail, ("Prismatic2",), lambda: Twist2.Prismatic(np.array(d)))
        if P is not None:
            T = guard(j, "Twist2.exp(theta)", feat, detail, ("prismatic2-exp",), lambda: P.exp(1.3).A)
            if T is not None:
                E = np.eye(3)
                E[:2, 2] = 1.3 * u
                check(j, float(np.max(np.abs(T - E))) <= TOL, "Twist2.exp(theta)", feat, "not-a-translation-by-theta", detail, ("prismatic2-exp",))
            ok = guard(j, "Twist2.isprismatic", feat, detail, ("prismatic2-flag",), lambda: bool(P.isprismatic) is True and not bool(S.isprismatic))
            if ok is not None:
                check(j, ok, "Twist2.isprismatic", feat, "wrong-flag", detail, ("prismatic2-flag",))


def run(tier):
    j = Judge(PID)
    thorough = tier == "thorough"
    rng = random.Random(common.seed() + 18)
    r = run_tlc("MC_Screw", "Screw", timeout=600)
    n = 0
    seen = set()
    lens = [1e-3, 1.0, 1e3, 1e6, 1.000004, 0.999994, 1.0 + 3e-8]       # incl. lengths that are ALMOST one
    for e in r.json:
        c = e["c"]
        key = str(c)
        if key in seen:
            continue
        seen.add(key)
        if c["k"] == "screw3" and c["an"] == 0:
            n += 1
            if not thorough and n % 5 and not quarter(c["q"]):
                continue
            revolute_case(j, e, lens[n % len(lens)], rng, [1.0, 1e3, 1.0, 30.0, 1e3][n % 5] if thorough else [1.0, 1e3][(n // 5) % 2])
        elif c["k"] == "screw2":
            for sg in (1.0, 1e3):
                planar_case(j, e, rng, sg)
    multi_valued_lines(j)
    for d in [(1, 0, 0), (0, 0, 1), (1, 1, 0), (1, -2, 3), (-3, 0, 1)]:
        for al in lens:
            prismatic_case(j, d, al)
    if n < 1000:
        raise MachineryError("too few zero-pitch screws exported: %d" % n)
    j.sample({"case": next(e for e in r.json if e["c"]["k"] == "screw3" and e["c"]["an"] == 0 and e["c"]["p"] != [0, 0, 0])})
    cov = {"states": r.distinct, "transitions": r.generated, "traces_validated_against_impl": n, "checker_cmd": r.cmd,
           "lattice_exact": j.evaluations,
           "rule": "case = (method, axis-length tag, angle class); axes = vector parts of the integer quaternions of the "
                   "-2..2 box, points from a fixed integer set, theta = 2 atan2(|v|, s) and k pi/2, k in -4..4"}
    return {"judge": j, "coverage": cov, "level": "model_checking", "assumptions": [
        "exact matrices for theta = 2 atan2(|v|, s) and quarter-turn multiples; for other theta the axis-fixed, "
        "axis-invariant and trace conditions (which characterise the rotation about the axis) are checked"]}


def replay(rp):
    for c in rp["cases"][:6]:
        print(c)
    return 0
