"""Print the kill matrix of the seeded changes (markdown) from seeded/*/meta.json and result_quick.json."""
import glob
import json
import os

V = os.path.dirname(os.path.dirname(os.path.abspath(__file__)))

# seeded changes that the check of their own property missed when they were first run, and what was added
MISSED_FIRST = {
    "C10-extend-alias": "frame check on pooled argument / result objects in path replay",
    "C09-interp-shortest": "option variants in `Dispatch`",
    "C01-slerp-lerp": "`Ctor.VInterp` cases",
    "C02-trlog-pi-axis": "half-turn skips removed after `trlog` was repaired",
    "C04-trlog-pi-axis": "same",
    "C04-se2-se3-alias": "caught by C09 (per-value conversions added to `Dispatch`)",
    "C06-udq-mul-sign": "`PointAction.ComposeApply` call forms",
    "C06-r2q-ybranch": "matrix-built quaternions, y-dominant poses",
    "C15-tr2rpy-deg-singular": "`Api.UnitCfgs`",
    "C17-trlog-pi-view": "`Api.MatKinds`, special-valued receivers",
    "C17-getvector-nocopy-slerp": "option-variant entries",
    "C03-rodrigues-theta0": "`Screw.UnitExp3/2`, theorem `Subgroup`",
    "C05-rpy-multi-deg": "two-valued routes",
    "C12-exp-branch-s": "module `QuatExpLog`",
    "C13-unitvec-sq-thresh": "`LieTrace` norm / unitvec events at scales 1e-9..1e6",
    "C16-vex-sym-noavg": "`Api.SymMatApi x SymMatArgs`",
    "C16-det-cofactor": "same",
    "C18-twist2-exp-deg-vec": "vector theta in both units",
    "C18-trexp-small-series": "theta sweep to 1e-9, points to 1e3, fixed-point tolerance 1e-9",
    "C19-isparallel-cos": "`LineCases.CaseNear`, theorem `ThNear`",
    "C20-inertia-add-inplace": "one live inertia in several sums",
    "C01-angvec2r-near-unit-axis": "axis-length tags 1+4e-7, 1-7e-7, 1+3e-9 in `Ctor`",
    "C01-uq-nx4-frobenius": "multi-valued quaternion constructor forms",
    "C05-uq-angvec-neg-scalar": "double-cover routes `UnitQuaternion(-q)`",
    "C06-qvmul-null-fastpath": "`PointAction.TinyRot` (found the r2q defect, repaired)",
    "C06-se3-inv-multi-transpose": "`PointAction.ManyInvApply`",
    "C07-twist3-isvalid-slice": "defects on every off-diagonal entry",
    "C07-setitem-isinstance": "`Validity.MutateWithObject` (C10 caught it already)",
    "C12-udq-mul-negate-real": "`QuatTrace.udqmul` events",
    "C13-twist3-Ad-prismatic": "`Twist3.Ad` events on lattice motions",
    "C16-issymbol-first-only": "mode `mixed-number-first`",
    "C17-setitem-write-through": "module `Sharing`",
    "C17-removesmall-inplace": "element type `float-with-residue`, display dunders",
    "C18-pole-inplace-normalise": "exp after accessors on scaled twists",
    "C19-intersect-plane-inplace": "Plane object used for two intersections",
    "C20-cross-cache-stale": "one live velocity object across item assignment / pop / append",
    # round 5
    "C01-imul-inplace-int-dtype": "integer-typed members (constructors given Python ints) pooled; augmented forms x *= g, x /= g, x **= n in the expression programs",
    "C02-se2-inv-cache-stale": "`SeqMachine` observations `PeekInv / PeekProd / PeekDivL`; SeqMachine behaviours replayed in C02 too",
    "C03-log-multi-twist-positional": "`Screw.Multi3 / Multi2` (class-level forms on sequences) - found and repaired 5 defects",
    "C03-so3-exp-3x3-branch-order": "same (N = 3 rows with so3=False)",
    "C06-uq-mul-int-dtype": "element type int of the points in `PointAction.OneToMany`",
    "C07-uq-3x3-check-default": "pseudo-class `UnitQuaternion(R)` in `Validity` (items are matrices with SO3 kinds)",
    "C10-iter-shared-cursor": "`SMList.IterateNested / IterateZip`",
    "C11-uq-interp-shortest-needs-dest": "double-cover routes (negated quaternion operands)",
    "C12-dq-norm-drops-conj": "screw motions with non-zero pitch from `Screw` for the dual norm",
    "C12-uq-inner-abs-clip": "`inner` events on UnitQuaternion objects with negative products",
    "C13-adjoint-isclose-translation": "rotations of differential size (1e-9..1e-2) in the law instances",
    "C14-twist3-unit-isunit-fastpath": "twist scales 'Euclidean norm 1' and 'already unit' (`Normalise.tot2`)",
    "C15-so2-vector-unit-unvalidated": "sequence forms in `Api.UnitIn` (vector of angles, N x 3 triples, twist exp)",
    "C16-qpow-sym-negative": "`qpow(n)` for n in -3..3 in `Api.SymApi`",
    "C16-import-object-nocheck": "vector call forms of the SE3 constructor in `Api.SymApi`",
    "C17-spatialvector-copy-shares-list": "spatial-vector and Pluecker classes in the `Sharing` replay",
    "C17-repr-empty-printoptions-leak": "process-wide state (NumPy print options, error state) compared around every reflected call; empty receivers",
    "C18-unitvec-isclose-unit": "axis lengths 1.000004, 0.999994, 1 + 3e-8",
    "C19-contains-array-drops-tol": "`contains(x, tol=...)` with a data-scaled tolerance, single point and 3 x N array",
    "C19-eq-abs-dot": "`LineCases` kind 'reversed' (same points, opposite orientation)",
    "C20-cross-allclose-zero": "`crm_near` events: v x (K v + d) = K (v x d) judged by TLC",
    # round 6
    "C01-trnorm-no-final-normalise": "`Ctor.VNorm` (members spoiled by rounding / shear / scaling, then normalised, every entry point)",
    "C03-isunittwist2-signed": "reversed unit twists with negated angle in `Screw.UnitExp` replay",
    "C06-uq-inv-cache-stale": "multi-valued inverse evaluated again after the object was edited through its list interface",
    "C07-uq-nx4-frobenius-norm": "form 'array' (N x 4) for UnitQuaternion in `Validity`",
    "C07-isR-dtype-eps": "far arrays also in single precision; magnitude 3e-6",
    "C09-theta-unwrap-coupling": "per-value methods on objects holding SPREAD values (angles either side of pi, both quaternion signs)",
    "C11-trinterp2-result-dtype": "end poses stored with an integer dtype",
    "C12-udq-init-unit-real-only": "`QuatTrace.udq_dq_mul` (unit x general dual quaternion)",
    "C13-tr2jac-samebody-is-True": "truthy flag values (1, numpy bool, positional)",
    "C14-uq-unit-clone-pair": "`unit()` of a UnitQuaternion object holding a non-unit value",
    "C15-transl2-numpy-int-scalars": "`Api.ScalarTypes` (Python and NumPy scalar types of the separate-scalar forms)",
    "C16-simplify-lastrow-identity-SO": "`SO3.simplify`; simplify() judged as value-preserving",
    "C16-norm-powdenest-force": "symbolic vectors with one non-zero component",
    "C17-intersect-volume-sorts-bounds": "Plucker methods (contains, closest, intersect_plane, intersect_volume) in `Api.VecApi` - found the array_like defect of intersect_volume",
    "C18-line-first-direction": "line() of a Twist3 holding several unit twists (and twist exp / line / conversion judged per value in C09)",
    "C20-ctor-6x6-transposed": "`addn / subn / negn` events on objects holding N = 2, 3, 6, 7 values",
    # round 7
    "C01-r7-transforms2d-base-transforms2d-trexp2": "exponentials of the null element in every argument form (identity of the right size)",
    "C01-r7-smuserlist-smuserlist-arghandler-the": "object-valued constructor arguments: refused, or a valid member (shape checked by the validity residual)",
    "C03-r7-transforms2d-base-trexp2-spatialmath": "`Screw.UnitTrans` (prismatic unit twists, two-argument forms, Pythagorean directions)",
    "C03-r7-twist-twist3-exp-spatialmath-twist": "multi-valued twists whose first value is a pure translation",
    "C04-r7-quaternion-quaternion-log-inherited-b": "routes UnitQuaternion -> log -> SO3.Exp, also from the negated quaternion",
    "C04-r7-transforms3d-base-tr2eul-behind-so3": "angle-set bridges (eul / rpy of one representation fed to the constructor of another)",
    "C04-r7-twist-twist2-__mul__-twist2-se2": "routes Twist3 * SE3 and Twist2 * SE2 compared with the product of the exponentials",
    "C05-r7-quaternion-unitquaternion-angvec-the": "angle-parameterised constructors over angles beyond one turn",
    "C06-r7-dualquaternion-unitdualquaternion-se3": "route UnitDualQuaternion(SE3(T)).SE3() * p and (X * Y).SE3() * p",
    "C06-r7-quaternion-unitquaternion-r-branch-fo": "rotation-matrix stacks `.R` of multi-valued UnitQuaternion / SO3 / SE3 applied per value",
    "C07-r7-pose3d-se3-so3-r-check": "pseudo-class `SE3.SO3(R)` in `Validity` (kinds rotation-2x2 / rotation-4x4)",
    "C07-r7-transforms3d-base-isrot-spatialmath-b": "object-dtype variants of every item",
    "C08-r7-quaternion-unitquaternion-__mul__-in": "operand kinds `PtsMat / SelfMat` in `DispatchTable`",
    "C08-r7-super_pose-smpose-__truediv__-the-of": "never-None rule for cells the table leaves unspecified",
    "C11-r7-trinterp-se3-forces-shortest": "route agreement (same arc for the same setting of `shortest`), start poses turned by almost half a turn - found the slerp defect, repaired",
    "C13-r7-twist3-exp-theta-zero": "law exp(theta ad S) = Ad(S.exp(theta)) with theta in {0, 0.0, 1e-9, ...}",
    "C13-r7-unittwist2-norm-signed": "`LieTrace` events unittwist / unittwist_norm / unittwist2 / unittwist2_norm (operators `TwMag3 / TwMag2`)",
    "C14-r7-trnorm-keeps-bottom-row": "noise on the bottom row of nearly valid rigid-motion matrices (3D and 2D)",
    "C14-r7-uq-nx4-squared-norm": "multi-valued results read as stored (`.data`, `.A`), not through indexing",
    "C15-r7-se2-ctor-truthiness": "`Api.ScalarZeros` (which of the separate scalars are zero)",
    "C15-r7-slerp-ends-unvalidated": "entries `slerp(s=0)`, `slerp(s=1)` in `Api.VecApi`",
    "C16-r7-getunit-sym-list-deg": "`Api.SymOptions` (degrees, translation keyword) - found two defects, repaired",
    "C16-r7-trot-t-dtype": "same",
    "C17-r7-arghandler-adopts-list": "`Sharing.CtorExt / CtorA` (a caller-owned list of arrays, the array returned by `.A`)",
    "C17-r7-udq-se3-rebinds-real": "dual-quaternion receivers obtained in every documented way, snapshots attribute by attribute with classes",
    "C17-r7-uq-interp-inplace-negate": "every cell of the per-value method table (`Dispatch`, options included) replayed with operand snapshots",
    "C18-r7-rodrigues-theta-zero": "two-argument base forms `trexp(S, theta)`, `trexp(se3, theta)`, `trexp2(...)`, `trexp(w, theta)` over the sweep (0 as int and float)",
    "C18-r7-theta-prismatic-norm": "theta() of prismatic twists, their inverses and multiples",
    "C18-r7-twist-inv-reversed": "inverse of a Twist3 holding several unit twists, per value",
    "C19-r7-point-multi-unnormalised": "`point()` with a list / array of parameters",
    "C20-r7-add-len-6-vs-1": "lengths 6 and 7 in the typed sums",
    "C20-r7-trexp-theta-mod-2pi": "motions generated by twists of large magnitude (prismatic beyond 2 pi, screws wound more than one turn)",
    # round 8
    "C01-r8-pose3d-SE3": "closure on objects holding several values (inverse, products, quotients, powers: every value checked, bottom row included)",
    "C01-r8-quaternion-UnitQuaternion": "interpolation towards the other quaternion of the double cover (nearly opposite operands)",
    "C02-r8-transforms2d-trlog2": "the check crashed (result could not be read back): `check_value` made total; an exception escaping from a library call is now reported as a violation, not as a machinery failure",
    "C03-r8-vectors-unitvec_norm": "so(3) / so(2) forms (vector, scalar, skew matrix; base functions and SO3.Exp / SO2.Exp) over the magnitude sweep",
    "C04-r8-transforms3d-tr2rpy": "angle-set bridges on 40 random rotations (every branch of the extraction formulas)",
    "C04-r8-twist-Twist3": "`Twist3.Revolute(axis, point).exp(angle)` (0 included, both units) against the rotation about that axis",
    "C05-r8-transforms3d-tr2angvec": "axis-angle extraction from a pose matrix WITH a translation (identity rotation included)",
    "C06-r8-quaternion-UnitQuaternion": "route `UnitQuaternion(SO3 / SE3 object holding k values) * p`",
    "C07-r8-transforms3d-oa2r": "every value produced by the primitive constructors (`Ctor` cases, all entry points) is given to the predicate of its class",
    "C07-r8-quaternion-UnitQuaternion": "`Validity` kind 'wrong-shape' (members of another group, arrays of norm 1 of another shape) and predicate `UnitQuaternion.isvalid`",
    "C08-r8-DualQuaternion-DualQuaternion": "`Dispatch.Variants`: objects of a general class holding values of the special subclass (found the `UnitQuaternion / Quaternion` defect, repaired); `DualQuaternion * vector` decided as must-raise",
    "C10-r8-quaternion-UnitQuaternion": "value identities of UnitQuaternion alternate between the two quaternions of the double cover (neighbouring values in opposite hemispheres), compared with their sign",
    "C09-r8-twist-Twist3": "`Dispatch.ApplyExp` (twists x vector of angles under the binary length rule) - found the Twist2.exp defect, repaired",
    "C13-r8-vectors-angdiff": "`LieTrace` events angdiff1 / angdiff2 on multiples of a quarter turn up to +-20 turns (`QuarterWrap`)",
    "C16-r8-argcheck-getvector": "points with symbolic coordinates in every container form (list, tuple, object ndarray, column, 3 x N)",
    "C16-r8-super_pose-SMPose": "a pose combined with a symbolic scalar (* / + -, both orders)",
    "C17-r8-super_pose-SMPose": "class-level and module-level mutable data in the process-wide snapshot; keyword options must not stick (m(); m(option); m())",
    "C17-r8-smuserlist-SMUserList": "every instance attribute in the receiver snapshot (a hidden cursor written by a read)",
    "C18-r8-vectors-isunittwist2": "the inverse (negated) unit twist in the two-argument base forms",
    # round 9
    "C01-r9-transforms3d-ishom": "refused-or-valid: matrices with one or two spoiled bottom-row entries, sheared / scaled / reflected blocks, in every constructor form",
    "C01-r9-vectors-isunittwist": "refused-or-valid: the two-argument exponential with twists that are not unit twists",
    "C03-r9-transforms2d-trexp2": "two-argument forms with the reversed generator (-u, -1, skew(-1))",
    "C03-r9-twist-Twist2": "one twist exponentiated with a vector of magnitudes (Twist3 / Twist2, list and ndarray)",
    "C04-r9-DualQuaternion-DualQuaternion": "every representation moves a point the same way (unit dual quaternion, twist, unit quaternion)",
    "C05-r9-pose2d-SO2": "planar extraction (theta, xyt) on objects holding two values",
    "C07-r9-pose3d-SE3": "`Validity` container form 'stack' (N x r x c ndarray): refused, or members only - never None",
    "C09-r9-quaternion-UnitQuaternion": "singular configurations (pitch 90 deg, Euler middle angle 0) among the spread values",
    "C10-r9-smuserlist-SMUserList": "`SMList.WrongArgs` for extend: an EMPTY object of another class, a Python list with a foreign object after a good one",
    "C11-r9-quaternion-UnitQuaternion": "negative-sheet quaternions WITHOUT the shorter-arc option, class method and base function must take the same arc",
    "C12-r9-DualQuaternion-DualQuaternion": "`QuatTrace.udqconj` (conjugate of the unit dual quaternion of a rigid motion)",
    "C12-r9-quaternions-inner": "15 polynomial identities proved by executing the library code on SymPy symbols",
    "C13-r9-transforms3d-trlog": "laws log(exp d) = d and tr2delta ~ log to first order for |d| = 1e-9 .. 1e-2",
    "C13-r9-twist-Twist3": "adjoint homomorphism over composed twists (parallel, anti-parallel, coaxial axes, revolute with prismatic)",
    "C14-r9-vectors-unitvec": "container forms (list, tuple, row, column) of the vector normalisers",
    "C16-r9-symbolic-sin": "substitution points of many turns (1e5 rad)",
    "C17-r9-super_pose-SMPose": "`Sharing.SameValue` (simplify / norm / unit return a NEW object)",
    "C18-r9-twist-Twist3": "scalar multiples (int and float, both orders) of a Twist3 holding several unit twists",
    "C19-r9-geom3d-Plucker": "real-valued point pairs down to 1e-3 apart at coordinates up to 1e3",
    "C20-r9-spatialvector-SpatialInertia": "point-mass form `SpatialInertia(m, r)` (events judged by `ExactSpatial`)",
    # round 10
    "C01-r10-pose3d-SE3": "named object-taking constructors (`SE3.SO3`, `SE3.SO3(t=)`, `SE3.Rt`) in the object-constructor matrix",
    "C02-r10-transforms3d-trlog": "twists compared as motions against the MATRICES they were built from (`generates`, `product-motion`, `inverse-motion`); angle ladder 1e-5..1e-3",
    "C02-r10-twist-Twist2": "laws with one operand holding two values (1 x N, N x 1)",
    "C04-r10-transforms3d-angvec2r": "axis-length tags 1e-9 and 2e-7 in `Ctor` (`VLens`)",
    "C07-r10-transforms2d-isrot2": "`nonorth` realised as a shear that keeps unit-length columns and a positive determinant",
    "C07-r10-transformsNd-isskew": "algebra elements of magnitude 1e12 with an absolute mismatch (`notskew`, `isskew` arguments)",
    "C08-r10-super_pose-SMPose": "operand variant `same-object` (x op x) for every same-class cell of `Dispatch`",
    "C09-r10-quaternion-Quaternion": "caught by C14: multi-valued `Quaternion.unit()` with a unit first value",
    "C09-r10-super_pose-SMPose": "caught by C06 (row-vector point with a multi-valued pose)",
    "C11-r10-super_pose-SMPose": "routes with the end pose held as the second value of a two-valued object",
    "C12-r10-quaternion-Quaternion": "nearly-real ladder |v|/|s| = 1e-8..1e-2, both signs (found the `Quaternion.log` defect, repaired in 7a6dd86)",
    "C13-r10-transforms3d-tr2delta": "laws on ONE array kept by the caller and used again after `tr2delta`",
    "C13-r10-vectors-unittwist_norm": "translational twists with a rounding-noise rotational part",
    "C14-r10-quaternion-UnitQuaternion": "`UnitQuaternion(s, v)` form, scalar part exactly +-1",
    "C14-r10-quaternions-unit": "nearly unit quaternions on a ladder of norm drifts 1e-12..1e-2",
    "C15-r10-pose2d-SO2": "`Api.UnitOut` accessors on multi-valued objects",
    "C15-r10-transforms3d-troty": "`troty(t=)`, `trotz(t=)`, `SE3.Rx/Ry/Rz(t=)` entries in `Api`",
    "C18-r10-twist-Twist3": "revolute twist held after / before a prismatic one in a multi-valued `Twist3`",
    "C19-r10-geom3d-Plucker-2": "lines moved by motions with rotations of 1e-9..1e-3 rad (`small_motions`)",
    "C20-r10-spatialvector-SpatialInertia": "`inertia` events with mass and rotational inertia scaled by 1e-9, 1e-6, 1e6",
}


def main():
    print("| seeded change | files | needs to manifest | caught by (quick) | tests with the change | first run |")
    print("|---|---|---|---|---|---|")
    n = caught = 0
    for d in sorted(glob.glob(os.path.join(V, "seeded", "*", ""))):
        name = os.path.basename(d.rstrip("/"))
        meta = json.load(open(os.path.join(d, "meta.json")))
        try:
            res = json.load(open(os.path.join(d, "result_quick.json")))
        except OSError:
            res = {}
        files = ", ".join(os.path.basename(f) for f in meta.get("files_changed", []))
        needs = (meta.get("needs_to_manifest") or "").replace("\n", " ").replace("|", "/")
        if len(needs) > 150:
            needs = needs[:147] + "..."
        cb = ", ".join(res.get("caught_by", [])) or "—"
        tests = (res.get("tests") or "").split(" in ")[0]
        first = ("missed → " + MISSED_FIRST[name]) if name in MISSED_FIRST else "caught"
        print("| %s | %s | %s | %s | %s | %s |" % (name, files, needs, cb, tests, first))
        n += 1
        caught += bool(res.get("caught_by"))
    print()
    print("%d seeded changes, %d caught by at least one quick check." % (n, caught))


if __name__ == "__main__":
    main()
