"""Binding of Api.tla entries to the real callables (used by C15 and C17)."""
import math

import numpy as np

import common

common.use_repo()
import spatialmath.base as b  # noqa: E402
from spatialmath import (SO2, SE2, SO3, SE3, Quaternion, UnitQuaternion, Twist2, Twist3, Plucker,  # noqa: E402
                         SpatialVelocity, SpatialForce)

PATTERN = [[1, 2, 3, -1, 2, 1, 3, -2], [-2, 1, 2, 3, 1, -1, 2, 1]]


SMALL = {"v2q", "vvmul", "UnitQuaternion.Vec3"}      # vector parts of unit quaternions: |v| <= 1


def vec(k, n, et, name=None):
    """the k-th (0-based) vector argument with n elements of type et"""
    v = PATTERN[k % 2][:n]
    if et == "float-with-residue":
        # floats among which sit rounding residues (6.1e-17, -1.2e-16) such as sin(pi) leaves behind
        base_ = vec(k, n, "float", name)
        return [(6.123233995736766e-17 if i % 3 == 1 else -1.2246467991473532e-16 if i % 3 == 2 else x) for i, x in enumerate(base_)]
    if name in SMALL:
        return [(float(x) + 0.5) * 0.1 if et == "float" else 0 * int(x) for x in v]
    return [float(x) + 0.5 if et == "float" else int(x) for x in v]


def shape(v, form):
    if form == "list":
        return list(v)
    if form == "tuple":
        return tuple(v)
    a = np.array(v)
    if form == "array":
        return a
    if form == "row":
        return a.reshape(1, -1)
    if form == "column":
        return a.reshape(-1, 1)
    raise ValueError(form)


VEC = {
    "getvector": lambda v: b.getvector(v), "getvector(dim=3)": lambda v: b.getvector(v, 3),
    "isvector(dim=3)": lambda v: (b.getvector(v, 3) is not None),
    "unitvec": lambda v: b.unitvec(v), "norm": lambda v: b.norm(v), "normsq": lambda v: b.normsq(v),
    "isunitvec": lambda v: b.isunitvec(v), "iszerovec": lambda v: b.iszerovec(v),
    "colvec": lambda v: b.colvec(v), "cross": lambda u, v: b.cross(u, v),
    "unittwist": lambda v: b.unittwist(v), "unittwist_norm": lambda v: b.unittwist_norm(v),
    "unittwist2": lambda v: b.unittwist2(v), "isunittwist": lambda v: b.isunittwist(v),
    "isunittwist2": lambda v: b.isunittwist2(v), "removesmall": lambda v: b.removesmall(v),
    "transl": lambda v: b.transl(v), "transl2": lambda v: b.transl2(v), "xyt2tr": lambda v: b.xyt2tr(v),
    "rpy2r": lambda v: b.rpy2r(v), "rpy2tr": lambda v: b.rpy2tr(v), "eul2r": lambda v: b.eul2r(v),
    "eul2tr": lambda v: b.eul2tr(v), "angvec2r": lambda v: b.angvec2r(0.3, v),
    "angvec2tr": lambda v: b.angvec2tr(0.3, v), "oa2r": lambda o, a: b.oa2r(o, a),
    "oa2tr": lambda o, a: b.oa2tr(o, a), "trexp": lambda v: b.trexp(v), "trexp2": lambda v: b.trexp2(v),
    "skew": lambda v: b.skew(v), "skewa": lambda v: b.skewa(v), "delta2tr": lambda v: b.delta2tr(v),
    "trotx(t=)": lambda v: b.trotx(0.3, t=v), "trot2(t=)": lambda v: b.trot2(0.3, t=v),
    "troty(t=)": lambda v: b.troty(0.3, t=v), "trotz(t=)": lambda v: b.trotz(0.3, t=v),
    "SE3.Rx(t=)": lambda v: SE3.Rx(0.3, t=v), "SE3.Ry(t=)": lambda v: SE3.Ry(0.3, t=v), "SE3.Rz(t=)": lambda v: SE3.Rz(0.3, t=v),
    "rodrigues": lambda v: b.rodrigues(v), "rt2tr(t)": lambda v: b.rt2tr(b.rotx(0.3), v),
    "pure": lambda v: b.pure(v), "qnorm": lambda v: b.qnorm(v), "unit": lambda v: b.unit(v),
    "isunit": lambda v: b.isunit(v), "conj": lambda v: b.conj(v), "qqmul": lambda p, q: b.qqmul(p, q),
    "inner": lambda p, q: b.inner(p, q), "qvmul": lambda q, v: b.qvmul(q, v),
    "vvmul": lambda p, q: b.vvmul(p, q), "qpow": lambda q: b.qpow(q, 2), "q2r": lambda q: b.q2r(q),
    "slerp": lambda p, q: b.slerp(p, q, 0.3), "slerp(s=0)": lambda p, q: b.slerp(p, q, 0), "slerp(s=1)": lambda p, q: b.slerp(p, q, 1), "matrix": lambda q: b.matrix(q),
    # second end point in the opposite hemisphere, shorter arc requested
    "slerp(shortest)": lambda p, q: b.slerp(p, -np.asarray(q, dtype=float).ravel(), 0.3, shortest=True),
    "qpow(-3)": lambda q: b.qpow(q, -3),
    "trexp(theta=)": lambda v: b.trexp(b.unittwist(np.asarray(v, dtype=float).ravel()), 0.7) if np.size(v) == 6 else b.trexp(v, 0.7),
    "trexp2(theta=)": lambda v: b.trexp2(b.unittwist2(np.asarray(v, dtype=float).ravel()), 0.7) if np.size(v) == 3 else b.trexp2(np.sign(np.asarray(v, dtype=float).ravel()) if np.size(v) == 1 else v, 0.7),
    "dot": lambda q, w: b.dot(q, w), "dotb": lambda q, w: b.dotb(q, w), "angle": lambda p, q: b.angle(p, q),
    "isequal": lambda p, q: b.isequal(p, q), "q2v": lambda q: b.q2v(q), "v2q": lambda v: b.v2q(v),
    "SO3.RPY": lambda v: SO3.RPY(v), "SO3.Eul": lambda v: SO3.Eul(v), "SO3.AngVec": lambda v: SO3.AngVec(0.3, v),
    "SO3.OA": lambda o, a: SO3.OA(o, a), "SO3.EulerVec": lambda v: SO3.EulerVec(v), "SO3.Exp": lambda v: SO3.Exp(v),
    "SE3": lambda v: SE3(v), "SE3.RPY": lambda v: SE3.RPY(v), "SE3.Eul": lambda v: SE3.Eul(v),
    "SE3.AngVec": lambda v: SE3.AngVec(0.3, v), "SE3.OA": lambda o, a: SE3.OA(o, a), "SE3.Exp": lambda v: SE3.Exp(v),
    "SE3.Delta": lambda v: SE3.Delta(v), "SE2": lambda v: SE2(v), "SE2.Exp": lambda v: SE2.Exp(v),
    "UnitQuaternion": lambda v: UnitQuaternion(v), "UnitQuaternion.RPY": lambda v: UnitQuaternion.RPY(v),
    "UnitQuaternion.Eul": lambda v: UnitQuaternion.Eul(v), "UnitQuaternion.AngVec": lambda v: UnitQuaternion.AngVec(0.3, v),
    "UnitQuaternion.OA": lambda o, a: UnitQuaternion.OA(o, a), "UnitQuaternion.EulerVec": lambda v: UnitQuaternion.EulerVec(v),
    "UnitQuaternion.Vec3": lambda v: UnitQuaternion.Vec3([0.1 * x for x in np.ravel(v)] if not isinstance(v, np.ndarray) else v * 0.1)
    if False else UnitQuaternion.Vec3(v),
    "Quaternion": lambda v: Quaternion(v), "Quaternion.Pure": lambda v: Quaternion.Pure(v),
    "Quaternion(s,v)": lambda v: Quaternion(2.0, v),
    "Twist3": lambda v: Twist3(v), "Twist3(v,w)": lambda v, w: Twist3(v, w),
    "Twist3.Revolute": lambda a, q: Twist3.Revolute(a, q), "Twist3.Prismatic": lambda a: Twist3.Prismatic(a),
    "Twist2": lambda v: Twist2(v), "Twist2.Revolute": lambda q: Twist2.Revolute(q),
    "Twist2.Prismatic": lambda a: Twist2.Prismatic(a),
    "Plucker": lambda v: Plucker(v), "Plucker.PQ": lambda p, q: Plucker.PQ(p, q),
    "Plucker.PointDir": lambda p, d: Plucker.PointDir(p, d),
    "Plucker.contains": lambda x: Plucker.PQ([1, 2, 3], [4, -1, 2]).contains(x),
    "Plucker.closest": lambda x: tuple(Plucker.PQ([1, 2, 3], [4, -1, 2]).closest(x)),
    "Plucker.intersect_plane": lambda pl: tuple(Plucker.PQ([1, 2, 3], [4, -1, 2]).intersect_plane(pl)),
    "Plucker.intersect_volume": lambda bd: tuple(Plucker.PQ([0.5, 0.2, 0.1], [2.0, 1.0, 1.5]).intersect_volume(bd)),
    "SpatialVelocity": lambda v: SpatialVelocity(v), "SpatialForce": lambda v: SpatialForce(v),
    "SE3*": lambda v: SE3(1, 2, 3) * SE3.Rx(0.3) * v, "SO3*": lambda v: SO3.Rx(0.3) * v,
    "SE2*": lambda v: SE2(1, 2, 0.3) * v, "SO2*": lambda v: SO2(0.3) * v,
    "UnitQuaternion*": lambda v: UnitQuaternion.Rx(0.3) * v,
}
VEC["UnitQuaternion.Vec3"] = lambda v: UnitQuaternion.Vec3(v)

A = 30.0            # an angle in degrees
AR = math.radians(A)
T3 = b.trotx(0.3) @ b.troty(-0.5) @ b.trotz(1.1)
R3 = T3[:3, :3]
T2 = b.trot2(0.4, t=[1, 2])


def U(unit):
    """angle argument: A degrees expressed in `unit`"""
    return A if unit == "deg" else AR


# name -> f(unit) ; input-angle entries: the angle A (deg) is passed in `unit`, result must not depend on it
UNIT_IN = {
    "rotx": lambda u: b.rotx(U(u), unit=u), "roty": lambda u: b.roty(U(u), unit=u), "rotz": lambda u: b.rotz(U(u), unit=u),
    "trotx": lambda u: b.trotx(U(u), unit=u), "troty": lambda u: b.troty(U(u), unit=u),
    "trotz": lambda u: b.trotz(U(u), unit=u), "rot2": lambda u: b.rot2(U(u), unit=u),
    "trot2": lambda u: b.trot2(U(u), unit=u), "xyt2tr": lambda u: b.xyt2tr([1, 2, U(u)], unit=u),
    "rpy2r": lambda u: b.rpy2r([U(u), -U(u) / 2, U(u) * 2], unit=u),
    "rpy2tr": lambda u: b.rpy2tr([U(u), -U(u) / 2, U(u) * 2], unit=u),
    "eul2r": lambda u: b.eul2r([U(u), -U(u) / 2, U(u) * 2], unit=u),
    "eul2tr": lambda u: b.eul2tr([U(u), -U(u) / 2, U(u) * 2], unit=u),
    "angvec2r": lambda u: b.angvec2r(U(u), [1, 2, 3], unit=u), "angvec2tr": lambda u: b.angvec2tr(U(u), [1, 2, 3], unit=u),
    "SO2": lambda u: SO2(U(u), unit=u), "SE2": lambda u: SE2(1, 2, U(u), unit=u),
    "SO3.Rx": lambda u: SO3.Rx(U(u), unit=u), "SO3.Ry": lambda u: SO3.Ry(U(u), unit=u), "SO3.Rz": lambda u: SO3.Rz(U(u), unit=u),
    "SO3.RPY": lambda u: SO3.RPY([U(u), -U(u) / 2, U(u) * 2], unit=u), "SO3.Eul": lambda u: SO3.Eul([U(u), -U(u) / 2, U(u) * 2], unit=u),
    "SO3.AngVec": lambda u: SO3.AngVec(U(u), [1, 2, 3], unit=u),
    "SE3.Rx": lambda u: SE3.Rx(U(u), unit=u), "SE3.Ry": lambda u: SE3.Ry(U(u), unit=u), "SE3.Rz": lambda u: SE3.Rz(U(u), unit=u),
    "SE3.RPY": lambda u: SE3.RPY([U(u), -U(u) / 2, U(u) * 2], unit=u), "SE3.Eul": lambda u: SE3.Eul([U(u), -U(u) / 2, U(u) * 2], unit=u),
    "SE3.AngVec": lambda u: SE3.AngVec(U(u), [1, 2, 3], unit=u),
    "UnitQuaternion.Rx": lambda u: UnitQuaternion.Rx(U(u), unit=u), "UnitQuaternion.Ry": lambda u: UnitQuaternion.Ry(U(u), unit=u),
    "UnitQuaternion.Rz": lambda u: UnitQuaternion.Rz(U(u), unit=u),
    "UnitQuaternion.RPY": lambda u: UnitQuaternion.RPY([U(u), -U(u) / 2, U(u) * 2], unit=u),
    "UnitQuaternion.Eul": lambda u: UnitQuaternion.Eul([U(u), -U(u) / 2, U(u) * 2], unit=u),
    "UnitQuaternion.AngVec": lambda u: UnitQuaternion.AngVec(U(u), [1, 2, 3], unit=u),
    "Twist3.Rx": lambda u: Twist3.Rx(U(u), unit=u), "Twist3.Ry": lambda u: Twist3.Ry(U(u), unit=u),
    "Twist3.Rz": lambda u: Twist3.Rz(U(u), unit=u), "getunit": lambda u: b.getunit(U(u), u),
    # sequence forms: a vector of angles / an N x 3 array of angle triples
    "SO2(vector)": lambda u: SO2([U(u), -U(u) / 2], unit=u),
    "SO3.Rx(vector)": lambda u: SO3.Rx([U(u), -U(u) / 2], unit=u), "SO3.Ry(vector)": lambda u: SO3.Ry([U(u), -U(u) / 2], unit=u),
    "SO3.Rz(vector)": lambda u: SO3.Rz(np.array([U(u), -U(u) / 2]), unit=u),
    "SE3.Rx(vector)": lambda u: SE3.Rx([U(u), -U(u) / 2], unit=u), "SE3.Ry(vector)": lambda u: SE3.Ry(np.array([U(u), -U(u) / 2]), unit=u),
    "SE3.Rz(vector)": lambda u: SE3.Rz([U(u), -U(u) / 2], unit=u),
    "UnitQuaternion.Rx(vector)": lambda u: UnitQuaternion.Rx([U(u), -U(u) / 2], unit=u),
    "Twist3.Rx(vector)": lambda u: Twist3.Rx([U(u), -U(u) / 2], unit=u),
    "SO3.RPY(Nx3)": lambda u: SO3.RPY(np.array([[U(u), -U(u) / 2, U(u) * 2], [U(u) / 3, U(u), -U(u)]]), unit=u),
    "SE3.RPY(Nx3)": lambda u: SE3.RPY(np.array([[U(u), -U(u) / 2, U(u) * 2], [U(u) / 3, U(u), -U(u)]]), unit=u),
    "SO3.Eul(Nx3)": lambda u: SO3.Eul(np.array([[U(u), -U(u) / 2, U(u) * 2], [U(u) / 3, U(u), -U(u)]]), unit=u),
    "SE3.Eul(Nx3)": lambda u: SE3.Eul(np.array([[U(u), -U(u) / 2, U(u) * 2], [U(u) / 3, U(u), -U(u)]]), unit=u),
    "Twist3.exp(theta)": lambda u: Twist3.Rx(1.0).exp(U(u), units=u), "Twist3.exp(vector)": lambda u: Twist3.Rx(1.0).exp([U(u), -U(u) / 2], units=u),
    "Twist2.exp(theta)": lambda u: Twist2([1, 2, 1.0]).exp(U(u), units=u),
    "Twist2.exp(vector)": lambda u: Twist2([1, 2, 1.0]).exp([U(u), -U(u) / 2], units=u),
}

# output-angle entries: f(unit, R, T, H, order) returns angles in `unit`; deg must be rad * 180/pi
def _cfg(cfg, order):
    """rotation in the requested configuration of the RPY order / Euler / axis-angle extraction"""
    import gamma
    hp = math.pi / 2
    if cfg == "generic":
        R = R3
    elif cfg in ("singular+", "singular-"):
        sgn = 1.0 if cfg == "singular+" else -1.0
        R = b.rpy2r(0.3, sgn * hp, -0.4, order=order)       # pitch = +-90 degrees in this order
    elif cfg == "zero":
        R = np.eye(3)
    else:
        R = gamma.rotz(0.5) @ gamma.rotx(math.pi) @ gamma.rotz(-0.5)
    th = {"generic": 0.4, "singular+": hp, "singular-": -hp, "zero": 0.0, "half-turn": math.pi}[cfg]
    return R, b.rt2tr(R, [1.0, 2.0, 3.0]), b.trot2(th, t=[1, 2])


def _ok(order, name):
    return {"order": order} if name in ("tr2rpy", "SO3.rpy", "SE3.rpy", "UnitQuaternion.rpy") else {}


UNIT_OUT = {
    "tr2rpy": lambda u, R, T, H, o: b.tr2rpy(T, unit=u, order=o), "tr2eul": lambda u, R, T, H, o: b.tr2eul(T, unit=u),
    "tr2angvec": lambda u, R, T, H, o: b.tr2angvec(T, unit=u)[0], "tr2xyt": lambda u, R, T, H, o: b.tr2xyt(H, unit=u)[2],
    "SO3.rpy": lambda u, R, T, H, o: SO3(R).rpy(unit=u, order=o), "SO3.eul": lambda u, R, T, H, o: SO3(R).eul(unit=u),
    "SO3.angvec": lambda u, R, T, H, o: SO3(R).angvec(unit=u)[0], "SE3.rpy": lambda u, R, T, H, o: SE3(T).rpy(unit=u, order=o),
    "SE3.eul": lambda u, R, T, H, o: SE3(T).eul(unit=u), "SE3.angvec": lambda u, R, T, H, o: SE3(T).angvec(unit=u)[0],
    "SO2.theta": lambda u, R, T, H, o: SO2(H[:2, :2]).theta(unit=u), "SE2.theta": lambda u, R, T, H, o: SE2(H).theta(unit=u),
    "SO2.theta(multi)": lambda u, R, T, H, o: np.asarray(SO2([SO2(H[:2, :2]), SO2(H[:2, :2]).inv(), SO2(0.25)]).theta(unit=u), dtype=float),
    "SE2.theta(multi)": lambda u, R, T, H, o: np.asarray(SE2([SE2(H), SE2(H).inv()]).theta(unit=u), dtype=float),
    "SO3.rpy(multi)": lambda u, R, T, H, o: np.asarray(SO3([SO3(R), SO3(R).inv()]).rpy(unit=u, order=o), dtype=float),
    "SO3.eul(multi)": lambda u, R, T, H, o: np.asarray(SO3([SO3(R), SO3(R).inv()]).eul(unit=u), dtype=float),
    "SE3.rpy(multi)": lambda u, R, T, H, o: np.asarray(SE3([SE3(T), SE3(T).inv()]).rpy(unit=u, order=o), dtype=float),
    "SE3.eul(multi)": lambda u, R, T, H, o: np.asarray(SE3([SE3(T), SE3(T).inv()]).eul(unit=u), dtype=float),
    "SE2.xyt": lambda u, R, T, H, o: SE2(H).xyt(unit=u)[2] if _has_unit(SE2.xyt) else None,
    "UnitQuaternion.rpy": lambda u, R, T, H, o: UnitQuaternion(SO3(R)).rpy(unit=u, order=o),
    "UnitQuaternion.eul": lambda u, R, T, H, o: UnitQuaternion(SO3(R)).eul(unit=u),
    "UnitQuaternion.angvec": lambda u, R, T, H, o: UnitQuaternion(SO3(R)).angvec(unit=u)[0],
}


def _has_unit(f):
    import inspect
    try:
        return "unit" in inspect.signature(f).parameters
    except (TypeError, ValueError):
        return False


ORDER = {
    "rpy2r": lambda o: b.rpy2r([0.1, 0.2, 0.3], order=o), "rpy2tr": lambda o: b.rpy2tr([0.1, 0.2, 0.3], order=o),
    "tr2rpy": lambda o: b.tr2rpy(T3, order=o), "SO3.RPY": lambda o: SO3.RPY([0.1, 0.2, 0.3], order=o),
    "SE3.RPY": lambda o: SE3.RPY([0.1, 0.2, 0.3], order=o), "UnitQuaternion.RPY": lambda o: UnitQuaternion.RPY([0.1, 0.2, 0.3], order=o),
    "SO3.rpy": lambda o: SO3(R3).rpy(order=o), "SE3.rpy": lambda o: SE3(T3).rpy(order=o),
    "UnitQuaternion.rpy": lambda o: UnitQuaternion(SO3(R3)).rpy(order=o),
}

SCALARS = {"transl", "transl2", "rpy2r", "rpy2tr", "eul2r", "eul2tr", "SE2", "SE2(x,y)", "SE3"}


def _st(st):
    """converter for the separate scalars of type st; integer types use whole numbers"""
    conv = {"float": float, "int": int, "numpy.float64": np.float64, "numpy.int64": np.int64, "numpy.float32": np.float32,
            "numpy.int32": np.int32}[st]
    return conv, ("int" in st)


def scalars(name, st, zeros="none"):
    """(separate-scalar call, packed call) for entry `name` with scalars of type st; zeros: which of them are zero"""
    conv, whole = _st(st)
    vals = [2, -3, 1] if whole else [1.5, -2.0, 0.25]
    for k in {"none": (), "second": (1,), "second-third": (1, 2), "first": (0,), "third": (2,), "all": (0, 1, 2)}[zeros]:
        vals[k] = 0
    x, y, z = [conv(v) for v in vals]
    pk = [float(v) if not whole else int(v) for v in vals]
    if st == "numpy.float32":
        pk = [float(np.float32(v)) for v in vals]
    table = {
        "transl": (lambda: b.transl(x, y, z), lambda: b.transl(pk)),
        "transl2": (lambda: b.transl2(x, y), lambda: b.transl2(pk[:2])),
        "rpy2r": (lambda: b.rpy2r(x, y, z), lambda: b.rpy2r(pk)),
        "rpy2tr": (lambda: b.rpy2tr(x, y, z), lambda: b.rpy2tr(pk)),
        "eul2r": (lambda: b.eul2r(x, y, z), lambda: b.eul2r(pk)),
        "eul2tr": (lambda: b.eul2tr(x, y, z), lambda: b.eul2tr(pk)),
        "SE2": (lambda: SE2(x, y, z), lambda: SE2(pk)),
        "SE2(x,y)": (lambda: SE2(x, y), lambda: SE2(pk[:2])),
        "SE3": (lambda: SE3(x, y, z), lambda: SE3(pk)),
    }
    return table[name]




def _mats(kind="generic"):
    import gamma
    t = [1.0, -2.0, 0.5]
    if kind == "generic":
        R, P = b.rotx(0.3) @ b.roty(-0.5) @ b.rotz(1.1), b.rot2(0.4)
    elif kind == "identity":
        R, P, t = np.eye(3), np.eye(2), [0.0, 0.0, 0.0]
    elif kind == "translation":
        R, P = np.eye(3), np.eye(2)
    elif kind == "quarter-turn":
        R, P = gamma.roty(math.pi / 2), gamma.rotz(math.pi / 2)[:2, :2]
    elif kind == "half-turn":
        R, P = gamma.rotx(math.pi), gamma.rotz(math.pi)[:2, :2]
    elif kind == "half-turn-diag":
        u = np.array([0.6, 0.0, 0.8])
        R, P = 2 * np.outer(u, u) - np.eye(3), gamma.rotz(-math.pi)[:2, :2]
    elif kind == "tiny-angle":
        R, P = gamma.rotz(1e-10) @ gamma.rotx(-2e-10), gamma.rotz(1e-10)[:2, :2]
    else:
        raise ValueError(kind)
    T = b.rt2tr(R, t)
    R1 = b.rotx(-0.2) @ b.rotz(0.7)
    T1 = b.rt2tr(R1, [0.5, 0.25, -1.0])
    H = b.rt2tr(P, t[:2])
    return dict(R=R, T=T, R1=R1, T1=T1, P=P, H=H, pts3=np.array([[1., 2, 3, 4], [0, 1, 0, -1], [2, 2, 2, 2]]),
                pts2=np.array([[1., 2, 3], [0, 1, -1]]), so3=b.skew([0.1, 0.2, 0.3]),
                se3=b.skewa([1, 2, 3, 0.1, 0.2, 0.3]), se2=b.skewa([1, 2, 0.3]), t=np.array([1.0, 2.0, 3.0]))


# name -> f(m) where m is the dict of fresh matrices above; returns (result, list of arguments passed)
MAT = {
    "t2r": lambda m: (b.t2r(m["T"]), [m["T"]]), "r2t": lambda m: (b.r2t(m["R"]), [m["R"]]),
    "tr2rt": lambda m: (b.tr2rt(m["T"]), [m["T"]]), "rt2tr": lambda m: (b.rt2tr(m["R"], m["t"]), [m["R"], m["t"]]),
    "trinv": lambda m: (b.trinv(m["T"]), [m["T"]]), "trinv2": lambda m: (b.trinv2(m["H"]), [m["H"]]),
    "trlog(R)": lambda m: (b.trlog(m["R"]), [m["R"]]), "trlog(T)": lambda m: (b.trlog(m["T"], twist=True), [m["T"]]),
    "trlog2(R)": lambda m: (b.trlog2(m["P"]), [m["P"]]), "trlog2(T)": lambda m: (b.trlog2(m["H"]), [m["H"]]),
    "trexp(so3)": lambda m: (b.trexp(m["so3"]), [m["so3"]]), "trexp(se3)": lambda m: (b.trexp(m["se3"]), [m["se3"]]),
    "trexp2(se2)": lambda m: (b.trexp2(m["se2"]), [m["se2"]]),
    "trnorm(R)": lambda m: (b.trnorm(m["R"]), [m["R"]]), "trnorm(T)": lambda m: (b.trnorm(m["T"]), [m["T"]]),
    "trnorm2": lambda m: (b.trnorm2(m["H"]), [m["H"]]),
    "tr2rpy": lambda m: (b.tr2rpy(m["T"]), [m["T"]]), "tr2eul": lambda m: (b.tr2eul(m["R"]), [m["R"]]),
    "tr2angvec": lambda m: (b.tr2angvec(m["T"]), [m["T"]]), "tr2xyt": lambda m: (b.tr2xyt(m["H"]), [m["H"]]),
    "tr2delta(T)": lambda m: (b.tr2delta(m["T"]), [m["T"]]),
    "tr2delta(T0,T1)": lambda m: (b.tr2delta(m["T"], m["T1"]), [m["T"], m["T1"]]),
    "tr2jac": lambda m: (b.tr2jac(m["T"]), [m["T"]]),
    "trinterp": lambda m: (b.trinterp(m["T"], m["T1"], 0.3), [m["T"], m["T1"]]),
    "trinterp2": lambda m: (b.trinterp2(None, m["H"], 0.3), [m["H"]]),
    "vex": lambda m: (b.vex(m["so3"]), [m["so3"]]), "vexa": lambda m: (b.vexa(m["se3"]), [m["se3"]]),
    "h2e": lambda m: (b.h2e(np.vstack([m["pts3"], np.ones(4)])), []), "e2h": lambda m: (b.e2h(m["pts3"]), [m["pts3"]]),
    "homtrans": lambda m: (b.homtrans(m["T"], m["pts3"]), [m["T"], m["pts3"]]),
    "isR": lambda m: (b.isR(m["R"]), [m["R"]]), "isrot": lambda m: (b.isrot(m["R"], check=True), [m["R"]]),
    "ishom": lambda m: (b.ishom(m["T"], check=True), [m["T"]]), "isrot2": lambda m: (b.isrot2(m["P"], check=True), [m["P"]]),
    "ishom2": lambda m: (b.ishom2(m["H"], check=True), [m["H"]]), "isskew": lambda m: (b.isskew(m["so3"]), [m["so3"]]),
    "isskewa": lambda m: (b.isskewa(m["se3"]), [m["se3"]]), "iseye": lambda m: (b.iseye(m["R"]), [m["R"]]),
    "r2q": lambda m: (b.r2q(m["R"]), [m["R"]]), "transl(T)": lambda m: (b.transl(m["T"]), [m["T"]]),
    "transl2(T)": lambda m: (b.transl2(m["H"]), [m["H"]]), "Ab2M": lambda m: (b.Ab2M(m["R"], m["t"]), [m["R"], m["t"]]),
    "adjoint": lambda m: (__import__("spatialmath.base.transformsNd", fromlist=["x"]).adjoint(m["T"])
                          if hasattr(__import__("spatialmath.base.transformsNd", fromlist=["x"]), "adjoint") else None, [m["T"]]),
    "det": lambda m: (np.linalg.det(m["R"]), [m["R"]]),
    "trprint": lambda m: (b.trprint(m["T"], file=None), [m["T"]]), "trprint2": lambda m: (b.trprint2(m["H"], file=None), [m["H"]]),
    "SO3(R)": lambda m: (SO3(m["R"]), [m["R"]]), "SE3(T)": lambda m: (SE3(m["T"]), [m["T"]]),
    "SO2(R)": lambda m: (SO2(m["P"]), [m["P"]]), "SE2(T)": lambda m: (SE2(m["H"]), [m["H"]]),
    "UnitQuaternion(R)": lambda m: (UnitQuaternion(m["R"]), [m["R"]]),
    "Twist3(se3)": lambda m: (Twist3(m["se3"]), [m["se3"]]), "Twist2(se2)": lambda m: (Twist2(m["se2"]), [m["se2"]]),
    "SE3([T,T])": lambda m: ((lambda lst: (SE3(lst), lst))([m["T"], m["T1"]])),
    "SO3([R,R])": lambda m: ((lambda lst: (SO3(lst), lst))([m["R"], m["R1"]])),
    "SE3*points": lambda m: (SE3(m["T"]) * m["pts3"], [m["pts3"]]), "SO3*points": lambda m: (SO3(m["R"]) * m["pts3"], [m["pts3"]]),
    "SE2*points": lambda m: (SE2(m["H"]) * m["pts2"], [m["pts2"]]),
    "UnitQuaternion*points": lambda m: (UnitQuaternion(m["R"]) * m["pts3"], [m["pts3"]]),
}


def flat(r):
    """a comparable array view of any result (objects -> their stored arrays)"""
    if r is None:
        return None
    if hasattr(r, "data") and isinstance(r.data, list):
        return [np.asarray(a) for a in r.data]
    def arr(x):
        try:
            return np.asarray(x)
        except Exception:  # noqa: BLE001
            try:
                return np.asarray(repr(x))
            except Exception:  # noqa: BLE001  (a __repr__ of the library may itself fail: not this check's subject)
                return np.asarray(type(x).__name__)
    if isinstance(r, (tuple, list)) and not all(np.isscalar(x) for x in r):
        out = []
        for x in r:
            out += flat(x) or [np.asarray("None")]
        return out
    return [arr(r)]


def identical(r1, r2):
    a, c = flat(r1), flat(r2)
    if a is None or c is None or len(a) != len(c):
        return False
    for x, y in zip(a, c):
        if x.shape != y.shape:
            # (N,) vs (N,1)/(1,N) of the same values is not "identical"
            return False
        if not np.array_equal(x, y):
            return False
    return True


def close(r1, r2, tol=1e-12):
    a, c = flat(r1), flat(r2)
    if a is None or c is None or len(a) != len(c):
        return False
    for x, y in zip(a, c):
        if x.shape != y.shape or not np.allclose(x.astype(float), y.astype(float), rtol=0, atol=tol):
            return False
    return True
