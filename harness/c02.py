"""C02 - group laws: associativity, identity, inverse, division, integer powers.

Specification: ExactRigid.tla (laws as TLC-checked invariants of the exact model) driven by
GroupMachine.tla.  Regime L: every transition of the lattice machines (cube group x {-1,0,1}^3,
planar C4 x {-1,0,1}^2), all ordered pairs of cube motions, rational pairs and depth-5 expression
trees are replayed in SO2 SE2 SO3 SE3 UnitQuaternion Twist2 Twist3 and compared with the exact
value at translation scales 1e-6 .. 1e6.  Regime V: the same laws evaluated on both sides by the
implementation at real-valued elements (angles in [0, pi] incl. the ends).
"""
import math
import random

import numpy as np

import common
from common import Judge, MachineryError, run_tlc
import gamma
import grouplib as gl

PID = "C02"
SIGMAS = [1e-6, 1e-3, 1.0, 1e3, 1e6]


def replay_edge(j, e, sigma, classes=None):
    pre, call, post = e["pre"], e["call"], e["post"]
    g = call.get("g")
    for cname in (classes or gl.classes_for(pre)):
        if not gl.usable(cname, pre, g, post):
            continue
        if cname in ("SO3", "SO2", "UnitQuaternion") and sigma != 1.0:
            continue                                    # no translation to scale
        if cname in gl.NO_POW and call["op"] == "pow":
            continue
        cid = (cname, call["op"], gl.angle_band(pre), gl.angle_band(post),
               gl.angle_band(g) if g else "-", sigma)
        scale = gamma.tscale(pre, g, post, sigma=sigma) if cname not in ("SO3", "SO2", "UnitQuaternion") else 0.0
        site = "%s.%s" % (cname, call["op"])
        feat = "angle(%s,%s)->%s;sigma=%g" % (gl.angle_band(pre), gl.angle_band(g) if g else "-",
                                             gl.angle_band(post), sigma)
        detail = {"kind": "edge", "cls": cname, "sigma": sigma, "pre": pre, "call": call, "post": post}
        try:
            X = gamma.build(cname, pre, sigma)
            Y = gl.apply(cname, X, call, sigma)
        except Exception as ex:  # noqa: BLE001
            j.fail("%s|%s|%s|raised-%s" % (PID, site, feat, type(ex).__name__), detail, cid)
            continue
        if Y is None:
            continue
        ok, d, vres = gl.check_value(cname, Y, post, sigma, scale)
        if not ok:
            j.fail("%s|%s|%s|wrong-value" % (PID, site, feat), dict(detail, distance=d), cid)
        else:
            j.ok(cid, nontrivial=gl.angle_band(pre) != "0" or not gl.trans_free(pre))
        # the same transition with the receiver stored as an INTEGER matrix (lattice members have integer entries),
        # in the binary and in the augmented call form
        if sigma == 1.0:
            for aug in (False, True):
                try:
                    Xi = gamma.build_int(cname, pre)
                    if Xi is None:
                        break
                    Yi = gl.apply(cname, Xi, call, sigma, aug=aug)
                except Exception as ex:  # noqa: BLE001
                    j.fail("%s|%s|%s;int-receiver|raised-%s" % (PID, site, feat, type(ex).__name__), detail, cid)
                    break
                if Yi is None:
                    break
                oki, di, _ = gl.check_value(cname, Yi, post, sigma, scale)
                cidi = cid + ("int", aug)
                if not oki:
                    j.fail("%s|%s|%s;int-receiver%s|wrong-value" % (PID, site, feat, ";augmented" if aug else ""), dict(detail, distance=di), cidi)
                else:
                    j.ok(cidi)


def replay_tree(j, h, sigma):
    start = h[0]["post"]
    for cname in gl.classes_for(start):
        if cname in ("SO3", "SO2", "UnitQuaternion") and sigma != 1.0:
            continue
        try:
            X = gamma.build(cname, start, sigma)
        except Exception:  # noqa: BLE001
            continue
        cur = start
        for kstep, step in enumerate(h[1:]):
            call, post = step["call"], step["post"]
            g = call.get("g")
            if not gl.usable(cname, cur, g, post) or (cname in gl.NO_POW and call["op"] == "pow"):
                break
            site = "%s.%s" % (cname, call["op"])
            feat = "tree;angle(%s)->%s;sigma=%g" % (gl.angle_band(cur), gl.angle_band(post), sigma)
            cid = (cname, "tree", call["op"], gl.angle_band(post), sigma)
            scale = gamma.tscale(cur, g, post, sigma=sigma)
            try:
                Y = gl.apply(cname, X, call, sigma, aug=kstep % 2 == 1)       # every second step in augmented form
            except Exception as ex:  # noqa: BLE001
                j.fail("%s|%s|%s|raised-%s" % (PID, site, feat, type(ex).__name__),
                       {"kind": "tree-step", "cls": cname, "sigma": sigma, "pre": cur, "call": call,
                        "post": post}, cid)
                try:
                    X = gamma.build(cname, post, sigma)
                except Exception:  # noqa: BLE001
                    break
                cur = post
                continue
            ok, d, vres = gl.check_value(cname, Y, post, sigma, scale)
            if not ok:
                j.fail("%s|%s|%s|wrong-value" % (PID, site, feat),
                       {"kind": "tree-step", "cls": cname, "sigma": sigma, "pre": cur, "call": call,
                        "post": post, "distance": d}, cid)
                try:
                    X = gamma.build(cname, post, sigma)      # re-synchronise
                except Exception:  # noqa: BLE001
                    break
            else:
                j.ok(cid)
                X = Y
            cur = post


# ---- Regime V: the laws themselves, evaluated by the implementation on both sides ---------------

ANGLES = [0.0, 1e-12, 1e-9, 1e-6, 1e-5, 1e-4, 1e-3, 0.3, 1.0, math.pi / 2, 2.0, math.pi - 1e-6, math.pi - 1e-9,
          math.pi - 1e-12, math.pi]


def real_elements(rng, n, dim):
    out = []
    for _ in range(n):
        a = rng.choice(ANGLES) if rng.random() < 0.6 else rng.uniform(0, math.pi)
        mag = 10 ** rng.uniform(-6, 6)
        if dim == 3:
            # a rotation by angle a about a coordinate axis conjugated by a generic rotation
            Q = gamma.rotz(rng.uniform(-3, 3)) @ gamma.roty(rng.uniform(-1.5, 1.5)) @ gamma.rotx(rng.uniform(-3, 3))
            R = Q @ rng.choice([gamma.rotx, gamma.roty, gamma.rotz])(a) @ Q.T
            T = np.eye(4)
            T[:3, :3] = R
            v = np.array([rng.gauss(0, 1) for _ in range(3)])
            T[:3, 3] = mag * v / np.linalg.norm(v)
        else:
            T = gamma.real_T3(a, [0, 0])
            v = np.array([rng.gauss(0, 1) for _ in range(2)])
            T[:2, 2] = mag * v / np.linalg.norm(v)
        out.append((T, a, mag))
    return out


def from_T(cname, T):
    from spatialmath import SO2, SE2, SO3, SE3, UnitQuaternion, Twist2, Twist3
    if cname == "SO3":
        return SO3(T[:3, :3], check=False)
    if cname == "SE3":
        return SE3(T, check=False)
    if cname == "UnitQuaternion":
        return UnitQuaternion(SO3(T[:3, :3], check=False))
    if cname == "Twist3":
        return Twist3(SE3(T, check=False))
    if cname == "SO2":
        return SO2(T[:2, :2], check=False)
    if cname == "SE2":
        return SE2(T, check=False)
    if cname == "Twist2":
        return Twist2(SE2(T, check=False))
    raise ValueError(cname)


def val(cname, X):
    return gamma.project(cname, X)


def law_instances(j, rng, n, dim):
    classes = gl.CLASSES3 if dim == 3 else gl.CLASSES2
    for _ in range(n):
        (A, aa, ma), (B, ab, mb), (C, ac, mc) = real_elements(rng, 3, dim)
        nexp = rng.randint(-8, 8)
        for cname in classes:
            has_t = cname in ("SE3", "SE2", "Twist3", "Twist2")
            scale = max(1.0, ma, mb, mc) if has_t else 1.0
            tol = gl.TOL[cname] * scale
            twist = cname in gl.NO_POW
            feat = "angles(%s);t=%s" % (",".join(sorted({band(x) for x in (aa, ab, ac)})),
                                        gl.mag_band(max(ma, mb, mc)) if has_t else "-")
            try:
                X, Y, Z = from_T(cname, A), from_T(cname, B), from_T(cname, C)
                I = type(X)()
                laws = {
                    "assoc": (lambda: (X * Y) * Z, lambda: X * (Y * Z)),
                    "identity-right": (lambda: X * I, lambda: X),
                    "identity-left": (lambda: I * X, lambda: X),
                    "inverse-right": (lambda: X * X.inv(), lambda: I),
                    "inverse-left": (lambda: X.inv() * X, lambda: I),
                    "inv-of-product": (lambda: (X * Y).inv(), lambda: Y.inv() * X.inv()),
                }
                # one operand holding two values: element i of the product is the product with element i (1 x N, N x 1)
                YZ = type(X)([Y, Z])
                laws["one-times-many[0]"] = (lambda: (X * YZ)[0], lambda: X * Y)
                laws["one-times-many[1]"] = (lambda: (X * YZ)[1], lambda: X * Z)
                laws["many-times-one[1]"] = (lambda: (YZ * X)[1], lambda: Z * X)
                if not twist:
                    laws["division"] = (lambda: X / Y, lambda: X * Y.inv())
                    laws["power"] = (lambda: X ** nexp, lambda: npow(X, nexp))
                    laws["power-zero"] = (lambda: X ** 0, lambda: I)
                    laws["power-negative"] = (lambda: X ** (-abs(nexp)), lambda: (X ** abs(nexp)).inv())
            except Exception as ex:  # noqa: BLE001
                j.fail("%s|%s.construct|%s|raised-%s" % (PID, cname, feat, type(ex).__name__),
                       {"kind": "law", "cls": cname, "A": A.tolist()})
                continue
            for name, (lhs, rhs) in laws.items():
                cid = (cname, "law", name, feat)
                try:
                    l, r = val(cname, lhs()), val(cname, rhs())
                    s = scale
                    if name.startswith("power"):
                        s = scale * max(1, abs(nexp))      # |t| of X**n grows up to n|t|
                    d = gamma.distance(cname, l, r)
                    if not (d <= gl.TOL[cname] * s):
                        j.fail("%s|%s.%s|%s|law-violated" % (PID, cname, name, feat),
                               {"kind": "law", "cls": cname, "law": name, "distance": d, "tol": gl.TOL[cname] * s,
                                "A": A.tolist(), "B": B.tolist(), "C": C.tolist(), "n": nexp}, cid)
                    else:
                        j.ok(cid)
                except Exception as ex:  # noqa: BLE001
                    j.fail("%s|%s.%s|%s|raised-%s" % (PID, cname, name, feat, type(ex).__name__),
                           {"kind": "law", "cls": cname, "law": name, "A": A.tolist(), "B": B.tolist(),
                            "C": C.tolist(), "n": nexp}, cid)
        # twists as the motions they generate, against the matrices they were built from (not against another twist
        # that went through the same logarithm); routes through a half turn are left to C03
        if max(aa, ab) < math.pi - 1e-3:
            for cname in (["Twist3"] if dim == 3 else ["Twist2"]):
                scale = max(1.0, ma, mb)
                feat = "angles(%s);t=%s" % (",".join(sorted({band(x) for x in (aa, ab)})), gl.mag_band(max(ma, mb)))
                try:
                    X, Y = from_T(cname, A), from_T(cname, B)
                    motions = {"generates": (lambda: X, A, 1.0), "product-motion": (lambda: X * Y, A @ B, 2.0),
                               "inverse-motion": (lambda: X.inv(), np.linalg.inv(A), 1.0)}
                except Exception as ex:  # noqa: BLE001
                    j.fail("%s|%s.construct|%s|raised-%s" % (PID, cname, feat, type(ex).__name__), {"kind": "law", "cls": cname, "A": A.tolist()})
                    continue
                for name, (thunk, want, k) in motions.items():
                    cid = (cname, "law", name, feat)
                    try:
                        d = gamma.distance(cname, val(cname, thunk()), want)
                        if not (d <= gl.TOL[cname] * scale * k):
                            j.fail("%s|%s.%s|%s|law-violated" % (PID, cname, name, feat),
                                   {"kind": "law", "cls": cname, "law": name, "distance": d, "A": A.tolist(), "B": B.tolist()}, cid)
                        else:
                            j.ok(cid)
                    except Exception as ex:  # noqa: BLE001
                        j.fail("%s|%s.%s|%s|raised-%s" % (PID, cname, name, feat, type(ex).__name__),
                               {"kind": "law", "cls": cname, "law": name, "A": A.tolist(), "B": B.tolist()}, cid)
        # structured inverse equals the true matrix inverse
        for cname in (["SE3"] if dim == 3 else ["SE2"]):
            X = from_T(cname, A)
            d = float(np.max(np.abs(X.inv().A @ A - np.eye(dim + 1))))
            cid = (cname, "law", "matrix-inverse")
            if d > 1e-9 * max(1.0, ma):
                j.fail("%s|%s.inv|matrix-inverse;t=%s|law-violated" % (PID, cname, gl.mag_band(ma)),
                       {"kind": "law", "cls": cname, "law": "matrix-inverse", "A": A.tolist(), "distance": d}, cid)
            else:
                j.ok(cid)


def npow(X, n):
    Y = type(X)()
    B = X if n >= 0 else X.inv()
    for _ in range(abs(n)):
        Y = Y * B
    return Y


def band(a):
    if a == 0:
        return "0"
    if a < 1e-5:
        return "tiny"
    if abs(a - math.pi) < 1e-5:
        return "pi" if a == math.pi else "near-pi"
    return "mid"


def run(tier):
    j = Judge(PID)
    thorough = tier == "thorough"
    rng = random.Random(common.seed() + 2)
    stats = {}
    tot_s = tot_t = 0
    nrep = 0
    # lattice machines, every transition; scale sweep on a third of them
    for cfg in ["Group_lattice3", "Group_lattice2"]:
        r = run_tlc("MC_Group", cfg, timeout=300)
        stats[cfg] = r.stats()
        tot_s += r.distinct
        tot_t += r.generated
        seen = set()
        for k, e in enumerate(r.json):
            key = (str(e["pre"]["num"]), str(e["call"]))
            if key in seen:
                continue
            seen.add(key)
            replay_edge(j, e, 1.0)
            nrep += 1
            if thorough or k % 7 == 0:
                for s in SIGMAS:
                    if s != 1.0:
                        replay_edge(j, e, s, classes=["SE3", "Twist3", "SE2", "Twist2"])
        if cfg == "Group_lattice3":
            j.sample({"edge": r.json[len(r.json) // 2]})
    # rational pairs (generic angles) and all ordered pairs of cube motions
    for cfg in ["Group_ratpairs", "Group_ratpairs2"] + (["Group_cubepairs"] if thorough else []):
        r = run_tlc("MC_Group", cfg, timeout=600)
        stats[cfg] = r.stats()
        tot_s += r.distinct
        tot_t += r.generated
        seen = set()
        for e in r.json:
            key = (str(e["pre"]["num"]), str(e["call"]))
            if key in seen:
                continue
            seen.add(key)
            nrep += 1
            for s in (SIGMAS if cfg != "Group_cubepairs" else [1.0]):
                replay_edge(j, e, s)
    # expression trees of depth 5
    nsim = 2000 if thorough else 250
    for cfg in ["Group_ratsim", "Group_ratsim2"]:
        r = run_tlc("MC_Group", cfg, workers=1, simulate=nsim, depth=6, seed_=common.seed() + 11,
                    timeout=600)
        stats[cfg] = {"behaviours": len(r.json), "states": r.generated}
        tot_t += r.generated
        if len(r.json) < nsim // 3:
            raise MachineryError("%s produced %d behaviours" % (cfg, len(r.json)))
        for k, h in enumerate(r.json):
            replay_tree(j, h, SIGMAS[k % len(SIGMAS)])
            nrep += 1
        j.sample({"expression-tree": [s["call"]["op"] for s in r.json[0][1:]],
                  "start.q": r.json[0][0]["post"]["q"]})
    # the group operations on ONE live (possibly multi-valued) object interleaved with list edits and with
    # observations x.inv(), x.prod(), g / x whose results must follow the object's current values (SeqMachine.tla)
    import seqlib
    nb = 160 if thorough else 24
    for cfg, classes in (("Seq_sim", ["SE3"]), ("Seq_sim_rot", ["SO3", "UnitQuaternion"]),
                         ("Seq_sim_planar", ["SE2"]), ("Seq_sim_planar_rot", ["SO2"])):
        rq = run_tlc("MC_Seq", cfg, tag="C02_" + cfg, workers=1, simulate=nb, depth=40,
                     seed_=common.seed() + 29, timeout=900)
        if len(rq.json) < nb // 2:
            raise MachineryError("sequence machine produced %d behaviours" % len(rq.json))
        tot_t += rq.generated
        for h in rq.json:
            for c in classes:
                seqlib.replay(j, PID, c, h, sigma=1.0)
                nrep += 1
    lat = j.evaluations
    # valuations
    nlaw = 400 if thorough else 60
    law_instances(j, rng, nlaw, 3)
    law_instances(j, rng, nlaw, 2)
    cov = {"states": tot_s, "transitions": tot_t, "traces_validated_against_impl": nrep,
           "lattice_exact": lat, "valuation": j.evaluations - lat, "tlc": stats,
           "exhaustive": True,
           "rule": "lattice case = (class, operation, angle class of operands/result from exact integers, "
                   "translation scale); valuation case = (class, law, angle bands, translation band); "
                   "non-trivial = operand is not the identity"}
    return {"judge": j, "coverage": cov, "level": "model_checking", "assumptions": [
        "exact oracle only on the integer/rational sub-domain (cube group, rational rotations of the -3..3 box); "
        "elsewhere the laws are evaluated by the implementation on both sides (sampled valuations)",
        "twists are compared as the motions they generate; routes through an exact half turn are left to C03"]}


def replay(rp):
    j = Judge(PID)
    for c in rp["cases"]:
        if c.get("kind") in ("edge", "tree-step"):
            replay_edge(j, {"pre": c["pre"], "call": c["call"], "post": c["post"]}, c["sigma"], [c["cls"]])
        else:
            print(c)
    for k, v in j.failures.items():
        print(k, {x: y for x, y in v[0].items() if x in ("distance", "cls", "sigma")})
    print("conforms" if not j.failures else "FAILS")
    return 1 if j.failures else 0
