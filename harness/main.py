"""./check <ID|setup|selftest|all> [--tier quick|thorough] [--replay file]"""
import argparse
import importlib
import json
import os
import sys
import time
import traceback

sys.path.insert(0, os.path.dirname(os.path.abspath(__file__)))
import common  # noqa: E402

PROPS = ["C%02d" % i for i in range(1, 21)]


def setup():
    os.makedirs(common.BUILD, exist_ok=True)
    os.makedirs(common.EVID, exist_ok=True)
    bad = 0
    mods = sorted(f[:-4] for f in os.listdir(common.SPEC) if f.endswith(".tla"))
    for m in mods:
        ok, out = common.sany(m)
        print("sany %-22s %s" % (m, "ok" if ok else "FAILED"))
        if not ok:
            print(out[-2000:])
            bad += 1
    common.use_repo()
    import spatialmath  # noqa: F401
    print("spatialmath imported from", os.path.dirname(spatialmath.__file__))
    return 2 if bad else 0


def run_property(pid, tier, replay=None):
    common.use_repo()                     # the library under test is ALWAYS the working tree at common.REPO
    mod = importlib.import_module(pid.lower())
    if replay:
        with open(replay) as f:
            rp = json.load(f)
        return mod.replay(rp)
    t0 = time.time()
    try:
        out = mod.run(tier)
    except common.MachineryError as e:
        print("MACHINERY-FAILURE property=%s %s" % (pid, e))
        return 2
    except Exception as e:
        traceback.print_exc()
        # An exception that escapes from a LIBRARY call the harness makes unguarded: on the tree the harness was
        # written against that call returns (otherwise the check could never have passed), so the library now raises
        # where it did not - reported as a violation of the property whose replay was running, with the traceback as
        # the replay.  Anything raised by the harness itself stays a machinery failure.
        frames = traceback.extract_tb(e.__traceback__)
        lib = os.path.join(os.path.realpath(common.REPO), "spatialmath") + os.sep
        inlib = [f for f in frames if os.path.realpath(f.filename).startswith(lib)]
        # ... and an arithmetic / indexing / attribute error in the replay code itself means that a value the library
        # returned does not have the form it has on that tree (wrong shape, None, another type): the replay cannot go
        # on, which is reported as a violation too.  Operating-system, memory, import and tool errors are not.
        import subprocess
        environmental = isinstance(e, (OSError, MemoryError, ImportError, subprocess.SubprocessError, json.JSONDecodeError,
                                       RecursionError, AssertionError))
        if inlib or not environmental:
            import hashlib
            last = inlib[-1] if inlib else frames[-1]
            site = "%s.%s" % (os.path.basename(last.filename)[:-3], last.name)
            mode = "unguarded-call-of-the-replay" if inlib else "result-of-unexpected-form"
            key = "%s|%s|%s|raised-%s" % (pid, site.replace("|", "_").replace(" ", "_"), mode, type(e).__name__)
            d = os.path.join(common.VERIF, "replays", pid)
            os.makedirs(d, exist_ok=True)
            path = os.path.join(d, "unguarded_%s.json" % hashlib.md5(key.encode()).hexdigest()[:12])
            with open(path, "w") as f:
                json.dump({"property": pid, "key": key, "cases": [{"traceback": traceback.format_exc().splitlines()[-40:]}]}, f, indent=1)
            print("VIOLATION property=%s replay=%s key=%s cases=1 first=%s" % (pid, path, key, json.dumps(str(e))[:200]))
            common.write_evidence(pid, tier, "model_checking", {"aborted_by_library_exception": key}, [], time.time() - t0, 1)
            return 1
        print("MACHINERY-FAILURE property=%s unexpected exception" % pid)
        return 2
    judge, coverage, assumptions = out["judge"], out["coverage"], out["assumptions"]
    nviol = judge.finish()
    coverage.setdefault("evaluations", judge.evaluations)
    coverage.setdefault("distinct_nontrivial", len(judge.nontrivial))
    coverage.setdefault("samples", judge.samples)
    coverage["unjudged"] = judge.unjudged
    coverage["counters"] = judge.counters
    coverage["known_findings_observed"] = {k: v for k, v in judge.known_hit.items()}
    common.write_evidence(pid, tier, out.get("level", "model_checking"), coverage, assumptions,
                          time.time() - t0, nviol)
    print("%s %s: evaluations=%d distinct_nontrivial=%d violations=%d wall=%.1fs"
          % (pid, tier, judge.evaluations, len(judge.nontrivial), nviol, time.time() - t0))
    return 1 if nviol else 0


def main():
    ap = argparse.ArgumentParser()
    ap.add_argument("what")
    ap.add_argument("--tier", default=os.environ.get("VERIF_TIER", "quick"))
    ap.add_argument("--replay")
    a = ap.parse_args()
    if a.tier not in ("quick", "thorough"):
        a.tier = "quick"
    os.chdir(common.VERIF)
    if a.what == "setup":
        sys.exit(setup())
    if a.what == "selftest":
        import selftest
        sys.exit(selftest.run())
    if a.what == "all":
        rc = 0
        for p in PROPS:
            if os.path.exists(os.path.join(common.VERIF, "harness", p.lower() + ".py")):
                rc = max(rc, run_property(p, a.tier))
        sys.exit(rc)
    sys.exit(run_property(a.what.upper(), a.tier, a.replay))


if __name__ == "__main__":
    main()
