"""./check <ID|setup|selftest|all> [--tier quick|thorough] [--replay file]"""
import argparse
import importlib
import json
import os
import sys
import time
import traceback

sys.path.insert(0, os.path.dirname(os.path.abspath(__file__)))
import common  # noqa: E402

PROPS = ["C%02d" % i for i in range(1, 21)]


def setup():
    os.makedirs(common.BUILD, exist_ok=True)
    os.makedirs(common.EVID, exist_ok=True)
    bad = 0
    mods = sorted(f[:-4] for f in os.listdir(common.SPEC) if f.endswith(".tla"))
    for m in mods:
        ok, out = common.sany(m)
        print("sany %-22s %s" % (m, "ok" if ok else "FAILED"))
        if not ok:
            print(out[-2000:])
            bad += 1
    common.use_repo()
    import spatialmath  # noqa: F401
    print("spatialmath imported from", os.path.dirname(spatialmath.__file__))
    return 2 if bad else 0


def run_property(pid, tier, replay=None):
    common.use_repo()                     # the library under test is ALWAYS the working tree at common.REPO
    mod = importlib.import_module(pid.lower())
    if replay:
        with open(replay) as f:
            rp = json.load(f)
        return mod.replay(rp)
    t0 = time.time()
    try:
        out = mod.run(tier)
    except common.MachineryError as e:
        print("MACHINERY-FAILURE property=%s %s" % (pid, e))
        return 2
    except Exception:
        traceback.print_exc()
        print("MACHINERY-FAILURE property=%s unexpected exception" % pid)
        return 2
    judge, coverage, assumptions = out["judge"], out["coverage"], out["assumptions"]
    nviol = judge.finish()
    coverage.setdefault("evaluations", judge.evaluations)
    coverage.setdefault("distinct_nontrivial", len(judge.nontrivial))
    coverage.setdefault("samples", judge.samples)
    coverage["unjudged"] = judge.unjudged
    coverage["counters"] = judge.counters
    coverage["known_findings_observed"] = {k: v for k, v in judge.known_hit.items()}
    common.write_evidence(pid, tier, out.get("level", "model_checking"), coverage, assumptions,
                          time.time() - t0, nviol)
    print("%s %s: evaluations=%d distinct_nontrivial=%d violations=%d wall=%.1fs"
          % (pid, tier, judge.evaluations, len(judge.nontrivial), nviol, time.time() - t0))
    return 1 if nviol else 0


def main():
    ap = argparse.ArgumentParser()
    ap.add_argument("what")
    ap.add_argument("--tier", default=os.environ.get("VERIF_TIER", "quick"))
    ap.add_argument("--replay")
    a = ap.parse_args()
    if a.tier not in ("quick", "thorough"):
        a.tier = "quick"
    os.chdir(common.VERIF)
    if a.what == "setup":
        sys.exit(setup())
    if a.what == "selftest":
        import selftest
        sys.exit(selftest.run())
    if a.what == "all":
        rc = 0
        for p in PROPS:
            if os.path.exists(os.path.join(common.VERIF, "harness", p.lower() + ".py")):
                rc = max(rc, run_property(p, a.tier))
        sys.exit(rc)
    sys.exit(run_property(a.what.upper(), a.tier, a.replay))


if __name__ == "__main__":
    main()
