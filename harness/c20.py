"""C20 - spatial 6-vectors and inertia follow Featherstone's spatial algebra.

Spec: ExactSpatial.tla - crm / crf, the duality (v x* f).m = -f.(v x m) (trilinear: proved on basis
vectors), v x v = 0, symmetry and parallel-axis form of the spatial inertia, momentum of a
translating body; TLC judges recorded integer events of the library's spatial-vector classes.
Typed arithmetic (same class in, same class out; mixed classes and unequal lengths rejected) is
enumerated over every ordered pair of classes and lengths 1..3.
"""
import itertools
import json
import os
import random

import numpy as np

import common
from common import Judge, MachineryError, run_tlc, write_ndjson
import gamma

PID = "C20"
TOL = 1e-9


def ints(x, mult=1.0):
    a = np.asarray(x, dtype=float).ravel() * mult
    r = np.round(a)
    mag = max(1.0, float(np.max(np.abs(a))) if a.size else 1.0)
    if not np.all(np.isfinite(a)) or float(np.max(np.abs(a - r))) > TOL * mag:
        return None
    return [int(v) for v in r]


def classes():
    from spatialmath import SpatialVelocity, SpatialAcceleration, SpatialForce, SpatialMomentum
    return {"SpatialVelocity": SpatialVelocity, "SpatialAcceleration": SpatialAcceleration,
            "SpatialForce": SpatialForce, "SpatialMomentum": SpatialMomentum}


def events(rng, homs):
    from spatialmath import SE3, Twist3, SpatialInertia
    C = classes()
    M6 = ["SpatialVelocity", "SpatialAcceleration"]
    F6 = ["SpatialForce", "SpatialMomentum"]
    basis = [tuple(1 if i == k else 0 for i in range(6)) for k in range(6)]
    pts = basis + [tuple(rng.randint(-100, 100) for _ in range(6)) for _ in range(10)]
    for s in (1.0, 1e-6, 1e6):
        for a in pts:
            A = np.array(a, dtype=float) * s
            for name, cls in C.items():
                yield "neg", {"a": a}, 1 / s, (lambda cls=cls, A=A: (-cls(A)).A), name + ".neg"
            for b_ in pts[:8]:
                B = np.array(b_, dtype=float) * s
                for name, cls in C.items():
                    yield "add", {"a": a, "b": b_}, 1 / s, (lambda cls=cls, A=A, B=B: (cls(A) + cls(B)).A), name + ".+"
                    yield "sub", {"a": a, "b": b_}, 1 / s, (lambda cls=cls, A=A, B=B: (cls(A) - cls(B)).A), name + ".-"
                V = C["SpatialVelocity"]
                yield "crm", {"a": a, "b": b_}, 1 / (s * s), (lambda A=A, B=B: V(A).cross(V(B)).A), "SpatialVelocity.cross(velocity)"
                yield "crm", {"a": a, "b": b_}, 1 / (s * s), (lambda A=A, B=B: (V(A) @ V(B)).A), "SpatialVelocity@velocity"
                for fn in F6:
                    yield "crf", {"a": a, "b": b_}, 1 / (s * s), (lambda A=A, B=B, fn=fn: V(A).cross(C[fn](B)).A), "SpatialVelocity.cross(%s)" % fn
                    yield "crf", {"a": a, "b": b_}, 1 / (s * s), (lambda A=A, B=B, fn=fn: (V(A) @ C[fn](B)).A), "SpatialVelocity@%s" % fn
    # ONE live velocity object whose value is replaced through the list interface between cross products: every
    # product is judged against the value the object holds at that moment
    V = C["SpatialVelocity"]
    F = C["SpatialForce"]
    for i in range(0, len(pts) - 3, 2):
        a0, a1, a2, b_ = pts[i], pts[i + 1], pts[i + 2], pts[(i + 5) % len(pts)]
        live = V(np.array(a0, dtype=float))
        B = np.array(b_, dtype=float)

        def set0(live=live, a1=a1):
            live[0] = V(np.array(a1, dtype=float))

        def poppush(live=live, a2=a2):
            live.pop()
            live.append(V(np.array(a2, dtype=float)))
        yield "crm", {"a": a0, "b": b_}, 1.0, (lambda live=live, B=B: live.cross(V(B)).A), "SpatialVelocity.cross(live,first)"
        yield "crf", {"a": a0, "b": b_}, 1.0, (lambda live=live, B=B: live.cross(F(B)).A), "SpatialVelocity.cross(live,force)"
        yield "crm", {"a": a1, "b": b_}, 1.0, (lambda live=live, B=B, set0=set0: (set0(), live.cross(V(B)).A)[1]), "SpatialVelocity.cross(live,after item assignment)"
        yield "crf", {"a": a1, "b": b_}, 1.0, (lambda live=live, B=B: (live @ F(B)).A), "SpatialVelocity@force(live,after item assignment)"
        yield "crm", {"a": a2, "b": b_}, 1.0, (lambda live=live, B=B, poppush=poppush: (poppush(), live.cross(V(B)).A)[1]), "SpatialVelocity.cross(live,after pop and append)"
    # multi-valued objects: N values on each side, N = 2, 3, 6 (= the dimension of a spatial vector), 7
    for N in (2, 3, 6, 7):
        rows_a = [pts[(3 * i + N) % len(pts)] for i in range(N)]
        rows_b = [pts[(5 * i + 1) % len(pts)] for i in range(N)]
        fa = tuple(x for r in rows_a for x in r)
        fb = tuple(x for r in rows_b for x in r)
        for name, cls in C.items():
            def mk(rows, cls=cls):
                o = cls(np.array(rows[0], dtype=float))
                for r in rows[1:]:
                    o.append(cls(np.array(r, dtype=float)))
                return o

            def flat(o):
                return np.array([np.asarray(a, dtype=float) for a in o.data]).ravel() if len(o.data) == N else np.zeros(1)
            yield "addn", {"a": fa, "b": fb}, 1.0, (lambda mk=mk, flat=flat: flat(mk(rows_a) + mk(rows_b))), name + ".+(N=%d)" % N
            yield "subn", {"a": fa, "b": fb}, 1.0, (lambda mk=mk, flat=flat: flat(mk(rows_a) - mk(rows_b))), name + ".-(N=%d)" % N
            yield "negn", {"a": fa}, 1.0, (lambda mk=mk, flat=flat: flat(-mk(rows_a))), name + ".neg(N=%d)" % N
    # nearly equal (not equal) operands: m = K v + d with K = 1e6, so that m / K is within 1e-5 relative of v
    smalls = [(1, -2, 0, 3, -1, 2), (0, 1, 1, -1, 0, 2), (2, 0, -3, 0, 1, 1)]
    for i in range(6, len(pts)):
        a, d_ = pts[i], smalls[i % 3]
        if any(abs(x) < 10 for x in a):
            continue
        K = 1e6
        A = np.array(a, dtype=float)
        M = K * A + np.array(d_, dtype=float)
        # (K v) x (K v + d) = K (v x d)
        yield "crm_near", {"a": a, "d": d_}, 1 / K, (lambda A=A, M=M, K=K: V(K * A).cross(V(M)).A), "SpatialVelocity.cross(nearly-equal)"
        yield "crm_near", {"a": a, "d": d_}, 1 / K, (lambda A=A, M=M, K=K: (V(K * A) @ V(M)).A), "SpatialVelocity@(nearly-equal)"
    Js = [((2, 0, 0), (0, 3, 0), (0, 0, 4)), ((2, 1, 0), (1, 3, -1), (0, -1, 4)), ((5, -2, 1), (-2, 6, 0), (1, 0, 7))]
    cs = [(0, 0, 0), (1, 0, 0), (1, -2, 3), (0, 2, -1)]
    # a point mass: the rotational inertia omitted (documented default: none about the centre of mass)
    Z9 = [0] * 9
    for m in (1, 2, 5):
        for c in cs:
            yield "inertia", {"m": m, "c": c, "J": Z9}, 1.0, (lambda m=m, c=c: SpatialInertia(float(m), np.array(c, dtype=float)).A), "SpatialInertia(m,c)"
            yield "inertia", {"m": m, "c": c, "J": Z9}, 1.0, (lambda m=m, c=c: SpatialInertia(m=float(m), r=list(c)).A), "SpatialInertia(m=,r=)"
            a = pts[7]
            yield "inertia_mul", {"m": m, "c": c, "J": Z9, "a": a}, 1.0, \
                (lambda m=m, c=c, a=a: (SpatialInertia(float(m), np.array(c, dtype=float)) * C["SpatialAcceleration"](np.array(a, dtype=float))).A), "SpatialInertia(m,c)*acceleration"
    for m in (1, 2, 5):
        for c in cs:
            for J in Js:
                Jf = [x for row in J for x in row]
                mk = lambda m=m, c=c, J=J: SpatialInertia(float(m), np.array(c, dtype=float), np.array(J, dtype=float))   # noqa: E731
                yield "inertia", {"m": m, "c": c, "J": Jf}, 1.0, (lambda mk=mk: mk().A), "SpatialInertia(m,c,I)"
                # light / heavy bodies: mass and rotational inertia scaled together (the matrix scales with them)
                for sm in (1e-9, 1e-6, 1e6):
                    yield "inertia", {"m": m, "c": c, "J": Jf}, 1.0 / sm, \
                        (lambda m=m, c=c, J=J, sm=sm: SpatialInertia(float(m) * sm, np.array(c, dtype=float), np.array(J, dtype=float) * sm).A), \
                        "SpatialInertia(m,c,I) mass-scale=%g" % sm
                for a in pts[6:10] + basis[:2]:
                    A = np.array(a, dtype=float)
                    yield "inertia_mul", {"m": m, "c": c, "J": Jf, "a": a}, 1.0, \
                        (lambda mk=mk, A=A: (mk() * C["SpatialAcceleration"](A)).A), "SpatialInertia*acceleration"
                    yield "inertia_mul", {"m": m, "c": c, "J": Jf, "a": a}, 1.0, \
                        (lambda mk=mk, A=A: (mk() * C["SpatialVelocity"](A)).A), "SpatialInertia*velocity"
                m2, c2, J2 = 3, (0, 1, 1), Js[0]
                yield "inertia_add", {"m": m, "c": c, "J": Jf, "m2": m2, "c2": c2, "J2": [x for row in J2 for x in row]}, 1.0, \
                    (lambda mk=mk: (mk() + SpatialInertia(float(m2), np.array(c2, dtype=float), np.array(J2, dtype=float))).A), "SpatialInertia+"
                # a body that is joined to several others: ONE live base inertia used in two sums, in both operand
                # positions, and multiplied afterwards; every event is judged against the defining data
                base = mk()
                P1 = SpatialInertia(float(m2), np.array(c2, dtype=float), np.array(J2, dtype=float))
                m3, c3, J3 = 4, (2, 0, -1), Js[1]
                P2 = SpatialInertia(float(m3), np.array(c3, dtype=float), np.array(J3, dtype=float))
                add1 = {"m": m, "c": c, "J": Jf, "m2": m2, "c2": c2, "J2": [x for row in J2 for x in row]}
                add2 = {"m": m, "c": c, "J": Jf, "m2": m3, "c2": c3, "J2": [x for row in J3 for x in row]}
                yield "inertia_add", add1, 1.0, (lambda base=base, P1=P1: (base + P1).A), "SpatialInertia+(live,first)"
                yield "inertia_add", add2, 1.0, (lambda base=base, P2=P2: (base + P2).A), "SpatialInertia+(live,second)"
                yield "inertia_add", add1, 1.0, (lambda base=base, P1=P1: (P1 + base).A), "SpatialInertia+(live,commuted)"
                yield "inertia", {"m": m, "c": c, "J": Jf}, 1.0, (lambda base=base: base.A), "SpatialInertia(after sums)"
                a = pts[7]
                yield "inertia_mul", {"m": m, "c": c, "J": Jf, "a": a}, 1.0, \
                    (lambda base=base, a=a: (base * C["SpatialAcceleration"](np.array(a, dtype=float))).A), "SpatialInertia*acceleration(after sums)"
    for h in homs:
        n = h["qn"]
        f = {"q": h["q"], "t": [h["num"][i][3] // n for i in range(3)], "d": h["den"] // n}
        T = gamma.T4(h)
        for a in pts[6:9] + basis[::2]:
            A = np.array(a, dtype=float)
            for name in M6:
                yield "se3_motion", dict(f, a=a), h["den"], (lambda T=T, A=A, name=name: (SE3(T) * C[name](A)).A), "SE3*" + name
                yield "se3_motion", dict(f, a=a), h["den"], (lambda T=T, A=A, name=name: (Twist3(SE3(T)) * C[name](A)).A), "Twist3*" + name
            for name in F6:
                yield "se3_force", dict(f, a=a), h["den"], (lambda T=T, A=A, name=name: (SE3(T) * C[name](A)).A), "SE3*" + name

    # motions far from the identity, generated by twists of large magnitude: translations longer than one turn's worth
    # of radians (prismatic twists with |v| > 2 pi) and screws wound more than one full turn (|w| > 2 pi, non-zero
    # pitch) - the motion of a twist is NOT periodic in its magnitude
    import math
    import ctorlib
    far = []
    for t in ((8, 0, 0), (3, -7, 25), (0, 0, -40)):
        far.append(({"q": [1, 0, 0, 0], "t": list(t), "d": 1}, np.r_[np.array(t, dtype=float), 0, 0, 0], "prismatic"))
    for q, u, theta, p_, d_ in (([1, 1, 0, 0], (1, 0, 0), 2 * math.pi + math.pi / 2, (0, 1, 2), 3),
                                ([0, 0, 0, 1], (0, 0, 1), -3 * math.pi, (1, 2, 0), -2),
                                ([1, 0, -1, 0], (0, 1, 0), -(2 * math.pi + math.pi / 2), (2, 0, -1), 5)):
        u_, pp = np.array(u, dtype=float), np.array(p_, dtype=float)
        w = theta * u_
        S = np.r_[-np.cross(w, pp) + d_ * u_, w]
        R = ctorlib._axis_rot(list(u), theta)
        t = (np.eye(3) - R) @ pp + d_ * u_
        far.append(({"q": q, "t": [int(round(x)) for x in t], "d": 1}, S, "wound-screw"))
    for f, S, kind in far:
        qn = sum(x * x for x in f["q"])
        for a in pts[6:9] + basis[::2]:
            A = np.array(a, dtype=float)
            for name in M6:
                yield "se3_motion", dict(f, a=a), qn * f["d"], (lambda S=S, A=A, name=name: (Twist3(S) * C[name](A)).A), "Twist3(%s)*%s" % (kind, name)
                yield "se3_motion", dict(f, a=a), qn * f["d"], (lambda S=S, A=A, name=name: (Twist3(S).SE3() * C[name](A)).A), "Twist3(%s).SE3()*%s" % (kind, name)


def typed(j):
    """same class in, same class out; mixed classes or unequal lengths rejected; documented result classes"""
    from spatialmath import SpatialInertia
    C = classes()
    v = np.array([1.0, 2, 3, 4, 5, 6])

    def mk(name, n):
        return C[name]([v * (k + 1) for k in range(n)]) if n > 1 else C[name](v)
    for (ln, rn) in itertools.product(C, C):
        # lengths include 6 and 7: a single value has six elements, so N = 6 is where a length test can go wrong
        for (m, n) in itertools.product((1, 2, 3, 6, 7), (1, 2, 3, 6, 7)):
            for opn, op in (("+", lambda a, b: a + b), ("-", lambda a, b: a - b)):
                cid = ("typed", ln, opn, rn, m, n)
                site = "%s%s" % (ln, opn)
                feat = "%s;len(%d,%d)" % (rn, m, n)
                try:
                    r = op(mk(ln, m), mk(rn, n))
                    raised = None
                except Exception as ex:  # noqa: BLE001
                    r, raised = None, type(ex).__name__
                should_raise = ln != rn or m != n
                if should_raise and raised is None:
                    j.fail("%s|%s|%s|no-exception" % (PID, site, feat), {"kind": "typed", "l": ln, "r": rn, "m": m, "n": n}, cid)
                elif not should_raise and (raised is not None or type(r).__name__ != ln or len(r.data) != m):
                    j.fail("%s|%s|%s|wrong-result-%s" % (PID, site, feat, raised or type(r).__name__),
                           {"kind": "typed", "l": ln, "r": rn, "m": m, "n": n}, cid)
                else:
                    j.ok(cid)
    # result classes of the inertia products and the cross products
    I6 = SpatialInertia(2.0, [0.1, 0.2, 0.3], np.diag([1.0, 2.0, 3.0]))
    expect = [("I*a", lambda: I6 * C["SpatialAcceleration"](v), "SpatialForce"),
              ("I*v", lambda: I6 * C["SpatialVelocity"](v), "SpatialMomentum"),
              ("I+I", lambda: I6 + I6, "SpatialInertia"),
              ("v@v", lambda: C["SpatialVelocity"](v) @ C["SpatialVelocity"](v * 2), "SpatialAcceleration"),
              ("v@f", lambda: C["SpatialVelocity"](v) @ C["SpatialForce"](v), "SpatialForce"),
              ("v@h", lambda: C["SpatialVelocity"](v) @ C["SpatialMomentum"](v), "SpatialForce"),
              ("-v", lambda: -C["SpatialVelocity"](v), "SpatialVelocity")]
    for name, fn, cls in expect:
        cid = ("typed", name)
        try:
            r = fn()
            ok = type(r).__name__ == cls
        except Exception as ex:  # noqa: BLE001
            ok, r = False, type(ex).__name__
        if not ok:
            j.fail("%s|%s|class|wrong-result-%s" % (PID, name, r if isinstance(r, str) else type(r).__name__), {"kind": "typed", "expr": name}, cid)
        else:
            j.ok(cid)
    for name, fn in (("I*force", lambda: I6 * C["SpatialForce"](v)), ("I*momentum", lambda: I6 * C["SpatialMomentum"](v)),
                     ("I+v", lambda: I6 + C["SpatialVelocity"](v))):
        cid = ("typed", name)
        try:
            fn()
            j.fail("%s|%s|class|no-exception" % (PID, name), {"kind": "typed", "expr": name}, cid)
        except Exception:  # noqa: BLE001
            j.ok(cid)


def run(tier):
    j = Judge(PID)
    thorough = tier == "thorough"
    rng = random.Random(common.seed() + 20)
    rl = run_tlc("MC_Group", "Group_lattice3", timeout=300)
    rr = run_tlc("MC_Group", "Group_ratpairs", timeout=300)
    homs = [e["post"] for e in rl.json][:: (4 if thorough else 30)] + [e["post"] for e in rr.json][:: (6 if thorough else 40)]
    evs, meta = [], []
    for fn, args, mult, thunk, site in events(rng, homs):
        cid = (site, fn, "%.0e" % mult)
        detail = {"kind": "event", "fn": fn, "site": site, "args": {k: (list(v) if isinstance(v, tuple) else v) for k, v in args.items()}}
        try:
            val = thunk()
        except Exception as ex:  # noqa: BLE001
            j.fail("%s|%s|%s|raised-%s" % (PID, site, fn, type(ex).__name__), detail, cid)
            continue
        r = ints(val, mult)
        if r is None:
            j.fail("%s|%s|%s|not-exact-to-1e-9" % (PID, site, fn), dict(detail, value=np.asarray(val, dtype=float).ravel().tolist()[:36]), cid)
            continue
        ev = {"fn": fn, "res": r}
        for k, v in args.items():
            ev[k] = list(v) if isinstance(v, tuple) else v
        evs.append(ev)
        meta.append((site, fn, detail, cid))
    d = os.path.join(common.BUILD, "C20_trace")
    os.makedirs(d, exist_ok=True)
    tr, vd = os.path.join(d, "events.ndjson"), os.path.join(d, "verdict.json")
    if os.path.exists(vd):
        os.remove(vd)
    write_ndjson(tr, evs)
    rj = run_tlc("MC_ExactSpatial", "ExactSpatial", tag="C20_trace", workers=1, env={"TRACE": tr, "VERDICT": vd}, timeout=900)
    v = json.load(open(vd))
    if v["lines"] != len(evs):
        raise MachineryError("ExactSpatial judge consumed %s of %d events" % (v["lines"], len(evs)))
    rej = set(v["rejected"])
    for k, (site, fn, detail, cid) in enumerate(meta, 1):
        if k in rej:
            j.fail("%s|%s|%s|rejected-by-TLC" % (PID, site, fn), dict(detail, got=evs[k - 1]["res"][:36]), cid)
        else:
            j.ok(cid)
    j.sample({"event": evs[7]})
    j.sample({"event": next(e for e in evs if e["fn"] == "inertia")})
    n_ev = len(evs)
    typed(j)
    cov = {"states": rj.distinct + rl.distinct, "transitions": rj.generated + rl.generated,
           "traces_validated_against_impl": n_ev, "events_judged_by_tlc": n_ev, "events_rejected": len(rej),
           "theorems_checked_by_tlc": 5, "typed_cases": j.evaluations - n_ev, "exhaustive": True,
           "rule": "case = (implementation site, spec operator, scale) | (left class, operator, right class, lengths)"}
    return {"judge": j, "coverage": cov, "level": "model_checking", "assumptions": [
        "integer 6-vectors (basis, random |x| <= 100, scales 1e-6 / 1 / 1e6), integer mass / centre / inertia, lattice and "
        "rational motions; each implementation map is polynomial in its arguments"]}


def replay(rp):
    for c in rp["cases"][:10]:
        print(c)
    return 0
