"""Replay of SeqMachine.tla behaviours through ONE live multi-valued object of the implementation.

A behaviour is a list of steps {call, post}: `post` is the exact value (list of Hom records) of the object after
the call.  Every step is executed on the live object with the public API, then EVERY value of the object is
compared with the exact one (1e-9 x scale), the class and the length are checked, operand objects are checked to be
unchanged, and after a divergence the object is re-synchronised from the specification so that the rest of the
behaviour is still examined.
"""
import numpy as np

import gamma

TOL = 1e-9
# operations a class does not have: the step is taken in the model only
NOT_OFFERED = {"UnitQuaternion": {"prod", "peek-prod"}, "Twist3": {"pow", "divr", "peek-divl"}, "Twist2": {"pow", "divr", "peek-divl"}}


def classes():
    from spatialmath import SE3, SO3, UnitQuaternion, SE2, SO2, Twist3, Twist2
    return {"SE3": SE3, "SO3": SO3, "UnitQuaternion": UnitQuaternion, "SE2": SE2, "SO2": SO2, "Twist3": Twist3, "Twist2": Twist2}


def obj(cname, homs, sigma=1.0):
    """a (multi-valued) object of class cname holding the spec values"""
    cls = classes()[cname]
    if not homs:
        return cls.Empty()
    if cname in ("Twist3", "Twist2"):
        # a twist object holding the logarithms of the spec values (the conversion itself is C03/C04's subject)
        pose = classes()["SE3" if cname == "Twist3" else "SE2"]
        tw = [cls(pose(gamma.expected(cname, h, sigma), check=False)).S for h in homs]
        return cls(tw) if len(tw) > 1 else cls(tw[0])
    arrs = [gamma.expected(cname, h, sigma) for h in homs]
    if cname == "UnitQuaternion":
        return cls(np.array(arrs)) if len(arrs) > 1 else cls(arrs[0])
    return cls(arrs, check=False) if len(arrs) != 1 else cls(arrs[0], check=False)


def values(x):
    return [np.asarray(a, dtype=float).copy() for a in x.data]


def same(cname, x, homs, sigma):
    """(ok, detail) - does object x hold exactly the spec values"""
    if type(x).__name__ != cname:
        return False, "class %s" % type(x).__name__
    if len(x) != len(homs):
        return False, "length %d instead of %d" % (len(x), len(homs))
    sc = max(1.0, gamma.tscale(*homs, sigma=sigma))
    for i, h in enumerate(homs):
        if cname in ("Twist3", "Twist2"):       # twists are compared through the motion they generate
            import spatialmath.base as b
            got = (b.trexp if cname == "Twist3" else b.trexp2)(np.asarray(x.data[i], dtype=float))
        else:
            got = np.asarray(x.data[i], dtype=float)
        d = gamma.distance(cname, got, gamma.expected(cname, h, sigma))
        if not d <= TOL * sc:
            return False, "value %d differs by %.3g" % (i, d)
    return True, ""


def apply(cname, x, call, sigma):
    """execute one call on the live object x; returns (new x, operand objects used, result of pop)"""
    op = call["op"]
    ys = obj(cname, call["ys"], sigma) if "ys" in call else None
    g = obj(cname, [call["g"]], sigma) if "g" in call else None
    res = None
    if op == "mulr":
        x = x * ys
    elif op == "mull":
        x = ys * x
    elif op == "divr":
        x = x / ys
    elif op == "inv":
        x = x.inv()
    elif op == "pow":
        x = x ** call["n"]
    elif op == "prod":
        x = x.prod()
    elif op == "append":
        x.append(g)
    elif op == "insert":
        x.insert(call["i"], g)
    elif op == "pop":
        res = x.pop(call["i"])
    elif op == "setitem":
        x[call["i"]] = g
    elif op == "getitem":
        x = x[call["i"]]
    elif op == "reverse":
        x.reverse()
    elif op == "extend":
        x.extend(ys)
    elif op == "slice":
        x = x[call["a"]:call["b"]]
    elif op == "slicerev":
        x = x[::-1]
    elif op == "peek-inv":
        res = x.inv()
    elif op == "peek-prod":
        res = x.prod()
    elif op == "peek-divl":
        res = g / x
    else:
        raise ValueError(op)
    return x, [o for o in (ys, g) if o is not None], res


def features(call, n):
    """abstract features of a call (for finding keys): operand length pattern, index sign/range"""
    f = []
    if "ys" in call:
        m = len(call["ys"])
        f.append("len(%s,%s)" % ("1" if n == 1 else "N", "1" if m == 1 else ("N" if m == n else "M")))
    if "i" in call:
        i = call["i"]
        f.append("i%s%s" % ("<0" if i < 0 else ">=0", "" if -n <= i < n else ";out-of-range"))
    if "n" in call:
        f.append("n=%d" % call["n"])
    return ";".join(f) or "-"


def replay(j, pid, cname, hist, sigma=1.0, site_prefix="seq"):
    """drive one behaviour; failures go to judge j with keys <pid>|seq.<op>|<class>;<features>|<mode>"""
    x = obj(cname, hist[0]["post"], sigma)
    prev = hist[0]["post"]
    for k, st in enumerate(hist[1:], 1):
        call, post = st["call"], st["post"]
        op = call["op"]
        feat = "%s;%s" % (cname, features(call, len(prev)))
        cid = (site_prefix, op, cname, features(call, len(prev)))
        site = "%s.%s" % (site_prefix, op)
        detail = {"kind": "behaviour-step", "class": cname, "step": k, "call": {a: b for a, b in call.items() if a not in ("ys", "g")},
                  "pre_len": len(prev), "sigma": sigma, "prefix": [s["call"]["op"] for s in hist[1:k]]}
        mode = None
        if op in NOT_OFFERED.get(cname, ()):
            j.skip("operation not offered by the class: step taken in the model only")
            x, prev = obj(cname, post, sigma), post
            continue
        try:
            x2, operands, res = apply(cname, x, call, sigma)
            snap = [values(o) for o in operands]
            raised = None
        except Exception as ex:  # noqa: BLE001
            raised = type(ex).__name__
            x2, operands, res = x, [], None
        if call.get("raises"):
            if raised is None:
                mode = "accepted-instead-of-raise"
            else:
                ok, why = same(cname, x, prev, sigma)
                if not ok:
                    mode = "receiver-changed-by-rejected-call"
                    detail["why"] = why
        elif raised is not None:
            mode = "raised-%s" % raised
        else:
            ok, why = same(cname, x2, post, sigma)
            if not ok:
                mode = "wrong-value-class-or-length"
                detail["why"] = why
            elif op.startswith("peek-"):
                okp, whyp = same(cname, res, call["val"], sigma)
                if not okp:
                    mode = "observed-value-wrong"
                    detail["why"] = whyp
            elif op == "pop":
                okp, whyp = same(cname, res, [call["res"]], sigma)
                if not okp:
                    mode = "pop-returned-wrong-value"
                    detail["why"] = whyp
            if mode is None:
                # operands unchanged (C17's frame condition, checked here because the objects are at hand)
                exp_ops = [call["ys"]] if "ys" in call else ([[call["g"]]] if "g" in call else [])
                for o, hs in zip(operands, exp_ops):
                    oko, whyo = same(cname, o, hs, sigma)
                    if not oko:
                        mode = "operand-changed"
                        detail["why"] = whyo
            if mode is None and op in ("mulr", "mull", "divr", "inv", "pow", "prod", "getitem", "slice", "slicerev") and x2 is not x:
                # a call that returns a NEW object leaves the receiver as it was
                okr, whyr = same(cname, x, prev, sigma)
                if not okr:
                    mode = "receiver-changed-by-non-mutating-call"
                    detail["why"] = whyr
        if mode:
            j.fail("%s|%s|%s|%s" % (pid, site, feat, mode), detail, cid)
            x = obj(cname, post, sigma)          # re-synchronise: the rest of the behaviour is still examined
        else:
            j.ok(cid, nontrivial=len(prev) > 1 or len(post) > 1)
            x = x2
        prev = post
