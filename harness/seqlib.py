"""Replay of SeqMachine.tla behaviours through ONE live multi-valued object of the implementation.

A behaviour is a list of steps {call, post}: `post` is the exact value (list of Hom records) of the object after
the call.  Every step is executed on the live object with the public API, then EVERY value of the object is
compared with the exact one (1e-9 x scale), the class and the length are checked, operand objects are checked to be
unchanged, and after a divergence the object is re-synchronised from the specification so that the rest of the
behaviour is still examined.
"""
import numpy as np

import gamma

TOL = 1e-9
# operations a class does not have: the step is taken in the model only
NOT_OFFERED = {"UnitQuaternion": {"prod", "peek-prod"}, "Twist3": {"pow", "divr", "peek-divl"}, "Twist2": {"pow", "divr", "peek-divl"}}


def classes():
    from spatialmath import SE3, SO3, UnitQuaternion, SE2, SO2, Twist3, Twist2
    return {"SE3": SE3, "SO3": SO3, "UnitQuaternion": UnitQuaternion, "SE2": SE2, "SO2": SO2, "Twist3": Twist3, "Twist2": Twist2}


def obj(cname, homs, sigma=1.0):
    """a (multi-valued) object of class cname holding the spec values"""
    cls = classes()[cname]
    if not homs:
        return cls.Empty()
    if cname in ("Twist3", "Twist2"):
        # a twist object holding the logarithms of the spec values (the conversion itself is C03/C04's subject)
        pose = classes()["SE3" if cname == "Twist3" else "SE2"]
        tw = [cls(pose(gamma.expected(cname, h, sigma), check=False)).S for h in homs]
        return cls(tw) if len(tw) > 1 else cls(tw[0])
    arrs = [gamma.expected(cname, h, sigma) for h in homs]
    if cname == "UnitQuaternion":
        return cls(np.array(arrs)) if len(arrs) > 1 else cls(arrs[0])
    return cls(arrs, check=False) if len(arrs) != 1 else cls(arrs[0], check=False)


def values(x):
    return [np.asarray(a, dtype=float).copy() for a in x.data]


def same(cname, x, homs, sigma):
    """(ok, detail) - does object x hold exactly the spec values"""
    if type(x).__name__ != cname:
        return False, "class %s" % type(x).__name__
    if len(x) != len(homs):
        return False, "length %d instead of %d" % (len(x), len(homs))
    sc = max(1.0, gamma.tscale(*homs, sigma=sigma))
    for i, h in enumerate(homs):
        if cname in ("Twist3", "Twist2"):       # twists are compared through the motion they generate
            import spatialmath.base as b
            got = (b.trexp if cname == "Twist3" else b.trexp2)(np.asarray(x.data[i], dtype=float))
        else:
            got = np.asarray(x.data[i], dtype=float)
        d = gamma.distance(cname, got, gamma.expected(cname, h, sigma))
        if not d <= TOL * sc:
            return False, "value %d differs by %.3g" % (i, d)
    return True, ""


# ---- observational equivalence with a fresh object ------------------------------------------------------------------
SKIP_MEMBERS = {"plot", "animate", "printline", "Rand", "append", "extend", "insert", "pop", "clear", "reverse", "remove",
                "sort", "copy", "count", "index", "stack", "data", "Alloc", "Empty"}


def _flat(v, depth=0):
    """a comparable numeric rendering of an accessor's value (None if it has none)"""
    if depth > 3:
        return None
    if hasattr(v, "data") and isinstance(getattr(v, "data"), list):
        return [_flat(a, depth + 1) for a in v.data]
    if isinstance(v, (list, tuple)):
        return [_flat(a, depth + 1) for a in v]
    if isinstance(v, (bool, np.bool_)):
        return float(v)
    if isinstance(v, (int, float, np.integer, np.floating)):
        return float(v)
    if isinstance(v, np.ndarray) and v.dtype.kind in "fiub":
        return v.astype(float)
    if hasattr(v, "vec") and hasattr(v, "__len__"):
        return np.asarray(v.vec, dtype=float)
    return None


def _close(a, b_, tol):
    if a is None or b_ is None:
        return True
    if isinstance(a, list) or isinstance(b_, list):
        return isinstance(a, list) and isinstance(b_, list) and len(a) == len(b_) and all(_close(x, y, tol) for x, y in zip(a, b_))
    a, b_ = np.asarray(a, dtype=float), np.asarray(b_, dtype=float)
    if a.shape != b_.shape:
        return False
    if a.size == 0:
        return True
    both_nan = np.isnan(a) & np.isnan(b_)
    same_inf = np.isinf(a) & np.isinf(b_) & (np.sign(a) == np.sign(b_))       # the same infinity is the same value
    with np.errstate(invalid="ignore"):
        near = np.isfinite(a) & np.isfinite(b_) & (np.abs(a - b_) <= tol * np.maximum(1.0, np.abs(b_)))
    return bool(np.all(both_nan | same_inf | near))


def fresh_equivalent(cname, x, homs, sigma):
    """every zero-argument accessor / method of the live object x returns what it returns on a FRESH object built from
    the same values (a stale cache, a value computed from earlier contents, ... shows up as a difference).
    Returns the name of the first member that differs, or None."""
    import inspect
    y = obj(cname, homs, sigma)
    y.data = [np.array(a, copy=True) for a in x.data]           # bit-identical contents, no history
    C = type(x)
    for name in sorted(a for a in dir(C) if not a.startswith("_") and a not in SKIP_MEMBERS):
        try:
            attr = inspect.getattr_static(C, name)
        except AttributeError:
            continue
        if isinstance(attr, (classmethod, staticmethod)):
            continue
        res = []
        for o in (y, x):
            try:
                v = getattr(o, name)
                if not isinstance(attr, property):
                    if not callable(v):
                        res.append(("skip", None))
                        continue
                    sig = inspect.signature(v)
                    if [p for p in sig.parameters.values()
                            if p.default is inspect._empty and p.kind in (p.POSITIONAL_ONLY, p.POSITIONAL_OR_KEYWORD)]:
                        res.append(("skip", None))
                        continue
                    v = v()
                res.append(("val", _flat(v)))
            except Exception as ex:  # noqa: BLE001
                res.append(("raise", type(ex).__name__))
        (k1, v1), (k2, v2) = res
        if k1 == "skip" or k2 == "skip":
            continue
        if k1 != k2 or (k1 == "raise" and v1 != v2) or (k1 == "val" and not _close(v2, v1, 1e-9)):
            return name
    return None


def apply(cname, x, call, sigma):
    """execute one call on the live object x; returns (new x, operand objects used, result of pop)"""
    op = call["op"]
    ys = obj(cname, call["ys"], sigma) if "ys" in call else None
    g = obj(cname, [call["g"]], sigma) if "g" in call else None
    res = None
    if op == "mulr":
        x = x * ys
    elif op == "mull":
        x = ys * x
    elif op == "divr":
        x = x / ys
    elif op == "inv":
        x = x.inv()
    elif op == "pow":
        x = x ** call["n"]
    elif op == "prod":
        x = x.prod()
    elif op == "append":
        x.append(g)
    elif op == "insert":
        x.insert(call["i"], g)
    elif op == "pop":
        res = x.pop(call["i"])
    elif op == "setitem":
        x[call["i"]] = g
    elif op == "getitem":
        x = x[call["i"]]
    elif op == "reverse":
        x.reverse()
    elif op == "extend":
        x.extend(ys)
    elif op == "slice":
        x = x[call["a"]:call["b"]]
    elif op == "slicerev":
        x = x[::-1]
    elif op == "peek-inv":
        res = x.inv()
    elif op == "peek-prod":
        res = x.prod()
    elif op == "peek-divl":
        res = g / x
    else:
        raise ValueError(op)
    return x, [o for o in (ys, g) if o is not None], res


def features(call, n):
    """abstract features of a call (for finding keys): operand length pattern, index sign/range"""
    f = []
    if "ys" in call:
        m = len(call["ys"])
        f.append("len(%s,%s)" % ("1" if n == 1 else "N", "1" if m == 1 else ("N" if m == n else "M")))
    if "i" in call:
        i = call["i"]
        f.append("i%s%s" % ("<0" if i < 0 else ">=0", "" if -n <= i < n else ";out-of-range"))
    if "n" in call:
        f.append("n=%d" % call["n"])
    return ";".join(f) or "-"


def replay(j, pid, cname, hist, sigma=1.0, site_prefix="seq", fresh=True):
    """drive one behaviour; failures go to judge j with keys <pid>|seq.<op>|<class>;<features>|<mode>"""
    x = obj(cname, hist[0]["post"], sigma)
    prev = hist[0]["post"]
    for k, st in enumerate(hist[1:], 1):
        call, post = st["call"], st["post"]
        op = call["op"]
        feat = "%s;%s" % (cname, features(call, len(prev)))
        cid = (site_prefix, op, cname, features(call, len(prev)))
        site = "%s.%s" % (site_prefix, op)
        detail = {"kind": "behaviour-step", "class": cname, "step": k, "call": {a: b for a, b in call.items() if a not in ("ys", "g")},
                  "pre_len": len(prev), "sigma": sigma, "prefix": [s["call"]["op"] for s in hist[1:k]]}
        mode = None
        if op in NOT_OFFERED.get(cname, ()):
            j.skip("operation not offered by the class: step taken in the model only")
            x, prev = obj(cname, post, sigma), post
            continue
        try:
            x2, operands, res = apply(cname, x, call, sigma)
            snap = [values(o) for o in operands]
            raised = None
        except Exception as ex:  # noqa: BLE001
            raised = type(ex).__name__
            x2, operands, res = x, [], None
        if call.get("raises"):
            if raised is None:
                mode = "accepted-instead-of-raise"
            else:
                ok, why = same(cname, x, prev, sigma)
                if not ok:
                    mode = "receiver-changed-by-rejected-call"
                    detail["why"] = why
        elif raised is not None:
            mode = "raised-%s" % raised
        else:
            ok, why = same(cname, x2, post, sigma)
            if not ok:
                mode = "wrong-value-class-or-length"
                detail["why"] = why
            elif op.startswith("peek-"):
                okp, whyp = same(cname, res, call["val"], sigma)
                if not okp:
                    mode = "observed-value-wrong"
                    detail["why"] = whyp
            elif op == "pop":
                okp, whyp = same(cname, res, [call["res"]], sigma)
                if not okp:
                    mode = "pop-returned-wrong-value"
                    detail["why"] = whyp
            if mode is None:
                # operands unchanged (C17's frame condition, checked here because the objects are at hand)
                exp_ops = [call["ys"]] if "ys" in call else ([[call["g"]]] if "g" in call else [])
                for o, hs in zip(operands, exp_ops):
                    oko, whyo = same(cname, o, hs, sigma)
                    if not oko:
                        mode = "operand-changed"
                        detail["why"] = whyo
            if mode is None and op in ("mulr", "mull", "divr", "inv", "pow", "prod", "getitem", "slice", "slicerev") and x2 is not x:
                # a call that returns a NEW object leaves the receiver as it was
                okr, whyr = same(cname, x, prev, sigma)
                if not okr:
                    mode = "receiver-changed-by-non-mutating-call"
                    detail["why"] = whyr
        if mode:
            j.fail("%s|%s|%s|%s" % (pid, site, feat, mode), detail, cid)
            x = obj(cname, post, sigma)          # re-synchronise: the rest of the behaviour is still examined
        else:
            j.ok(cid, nontrivial=len(prev) > 1 or len(post) > 1)
            x = x2
            if fresh and len(post) >= 1 and k % 3 == 0:
                # the live object (with its history) is observationally equivalent to a fresh object with the same values
                bad = fresh_equivalent(cname, x, post, sigma)
                cidf = (site_prefix, "fresh-equivalence", cname)
                if bad:
                    j.fail("%s|%s.%s|%s;after=%s|differs-from-fresh-object-with-same-values" % (pid, cname, bad, cname, op),
                           dict(detail, member=bad), cidf)
                    x = obj(cname, post, sigma)
                else:
                    j.ok(cidf)
        prev = post
