"""C17 - functions and operators never modify their arguments; calls are deterministic.

Spec: SpatialMath.tla - the heap machine.  Its action property C17_Frame says that a step changes
no object but its designated target (only list mutators, augmented assignment and drop designate
one); TLC checks it on the model (exhaustive small heap) and generates long behaviours in which
results of calls flow into later calls.  Conformance: (a) every entry of the Api table in every
container form - argument bytes before/after, two calls give equal results; (b) every cell of the
operator table - both operands unchanged; (c) every public method / property of every class found
by reflection, on single- and multi-valued receivers; (d) heap behaviours replayed on live objects
with the content hash of EVERY live object compared after every step.
"""
import hashlib
import inspect
import json
import operator
import os
import random
import sys

import numpy as np

import common
from common import Judge, MachineryError, run_tlc
import apilib as al
import elems
import c08
import c09

PID = "C17"


def snap(x, depth=0):
    """bit-for-bit snapshot of an argument (recursive for containers and library objects)"""
    if isinstance(x, np.ndarray):
        return ("nd", x.shape, x.dtype.str, x.tobytes())
    if isinstance(x, (list, tuple)):
        return (type(x).__name__, tuple(snap(v, depth + 1) for v in x))
    if hasattr(x, "data") and isinstance(getattr(x, "data"), list):
        # the values, and every other instance attribute (a hidden cursor or cache written by a read is a modification)
        extra = tuple((k, snap(v, depth + 1) if isinstance(v, (np.ndarray, list, tuple)) else repr(v)[:80])
                      for k, v in sorted(vars(x).items()) if k != "data")
        return ("obj", type(x).__name__, tuple(snap(v, depth + 1) for v in x.data), extra)
    if hasattr(x, "real") and hasattr(x, "dual") and type(x).__name__.endswith("DualQuaternion"):
        # attribute by attribute, with the class of each part (re-binding a part to an object of another class is a
        # modification of the receiver even when the numbers agree)
        return ("dq", type(x).__name__, tuple((k, type(v).__name__, snap(v, depth + 1)) for k, v in sorted(vars(x).items())))
    return ("py", repr(x))


def same_result(a, b):
    fa, fb = al.flat(a), al.flat(b)
    if fa is None or fb is None:
        return (a is None and b is None) or repr(a) == repr(b)
    if len(fa) != len(fb):
        return False
    for x, y in zip(fa, fb):
        if x.shape != y.shape:
            return False
        if x.dtype.kind not in "fiubc" or y.dtype.kind not in "fiubc":
            if repr(x.tolist()) != repr(y.tolist()):
                return False
        elif not np.array_equal(x, y, equal_nan=True):
            return False
    return True


# ---- (a) Api entries ----------------------------------------------------------------------

def api_part(j, cases):
    seen = set()
    for e in cases:
        c = e["call"]
        if c["op"] != "vec":
            continue
        name, k, form, n, et = c["name"], c["arg"] - 1, c["form"], c["len"], c["et"]
        if k >= c["nargs"] or (e["expect"] == "reject" and n not in (0, 5)):
            continue
        key = (name, k, form, n, et)
        if key in seen:
            continue
        seen.add(key)
        args = []
        for i in range(c["nargs"]):
            if i == k:
                args.append(al.shape(al.vec(i, n, et, name), form))
            else:
                args.append(np.array(al.vec(i, c["deflen"][i], "float", name)))
        before = [snap(a) for a in args]
        cid = (name, form)
        feat = "arg%d;%s;len=%d;%s" % (k + 1, form, n, et)
        try:
            r1 = al.VEC[name](*args)
            err1 = None
        except Exception as ex:  # noqa: BLE001
            r1, err1 = None, type(ex).__name__
        after = [snap(a) for a in args]
        if before != after:
            which = [i + 1 for i, (x, y) in enumerate(zip(before, after)) if x != y]
            j.fail("%s|%s|%s|argument-modified" % (PID, name, feat), {"kind": "api", "call": c, "args_changed": which}, cid)
            continue
        try:
            r2 = al.VEC[name](*args)
            err2 = None
        except Exception as ex:  # noqa: BLE001
            r2, err2 = None, type(ex).__name__
        if err1 != err2 or (err1 is None and not same_result(r1, r2)):
            j.fail("%s|%s|%s|not-deterministic" % (PID, name, feat), {"kind": "api", "call": c}, cid)
        else:
            j.ok(cid, nontrivial=True)
    return len(seen)


def matrix_part(j, cases):
    """matrix-argument entries: every matrix handed in is bit-for-bit unchanged; results repeatable;
    results that are library objects must not share storage with the arguments (later mutation of the
    caller's array would change the object)"""
    n = 0
    for e in cases:
        c = e["call"]
        if c["op"] != "mat":
            continue
        name, kind = c["name"], c["kind"]
        cid = (name, "matrix", kind)
        m = al._mats(kind)
        before = {k: snap(v) for k, v in m.items()}
        try:
            r1, args = al.MAT[name](m)
        except Exception as ex:  # noqa: BLE001
            j.skip("matrix entry raised (%s): owned by other properties" % type(ex).__name__)
            j.count("matrix_entry_raised_" + name)
            continue
        n += 1
        after = {k: snap(v) for k, v in m.items()}
        if before != after:
            j.fail("%s|%s|matrix;%s|argument-modified" % (PID, name, kind),
                   {"kind": "matrix", "name": name, "matkind": kind, "changed": [k for k in m if before[k] != after[k]]}, cid)
            continue
        m2 = al._mats(kind)
        try:
            r2, _ = al.MAT[name](m2)
        except Exception:  # noqa: BLE001
            r2 = None
        if not same_result(r1, r2):
            j.fail("%s|%s|matrix;%s|not-deterministic" % (PID, name, kind), {"kind": "matrix", "name": name, "matkind": kind}, cid)
        else:
            j.ok(cid)
    return n


# ---- (b) operator table ---------------------------------------------------------------------

def operator_part(j, cells):
    seen = set()
    for e in cells:
        op, L, R = e["op"], e["l"], e["r"]
        key = (op, L["c"], L["n"], R["c"], R["n"])
        if key in seen:
            continue
        seen.add(key)
        a = c08.make(L["c"], L["n"], 1)
        b = c08.make(R["c"], R["n"], 11, left_kind=L["c"])
        if a is None or b is None:
            continue
        sa, sb = snap(a), snap(b)
        for fn_name, fn in (("op", c08.OPS[op]), ("iop", {"*": operator.imul, "/": operator.itruediv,
                                                             "+": operator.iadd, "-": operator.isub}.get(op))):
            if fn is None:
                continue
            aa, bb = a, b
            try:
                r1 = fn(aa, bb)
            except Exception:  # noqa: BLE001
                r1 = "raise"
            cid = (op, L["c"], R["c"], fn_name)
            site = "%s%s%s" % (L["c"], ("__or__" if op == "|" else op) + ("=" if fn_name == "iop" else ""), "")
            feat = "%s;len(%d,%d)" % (R["c"], L["n"], R["n"])
            changed = []
            if snap(b) != sb:
                changed.append("right")
            # the statement protects both operands of binary operators and the RIGHT operand of
            # augmented ones (the left one is the assignment target)
            if fn_name == "op" and snap(a) != sa:
                changed.append("left")
            if changed:
                j.fail("%s|%s|%s|operand-modified-%s" % (PID, site, feat, "+".join(changed)),
                       {"kind": "operator", "op": op, "l": L, "r": R, "aug": fn_name == "iop"}, cid)
                a = c08.make(L["c"], L["n"], 1)
                b = c08.make(R["c"], R["n"], 11, left_kind=L["c"])
                sa, sb = snap(a), snap(b)
                continue
            try:
                r2 = fn(a, b)
            except Exception:  # noqa: BLE001
                r2 = "raise"
            if (isinstance(r1, str) != isinstance(r2, str)) or (not isinstance(r1, str) and not same_result(r1, r2)):
                j.fail("%s|%s|%s|not-deterministic" % (PID, site, feat),
                       {"kind": "operator", "op": op, "l": L, "r": R}, cid)
            else:
                j.ok(cid)
    return len(seen)


def method_part(j, cases):
    """every cell of the per-value method / broadcasting table (Dispatch, the cases of C09): methods that take
    arguments and keyword options (interp with start / dest / shortest, angle accessors with unit and order, the
    conversions) with single- and multi-valued receivers; receiver, operands and keyword objects unchanged, and the
    same call evaluated twice returns the same thing"""
    seen = set()
    for e in cases:
        key = (e["op"], e["l"]["c"], e["l"]["n"], e["r"]["c"], e["r"]["n"], e["r"].get("opt", ""))
        if key in seen:
            continue
        seen.add(key)
        try:
            full, one, operands = c09.build_call(e)
        except Exception:  # noqa: BLE001  (cells whose operands cannot be built are other properties' subject)
            continue
        before = [snap(o) for o in operands]
        try:
            r1 = full()
        except Exception:  # noqa: BLE001
            r1 = "raise"
        op, opt = e["op"], e["r"].get("opt", "")
        cid = ("method", op, e["l"]["c"], opt)
        site = "%s.%s" % (e["l"]["c"], "__or__" if op == "|" else op)
        feat = "%s%s;len(%d,%d)" % (e["r"]["c"], ("[" + opt + "]") if opt else "", e["l"]["n"], e["r"]["n"])
        after = [snap(o) for o in operands]
        if after != before:
            which = [i for i, (x, y) in enumerate(zip(before, after)) if x != y]
            j.fail("%s|%s|%s|operand-modified" % (PID, site, feat), {"kind": "method", "case": e, "operands_changed": which}, cid)
            continue
        try:
            r2 = full()
        except Exception:  # noqa: BLE001
            r2 = "raise"
        if (isinstance(r1, str) != isinstance(r2, str)) or (not isinstance(r1, str) and not same_result(r1, r2)):
            j.fail("%s|%s|%s|not-deterministic" % (PID, site, feat), {"kind": "method", "case": e}, cid)
        else:
            j.ok(cid)
    return len(seen)


def dq_part(j):
    """dual quaternions (no list interface): every public member and operator, on receivers obtained in every
    documented way (from a pose, from two quaternions, as results of products) - receiver and operands unchanged"""
    from spatialmath import SE3, Quaternion, UnitQuaternion
    from spatialmath.DualQuaternion import DualQuaternion, UnitDualQuaternion
    import spatialmath.base as b

    def receivers():
        T = SE3(1, 2, 3) * SE3.Rx(0.3) * SE3.Ry(-0.5)
        u = UnitDualQuaternion(T)
        out = {"UnitDualQuaternion(SE3)": u,
               "UnitDualQuaternion(Quaternion,Quaternion)": UnitDualQuaternion(Quaternion(u.real.vec), Quaternion(u.dual.vec)),
               "UnitDualQuaternion(UnitQuaternion,Quaternion)": UnitDualQuaternion(UnitQuaternion(u.real.vec), Quaternion(u.dual.vec)),
               "DualQuaternion(Quaternion,Quaternion)": DualQuaternion(Quaternion([1, 2, 3, 4]), Quaternion([0.5, -1, 2, 0.25])),
               "DualQuaternion.Pure": DualQuaternion.Pure([1.0, -2.0, 0.5]),
               "UnitDualQuaternion*UnitDualQuaternion": u * UnitDualQuaternion(SE3(0, 1, -1) * SE3.Rz(1.1)),
               "UnitDualQuaternion*DualQuaternion": u * DualQuaternion(Quaternion(b.unit([1, 2, 3, 4])), Quaternion([0, 0, 0, 0])),
               "DualQuaternion.conj": DualQuaternion(Quaternion([1, 2, 3, 4]), Quaternion([0.5, -1, 2, 0.25])).conj(),
               "UnitDualQuaternion.conj": u.conj()}
        return out
    n = 0
    names0 = sorted(receivers())
    for rname in names0:
        x0 = receivers()[rname]
        members = [a for a in dir(type(x0)) if not a.startswith("_")] + ["__repr__", "__str__"]
        for name in members:
            attr = inspect.getattr_static(type(x0), name, None)
            if isinstance(attr, (classmethod, staticmethod)):
                continue
            x = receivers()[rname]
            before = snap(x)
            cid = ("dq", type(x).__name__, name)
            try:
                v = getattr(x, name)
                if callable(v):
                    v()
            except Exception:  # noqa: BLE001
                pass
            n += 1
            if snap(x) != before:
                j.fail("%s|%s.%s|%s|receiver-modified" % (PID, type(x).__name__, name, rname), {"kind": "dq", "receiver": rname, "member": name}, cid)
            else:
                j.ok(cid)
        for oname, fn in (("*", operator.mul), ("+", operator.add), ("-", operator.sub)):
            for rname2 in names0:
                x, y = receivers()[rname], receivers()[rname2]
                bx, by = snap(x), snap(y)
                cid = ("dq", type(x).__name__, oname, type(y).__name__)
                try:
                    fn(x, y)
                except Exception:  # noqa: BLE001
                    pass
                n += 1
                if snap(x) != bx or snap(y) != by:
                    j.fail("%s|%s%s|%s;%s|operand-modified" % (PID, type(x).__name__, oname, rname, rname2),
                           {"kind": "dq", "left": rname, "right": rname2, "op": oname}, cid)
                else:
                    j.ok(cid)
    return n


def option_part(j):
    """keyword options must not stick: m() ; m(option=other value) ; m() - the first and the third call return the
    same thing and nothing process-wide has changed.  Every public method of every class whose keyword parameters
    have simple defaults (display methods with unit / fmt / label / orient, angle accessors with unit / order ...)"""
    import contextlib
    import io
    alts = {"unit": ["deg", "rad"], "units": ["deg", "rad"], "order": ["xyz", "zyx"], "fmt": ["{:.3f}", "{:10.5g}"], "label": ["X", None],
            "orient": ["eul", "angvec"], "flip": [True], "twist": [True], "check": [False], "tol": [50], "file": [None]}
    n = 0
    for cname in elems.MAIN8 + elems.EXTRA:
        C = elems.CLS[cname]
        for name in sorted(a for a in dir(C) if not a.startswith("_") and a not in ("plot", "animate", "Rand") and a not in MUTATORS):
            attr = inspect.getattr_static(C, name, None)
            if isinstance(attr, (property, classmethod, staticmethod)) or not callable(getattr(C, name, None)):
                continue
            try:
                sig = inspect.signature(getattr(C, name))
            except (TypeError, ValueError):
                continue
            params = [p for p in list(sig.parameters.values())[1:]]
            if any(p.default is inspect._empty and p.kind in (p.POSITIONAL_ONLY, p.POSITIONAL_OR_KEYWORD) for p in params):
                continue
            takes_kwargs = any(p.kind == p.VAR_KEYWORD for p in params)
            base_kw = {"file": None} if ("file" in sig.parameters or (takes_kwargs and name in ("printline", "strline"))) else {}
            variants = [{**base_kw, p.name: v} for p in params if p.name in alts and p.name != "file" for v in alts[p.name]]
            if takes_kwargs:
                variants += [{**base_kw, k: v[0]} for k, v in alts.items() if k not in ("check", "tol", "file", "flip", "twist")]
            if not variants:
                continue
            for m in (1, 2):
                x = elems.inject(cname, list(range(1, m + 1)))
                cid = ("options", cname, name)
                with contextlib.redirect_stdout(io.StringIO()):
                    g0 = global_state()
                    try:
                        r1 = getattr(x, name)(**base_kw)
                    except Exception:  # noqa: BLE001
                        continue
                    for kw in variants:
                        try:
                            getattr(x, name)(**kw)
                        except Exception:  # noqa: BLE001
                            pass
                    try:
                        r2 = getattr(x, name)(**base_kw)
                        err = None
                    except Exception as ex:  # noqa: BLE001
                        r2, err = None, type(ex).__name__
                n += 1
                if global_state() != g0:
                    j.fail("%s|%s.%s|len=%d;after-calls-with-options|process-wide-state-changed" % (PID, cname, name, m),
                           {"kind": "options", "cls": cname, "member": name, "options": [sorted(k) for k in variants]}, cid)
                    np.set_printoptions(**_PRINT0)
                elif err is not None or not same_result(r1, r2):
                    j.fail("%s|%s.%s|len=%d;after-calls-with-options|same-call-returns-something-else" % (PID, cname, name, m),
                           {"kind": "options", "cls": cname, "member": name, "first": repr(r1)[:200], "again": repr(r2)[:200]}, cid)
                else:
                    j.ok(cid)
    return n


# ---- (c) reflection over methods and properties ------------------------------------------------

SKIP_METHODS = {"plot", "animate", "printline", "Rand", "append", "extend", "insert", "pop", "clear", "reverse",
                "remove", "sort", "copy", "count", "index", "stack"}
MUTATORS = {"append", "extend", "insert", "pop", "clear", "reverse", "remove", "sort"}


def _special_so3():
    import gamma
    import math as _m
    u = np.array([0.6, 0.0, 0.8])
    return [np.eye(3), gamma.rotx(_m.pi), 2 * np.outer(u, u) - np.eye(3)]


def _special_se3():
    out = []
    for k, R in enumerate(_special_so3()):
        T = np.eye(4)
        T[:3, :3] = R
        T[:3, 3] = [k, -1.0, 2.0]
        out.append(T)
    return out


SPECIAL = {"SO3": _special_so3, "SE3": _special_se3,
           "UnitQuaternion": lambda: [np.array([1.0, 0, 0, 0]), np.array([0.0, 1, 0, 0]), np.array([0.0, 0.6, 0, 0.8])],
           "SO2": lambda: [np.eye(2), -np.eye(2), np.array([[0.0, -1], [1, 0]])],
           "SE2": lambda: [np.eye(3), np.array([[-1.0, 0, 1], [0, -1, 2], [0, 0, 1]]), np.array([[0.0, -1, 0], [1, 0, 3], [0, 0, 1]])]}


_PRINT0 = dict(np.get_printoptions())


_LIB = {}


def _library_classes():
    import spatialmath
    import spatialmath.base
    if "classes" in _LIB:
        return _LIB["classes"]
    out = _LIB.setdefault("classes", [])
    for modname, mod in sorted(sys.modules.items()):
        if not modname.startswith("spatialmath") or mod is None:
            continue
        for name, obj in sorted(vars(mod).items()):
            if inspect.isclass(obj) and getattr(obj, "__module__", "").startswith("spatialmath") and obj not in out:
                out.append(obj)
    return out


def class_state():
    """class-level and module-level mutable data of the library (dicts, lists, sets, arrays): defaults kept there are
    shared by every object, so a call that changes them changes what LATER calls return"""
    items = []
    for C in _library_classes():
        for k, v in sorted(vars(C).items()):
            if isinstance(v, (dict, list, set, np.ndarray)) and not k.startswith("__"):
                items.append((C.__name__, k, repr(v)[:400]))
    if "modules" not in _LIB:
        _LIB["modules"] = [(n, m) for n, m in sorted(sys.modules.items()) if n.startswith("spatialmath") and m is not None]
    for modname, mod in _LIB["modules"]:
        if True:
            for k, v in sorted(vars(mod).items()):
                if isinstance(v, (dict, list, set)) and not k.startswith("__") and k != "__all__":
                    items.append((modname, k, repr(v)[:400]))
    return repr(items)


def global_state():
    """process-wide state a library call could leave changed (then the SAME call later returns something else)"""
    return repr(sorted(np.get_printoptions().items(), key=lambda kv: kv[0])) + repr(sorted(np.geterr().items())) + class_state()


def reflection_part(j):
    n = 0
    for cname in elems.MAIN8 + elems.EXTRA + ["SpatialInertia"]:
        C = elems.CLS[cname]
        for m in (0, 1, 2, 3):
            names = [a for a in dir(C) if not a.startswith("_")] + ["__repr__", "__str__", "__len__", "__iter__", "__neg__"]
            for name in names:
                if name in SKIP_METHODS:
                    continue
                x = elems.inject(cname, list(range(1, m + 1)))
                special = SPECIAL.get(cname)
                if special is not None and m == 3:
                    x.data = [a.copy() for a in special()]         # identity / quarter / half turn values
                before = snap(x)
                g0 = global_state()
                try:
                    attr = inspect.getattr_static(C, name)
                except AttributeError:
                    continue
                kind = "property" if isinstance(attr, property) else "method"
                if isinstance(attr, (classmethod, staticmethod)):
                    continue
                cid = (cname, name)
                try:
                    v = getattr(x, name)
                    if kind == "method":
                        if not callable(v):
                            continue
                        sig = inspect.signature(v)
                        req = [p for p in sig.parameters.values()
                               if p.default is inspect._empty and p.kind in (p.POSITIONAL_ONLY, p.POSITIONAL_OR_KEYWORD)]
                        if req:
                            continue
                        v()
                except Exception:  # noqa: BLE001  (crashes are other properties' subject)
                    pass
                n += 1
                if global_state() != g0:
                    j.fail("%s|%s.%s|len=%d|process-wide-state-changed" % (PID, cname, name, m),
                           {"kind": "reflection", "cls": cname, "member": name, "len": m,
                            "printoptions": {k: str(v) for k, v in np.get_printoptions().items()}}, cid)
                    np.set_printoptions(**_PRINT0)
                    continue
                if snap(x) != before:
                    j.fail("%s|%s.%s|len=%d|receiver-modified" % (PID, cname, name, m),
                           {"kind": "reflection", "cls": cname, "member": name, "len": m}, cid)
                else:
                    j.ok(cid)
    return n


# ---- (d) heap-machine behaviours ---------------------------------------------------------------

class Arr:
    """a plain array argument held in the heap (a 2-vector and a 3-vector, used as fits)"""
    def __init__(self):
        self.v = {2: np.array([1.5, -2.0]), 3: np.array([1.5, -2.0, 0.5])}

    def pick(self, lcls):
        return self.v[2 if lcls in ("SO2", "SE2", "Twist2") else 3]


def hsnap(o):
    if isinstance(o, Arr):
        return ("arr", snap(o.v[2]), snap(o.v[3]))
    return snap(o)


def replay_heap(j, h, rng):
    import c04
    objs = {}
    nid = [1]

    def fresh(n):
        ids = list(range(nid[0], nid[0] + n))
        nid[0] += n
        if nid[0] > 250:
            nid[0] = 1
        return ids

    for k, st in enumerate(h):
        call, heap = st["call"], st["heap"]
        op = call["op"]
        before = {i: hsnap(o) for i, o in objs.items()}
        res = None
        raised = None
        try:
            if op == "new":
                res = elems.inject(call["cls"], fresh(call["n"]))
            elif op == "newarray":
                res = Arr()
            elif op in ("binop", "augop"):
                a, b = objs[call["l"]], objs[call["r"]]
                bb = b.pick(type(a).__name__) if isinstance(b, Arr) else b
                if op == "binop":
                    res = c08.OPS[call["o"]](a, bb)
                else:
                    res = {"*": operator.imul, "/": operator.itruediv}[call["o"]](a, bb)
            elif op == "method":
                res = getattr(objs[call["l"]], call["f"])()
            elif op == "accessor":
                c09.call_unary(objs[call["l"]], call["f"])
            elif op == "convert":
                x = objs[call["l"]]
                res = c04.convert(type(x).__name__, call["to"], x, k % 2 == 0)
            elif op == "append":
                objs[call["l"]].append(objs[call["r"]])
            elif op == "extend":
                objs[call["l"]].extend(objs[call["r"]])
            elif op == "setitem0":
                objs[call["l"]][0] = objs[call["r"]]
            elif op == "pop":
                res = objs[call["l"]].pop()
            elif op == "reverse":
                objs[call["l"]].reverse()
            elif op == "getitem-1":
                res = objs[call["l"]][-1]
            elif op == "slice-rev":
                res = objs[call["l"]][::-1]
            elif op == "copy":
                x = objs[call["l"]]
                res = type(x)(x)
            elif op == "drop":
                del objs[call["l"]]
        except Exception as ex:  # noqa: BLE001
            raised = type(ex).__name__
        site = "heap." + op + ("[" + call["o"] + "]" if "o" in call else "[" + call["f"] + "]" if "f" in call else "")
        cid = ("heap", op, call.get("o") or call.get("f") or "")
        # outcome kind first: a step that raises / returns against the model is owned by C08 / C10
        exp_raise = call.get("raises") or (op == "binop" and call["exp"]["k"] == "raise")
        if raised is not None and not exp_raise:
            j.skip("call raised where the model expects a value (reported by the owning property)")
            return False
        if raised is None and exp_raise:
            j.skip("call returned where the model expects an exception (reported by C08/C10)")
            return False
        # frame: every live object other than the designated target is bit-for-bit unchanged
        changed = [i for i, s in before.items() if i in objs and i not in (call.get("mut"), ) and hsnap(objs[i]) != s]
        if op == "augop":
            pass            # the name l is rebound below; the OLD object must be unchanged too (checked above via mut)
        if changed:
            lcls = [type(objs[i]).__name__ for i in changed]
            j.fail("%s|%s|%s|other-object-modified" % (PID, site, ",".join(sorted(set(lcls)))),
                   {"kind": "heap", "step": k, "call": call, "changed_ids": changed,
                    "program": [s["call"] for s in h[:k + 1]]}, cid)
            return False
        if op == "augop" and raised is None:
            objs[call["l"]] = res
        elif res is not None and call.get("res"):
            if hasattr(res, "data") or isinstance(res, Arr):
                objs[call["res"]] = res
        # the spec's prediction of class and length of every live object (C08/C09/C10 at system level)
        for i, rec in enumerate(heap, 1):
            if rec["cls"] in ("none", "array"):
                continue
            o = objs.get(i)
            if o is None or type(o).__name__ != rec["cls"] or len(o.data) != rec["n"]:
                j.skip("object class/length differs from the model (reported by the owning property)")
                return False
        j.ok(cid)
    return True


def run(tier):
    j = Judge(PID)
    thorough = tier == "thorough"
    rng = random.Random(common.seed() + 8)
    ra = run_tlc("MC_Api", "Api", timeout=300)
    n_api = api_part(j, [e for e in ra.json if "call" in e])
    n_api += matrix_part(j, [e for e in ra.json if "call" in e])
    rd = run_tlc("MC_Dispatch", "Dispatch_c08", timeout=300)
    n_op = operator_part(j, rd.json)
    rd9 = run_tlc("MC_Dispatch", "Dispatch_c09", timeout=300)
    n_meth = method_part(j, rd9.json)
    n_ref = reflection_part(j)
    n_ref += dq_part(j)
    n_ref += option_part(j)
    rsmall = run_tlc("MC_SpatialMath", "SpatialMath_small", timeout=900)
    nsim = 400 if thorough else 50
    rs = run_tlc("MC_SpatialMath", "SpatialMath_sim", workers=1, simulate=nsim, depth=26,
                 seed_=common.seed() + 31, timeout=1800)
    if len(rs.json) < nsim // 2:
        raise MachineryError("heap simulation produced %d behaviours" % len(rs.json))
    complete = 0
    for h in rs.json:
        if replay_heap(j, h, rng):
            complete += 1
    j.sample({"heap-program": [s["call"] for s in rs.json[0][:8]]})
    # (e) value semantics: objects derived from one another (indexing, slicing, construction from objects, append /
    # extend / insert) and then mutated through the list interface - exhaustive short behaviours of Sharing.tla,
    # EVERY live object compared after EVERY step
    import sharelib
    rsh = run_tlc("Sharing", "Sharing", stream=True, timeout=900)
    shclasses = (elems.MAIN8 + elems.EXTRA) if thorough else ["SE3", "UnitQuaternion", "Twist3", "SO2", "SpatialVelocity", "Plucker"]
    n_sh, seen_sh = 0, set()
    for h in rsh.iter_json():
        key = json.dumps([st["call"] for st in h], sort_keys=True)
        if key in seen_sh:
            continue
        seen_sh.add(key)
        # quick: each behaviour in one class (rotating); thorough: in every class
        for cname in (shclasses if thorough else [shclasses[n_sh % len(shclasses)]]):
            sharelib.replay(j, PID, cname, h, fresh=(n_sh % 23 == 0))
        n_sh += 1
    if n_sh < 20000:
        raise MachineryError("sharing export too small: %d" % n_sh)
    n_sh4 = 0
    if thorough:
        # depth 4 (2.7 M behaviours): every 12th behaviour, classes rotating
        rsh4 = run_tlc("Sharing", "Sharing_d4", stream=True, timeout=3600)
        for k, h in enumerate(rsh4.iter_json()):
            if k % 12:
                continue
            sharelib.replay(j, PID, elems.MAIN8[n_sh4 % len(elems.MAIN8)], h)
            n_sh4 += 1
        try:
            os.remove(rsh4.out_path)          # ~1 GB of exported behaviours
        except OSError:
            pass
    cov = {"states": ra.distinct + rd.distinct + rsmall.distinct + rsh.distinct,
           "transitions": ra.generated + rd.generated + rsmall.generated + rs.generated + rsh.generated,
           "traces_validated_against_impl": n_api + n_op + n_meth + n_ref + len(rs.json) + n_sh,
           "sharing_behaviours_depth3": n_sh, "sharing_behaviours_depth4_sampled": n_sh4,
           "api_calls": n_api, "operator_cells": n_op, "method_cells": n_meth, "reflected_members": n_ref,
           "heap_behaviours": len(rs.json), "heap_behaviours_replayed_to_the_end": complete,
           "heap_model_small_exhaustive": rsmall.stats(),
           "rule": "case = (callable, container form) | (operator, left class, right class, plain/augmented) | "
                   "(class, member) | (heap action); snapshots are bit-for-bit (tobytes, recursive)"}
    return {"judge": j, "coverage": cov, "level": "model_checking", "assumptions": [
        "a heap behaviour is abandoned (not judged further) at the first step whose outcome differs from the model "
        "in class / length / exception - those differences belong to C08, C09, C10",
        "methods that need arguments are exercised through the Api table, not by reflection"]}


def replay(rp):
    for c in rp["cases"][:5]:
        print({k: v for k, v in c.items() if k != "program"})
    return 0
