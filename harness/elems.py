"""gamma / alpha for *element identities* of the structural specs (SMList, Broadcast ...).

Spec id k  <->  a distinguishable member of the class.  Only trivial arithmetic here:
k goes into one coordinate (translation / scalar part) or into an angle 0.01*k.
"""
import math

import numpy as np

import common

common.use_repo()
from spatialmath import (SO2, SE2, SO3, SE3, Quaternion, UnitQuaternion, Twist2, Twist3,  # noqa: E402
                         Plucker, SpatialVelocity, SpatialAcceleration, SpatialForce,
                         SpatialMomentum, SpatialInertia)

ANG = 0.01


def _rot2(t):
    c, s = math.cos(t), math.sin(t)
    return np.array([[c, -s], [s, c]])


def _rotz(t):
    c, s = math.cos(t), math.sin(t)
    return np.array([[c, -s, 0.0], [s, c, 0.0], [0.0, 0.0, 1.0]])


def _se2(k):
    T = np.eye(3)
    T[0, 2] = k
    return T


def _se3(k):
    T = np.eye(4)
    T[0, 3] = k
    return T


def _vec(n, k):
    v = np.zeros(n)
    v[0] = k
    return v


def _inertia(k):
    m = np.eye(6)
    m[0, 0] = k
    return m


# class -> (array maker, id reader, expected shape)
SPEC = {
    "SO2": (lambda k: _rot2(ANG * k), lambda a: math.atan2(a[1, 0], a[0, 0]) / ANG, (2, 2)),
    "SE2": (_se2, lambda a: a[0, 2], (3, 3)),
    "SO3": (lambda k: _rotz(ANG * k), lambda a: math.atan2(a[1, 0], a[0, 0]) / ANG, (3, 3)),
    "SE3": (_se3, lambda a: a[0, 3], (4, 4)),
    "Quaternion": (lambda k: np.array([float(k), 1.0, 0.0, 0.0]), lambda a: a[0], (4,)),
    # odd ids are held as the OTHER quaternion of the double cover (negative scalar part): neighbouring values of a
    # sequence lie in opposite hemispheres, and a stored value is compared with its sign (ident() checks the array)
    "UnitQuaternion": (lambda k: (-1.0 if int(k) % 2 else 1.0) * np.array([math.cos(ANG * k / 2), 0.0, 0.0, math.sin(ANG * k / 2)]),
                       lambda a: 2 * (math.atan2(a[3], a[0]) if a[0] >= 0 else math.atan2(-a[3], -a[0])) / ANG, (4,)),
    "Twist2": (lambda k: _vec(3, k), lambda a: a[0], (3,)),
    "Twist3": (lambda k: _vec(6, k), lambda a: a[0], (6,)),
    "Plucker": (lambda k: np.array([float(k), 0, 0, 0, 0, 1.0]), lambda a: a[0], (6,)),
    "SpatialVelocity": (lambda k: _vec(6, k), lambda a: a[0], (6,)),
    "SpatialAcceleration": (lambda k: _vec(6, k), lambda a: a[0], (6,)),
    "SpatialForce": (lambda k: _vec(6, k), lambda a: a[0], (6,)),
    "SpatialMomentum": (lambda k: _vec(6, k), lambda a: a[0], (6,)),
    "SpatialInertia": (_inertia, lambda a: a[0, 0], (6, 6)),
}

CLS = {c.__name__: c for c in (SO2, SE2, SO3, SE3, Quaternion, UnitQuaternion, Twist2, Twist3,
                               Plucker, SpatialVelocity, SpatialAcceleration, SpatialForce,
                               SpatialMomentum, SpatialInertia)}

# a *related* class, the most plausible foreign operand to slip through a type test
WRONG = {"SO2": "SE2", "SE2": "SO2", "SO3": "SE3", "SE3": "SO3", "Quaternion": "UnitQuaternion",
         "UnitQuaternion": "Quaternion", "Twist2": "Twist3", "Twist3": "Twist2",
         "Plucker": "Twist3", "SpatialVelocity": "SpatialAcceleration",
         "SpatialAcceleration": "SpatialVelocity", "SpatialForce": "SpatialMomentum",
         "SpatialMomentum": "SpatialForce", "SpatialInertia": "SpatialForce"}

MAIN8 = ["SO2", "SE2", "SO3", "SE3", "Quaternion", "UnitQuaternion", "Twist2", "Twist3"]
EXTRA = ["Plucker", "SpatialVelocity", "SpatialAcceleration", "SpatialForce", "SpatialMomentum"]


def arr(cname, k):
    return SPEC[cname][0](k)


def inject(cname, ids):
    """gamma(state): an object of class cname whose .data holds the members with these ids
    (direct state injection: the abstract state of an object is its .data)."""
    x = CLS[cname]()
    x.data = [arr(cname, k) for k in ids]
    return x


def ident(cname, a):
    """alpha(element): the id encoded in one stored element, or a string describing junk."""
    shape = SPEC[cname][2]
    if a is None:
        return "None"
    if not isinstance(a, np.ndarray):
        return "not-array:" + type(a).__name__
    if a.shape != shape:
        return "shape" + str(a.shape)
    if a.dtype == object:                    # e.g. the result of simplify() on a numeric pose: numbers held as objects
        try:
            a = a.astype(float)
        except (TypeError, ValueError):
            return "unreadable:object-dtype"
    try:
        v = float(SPEC[cname][1](a))
    except Exception as e:  # object arrays etc.
        return "unreadable:" + type(e).__name__
    r = round(v)
    if abs(v - r) > 1e-6:
        return "frac:%r" % v
    # the rest of the element must be the canonical member as well
    if not np.allclose(a, arr(cname, r), atol=1e-9, rtol=0):
        return "corrupt"
    return int(r)


def project(cname, x):
    """alpha(object) -> (class name, [ids])"""
    return type(x).__name__, [ident(cname, a) for a in x.data]
