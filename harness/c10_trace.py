def run(j, tier):
    return {"traces": 0}
