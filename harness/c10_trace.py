"""C10 Direction B: recorded list traces (random driver + repository tests) judged by TLC."""
import json
import os
import random
import subprocess

import common
from common import MachineryError, run_tlc, write_ndjson

PID = "C10"
# the two tests that open interactive figures time out (900 s) in this sandbox and are in the
# baseline's always_fail list; everything else is traced
DESELECT = ["tests/base/test_transforms3d.py::Test3D::test_plot",
            "tests/test_pose2d.py::TestSE2::test_graphics"]


def driver_events(n_traces, n_ops, seed):
    """Random programs against the real API.  Does not consult the specification."""
    os.environ["SPATIALMATH_PYTHON_VERIF"] = "1"
    import smtrace
    import elems
    smtrace.install_list_wrappers()
    rec = smtrace.Recorder()
    rec.strict = True
    junk = {}

    def by_ident(obj):      # the driver knows which member it stored: decode it (tolerant)
        out = []
        for a in obj.data:
            k = elems.ident(type(obj).__name__, a)
            if not isinstance(k, int):
                k = junk.setdefault((k, rec.idof(a)), -1 - len(junk))
            out.append(k)
        return out
    rec.ids_of = by_ident
    smtrace.REC = rec
    rng = random.Random(seed)
    classes = elems.MAIN8 + elems.EXTRA
    nid = 1

    def ri():
        return rng.randint(-8, 8)

    def rs():
        return rng.choice([None, None] + list(range(-8, 9)))

    for t in range(n_traces):
        cname = classes[t % len(classes)]
        nid = 1        # ids restart per trace: angle-coded members need 0.01*id < pi
        n0 = rng.randint(0, 5)
        x = elems.inject(cname, list(range(nid, nid + n0)))
        nid += n0
        for _ in range(n_ops):
            op = rng.choice(["getitem", "slice", "append", "extend", "insert", "pop", "pop0", "del",
                             "setitem", "reverse", "clear", "append_multi", "append_wrong",
                             "insert_wrong", "setitem_multi", "extend_wrong", "getitem", "slice",
                             "insert", "setitem", "append"])
            try:
                if op == "getitem":
                    x[ri()]
                elif op == "slice":
                    st = rng.choice([None, -3, -2, -1, 1, 2, 3])
                    x[slice(rs(), rs(), st)]
                elif op == "append":
                    x.append(elems.inject(cname, [nid])); nid += 1
                elif op == "extend":
                    k = rng.randint(0, 3)
                    x.extend(elems.inject(cname, list(range(nid, nid + k)))); nid += k
                elif op == "insert":
                    x.insert(ri(), elems.inject(cname, [nid])); nid += 1
                elif op == "pop":
                    x.pop(ri())
                elif op == "pop0":
                    x.pop()
                elif op == "del":
                    del x[ri()]
                elif op == "setitem":
                    x[ri()] = elems.inject(cname, [nid]); nid += 1
                elif op == "reverse":
                    x.reverse()
                elif op == "clear":
                    if rng.random() < 0.3:
                        x.clear()
                elif op == "append_multi":
                    x.append(elems.inject(cname, [nid, nid + 1]))
                elif op == "append_wrong":
                    x.append(elems.inject(elems.WRONG[cname], [nid]))
                elif op == "insert_wrong":
                    x.insert(ri(), elems.inject(elems.WRONG[cname], [nid]))
                elif op == "setitem_multi":
                    x[ri()] = elems.inject(cname, [nid, nid + 1])
                elif op == "extend_wrong":
                    w = rng.randrange(3)
                    x.extend(elems.inject(elems.WRONG[cname], [nid, nid + 1]) if w == 0 else elems.inject(elems.WRONG[cname], []) if w == 1
                             else [elems.inject(cname, [nid]), elems.inject(elems.WRONG[cname], [nid + 1])])
            except Exception:  # noqa: BLE001  the recorder has logged it
                pass
    rec.enabled = False
    return rec.events


def repo_test_events(out):
    env = dict(os.environ)
    env.update({"SPATIALMATH_PYTHON_VERIF": "1", "SMTRACE_OUT": out, "MPLBACKEND": "Agg",
                "PYTHONPATH": os.path.join(common.VERIF, "harness"),
                "PYTHONDONTWRITEBYTECODE": "1"})
    tests = ["tests"]
    for d in DESELECT:
        tests += ["--deselect", d]
    if os.path.exists(out):
        os.remove(out)
    p = subprocess.run([os.sys.executable, "-m", "pytest", "-q", "-p", "no:cacheprovider", "-p",
                        "smtrace_plugin", "-W", "ignore", "--timeout=120"] + tests,
                       cwd=common.REPO, env=env, stdout=subprocess.PIPE, stderr=subprocess.STDOUT,
                       text=True, timeout=900)
    if not os.path.exists(out):
        raise MachineryError("repository tests produced no trace:\n" + p.stdout[-2000:])
    return common.read_ndjson(out), p.stdout.strip().splitlines()[-1]


def group(events):
    """Per-object traces must be contiguous for the trace spec (stable sort by tid)."""
    return sorted(events, key=lambda e: e["tid"])


def judge(tag, events):
    d = os.path.join(common.BUILD, tag)
    os.makedirs(d, exist_ok=True)
    tr = os.path.join(d, "trace.ndjson")
    vd = os.path.join(d, "verdict.json")
    if os.path.exists(vd):
        os.remove(vd)
    write_ndjson(tr, events)
    r = run_tlc("SMListTrace", "SMListTrace", tag=tag, workers=1,
                env={"TRACE": tr, "VERDICT": vd}, timeout=1200)
    if not os.path.exists(vd):
        raise MachineryError("trace validation wrote no verdict (%s)" % tag)
    with open(vd) as f:
        v = json.load(f)
    if v["lines"] != len(events):
        raise MachineryError("trace validation consumed %s of %d lines" % (v["lines"], len(events)))
    return v["rejected"], r


def feature(e):
    c = e["call"]
    n = len(e["pre"])
    import c10
    return c10.features(c, n)


def run(j, tier):
    thorough = tier == "thorough"
    out = {}
    # (1) independent random driver
    ev = group(driver_events(600 if thorough else 130, 40, common.seed() + 7))
    rej, r1 = judge("C10_trace_driver", ev)
    ntr = len({e["tid"] for e in ev})
    for k in rej:
        e = ev[k - 1]
        j.fail("%s|%s|%s;%s|trace-rejected" % (PID, e["call"]["op"], e["cls"], feature(e)),
               {"kind": "trace-event", "source": "driver", "event": e})
    for k, e in enumerate(ev):
        if e["call"]["op"] != "begin" and (k + 1) not in rej:
            j.ok((e["cls"], "trace", e["call"]["op"], feature(e)))
    out["driver"] = {"traces": ntr, "events": len(ev), "rejected": len(rej), "tlc_states": r1.distinct}
    j.sample({"trace-event": next(e for e in ev if e["call"]["op"] == "slice")})
    # (2) the repository's own tests, traced
    tev, summary = repo_test_events(os.path.join(common.BUILD, "C10_trace_repo", "events.ndjson")
                                    if os.makedirs(os.path.join(common.BUILD, "C10_trace_repo"),
                                                   exist_ok=True) is None else None)
    tev = group(tev)
    rej2, r2 = judge("C10_trace_repo", tev)
    for k in rej2:
        e = tev[k - 1]
        j.fail("%s|%s|%s;%s|trace-rejected" % (PID, e["call"]["op"], e["cls"], feature(e)),
               {"kind": "trace-event", "source": "repo-tests", "event": e})
    for k, e in enumerate(tev):
        if e["call"]["op"] != "begin" and (k + 1) not in rej2:
            j.ok((e["cls"], "repo-trace", e["call"]["op"], feature(e)))
    out["repo_tests"] = {"pytest": summary, "traces": len({e["tid"] for e in tev}),
                         "events": len(tev), "rejected": len(rej2), "tlc_states": r2.distinct}
    out["traces"] = ntr + len({e["tid"] for e in tev})
    return out
