"""C13 - Lie-algebra maps, adjoint and differential motion are consistent.

Spec: ExactLie.tla (theorems evaluated by TLC: skew(a)b = a x b and vex o skew = id on basis vectors,
Ad homomorphism / inverse / Ad(T)S = vee(T[S]T^-1) on the cube-group and rational lattices, ...).
Binding: the base functions and the SE3 / Twist3 methods are executed on integer vectors and on
lattice / rational motions; results are logged as integer events and judged by TLC (LieTrace.tla).
Identities that involve the exponential of a general twist, first-order agreement of tr2delta with the
logarithm, and real-valued motions are checked as laws on sampled valuations.
"""
import itertools
import json
import math
import os
import random

import numpy as np

import common
from common import Judge, MachineryError, run_tlc, write_ndjson
import gamma

PID = "C13"
TOL = 1e-9


def ints(x, mult, tol_scale=1.0):
    a = np.asarray(x, dtype=float).ravel() * mult
    r = np.round(a)
    mag = max(1.0, float(np.max(np.abs(a))) if a.size else 1.0)
    if not np.all(np.isfinite(a)) or float(np.max(np.abs(a - r))) > TOL * mag * tol_scale:
        return None
    return [int(v) for v in r]


def motion_fields(h):
    """q, t, d of a Hom record (exact integer divisions)"""
    n = h["qn"]
    d = h["den"] // n
    t = [h["num"][i][3] // n for i in range(3)]
    return {"q": h["q"], "t": t, "d": d}


def events(rng, homs, thorough):
    import spatialmath.base as b
    from spatialmath import SE3, Twist3, Twist2
    vecs3 = [(1, 0, 0), (0, 1, 0), (0, 0, 1), (1, 2, 3), (-2, 0, 5), (7, -3, 1)] + \
            [tuple(rng.randint(-1000, 1000) for _ in range(3)) for _ in range(10)]
    vecs6 = [tuple(1 if i == k else 0 for i in range(6)) for k in range(6)] + \
            [tuple(rng.randint(-50, 50) for _ in range(6)) for _ in range(12)]
    for s in (1.0, 1e-6, 1e6):
        for a in vecs3:
            A = np.array(a, dtype=float) * s
            yield "skew3", {"a": a}, 1 / s, (lambda A=A: b.skew(A)), "base.skew"
            yield "vex3", {"a": [int(x) for x in np.array(b.skew(np.array(a, dtype=float))).ravel()]}, 1 / s, \
                (lambda a=a, s=s: b.vex(b.skew(np.array(a, dtype=float)) * s)), "base.vex"
            yield "skewa3", {"a": a}, 1 / s, (lambda A=A: b.skewa(A)), "base.skewa(3)"
            for c in vecs3[:6]:
                C = np.array(c, dtype=float) * s
                yield "cross", {"a": a, "b": c}, 1 / (s * s), (lambda A=A, C=C: b.cross(A, C)), "base.cross"
                yield "cross", {"a": a, "b": c}, 1 / (s * s), (lambda A=A, C=C: b.skew(A) @ C), "base.skew@"
        for a in vecs6:
            A = np.array(a, dtype=float) * s
            yield "skewa6", {"a": a}, 1 / s, (lambda A=A: b.skewa(A)), "base.skewa(6)"
            yield "delta2tr", {"a": a}, None, (lambda A=A, s=s: (b.delta2tr(A) - np.eye(4)) / s + np.eye(4)), "base.delta2tr"
            yield "ad", {"a": a}, 1 / s, (lambda A=A: Twist3(A).ad()), "Twist3.ad"
        for w in (1, -3, 7):
            yield "skew1", {"a": [w]}, 1 / s, (lambda w=w, s=s: b.skew(w * s)), "base.skew(1)"
    # norm and related helpers on vectors of length 1, 3 and 6 with integer norms, magnitudes 1e-9 .. 1e6
    pyth = [((5,), 5), ((-3,), 3), ((3, 4, 0), 5), ((1, 2, 2), 3), ((2, -3, 6), 7), ((-2, 10, 11), 15), ((0, 0, -4), 4),
            ((1, 1, 1, 1, 0, 0), 2), ((2, 3, 6, 0, 0, 0), 7), ((1, -1, 1, 1, 1, 2), 3), ((2, 2, -2, 2, 3, 0), 5), ((0, 0, 0, 0, 0, 1), 1)]
    for s in (1e-9, 1e-8, 1e-6, 1e-3, 1.0, 1e3, 1e6):
        for a, nn in pyth:
            A = np.array(a, dtype=float) * s
            yield "normsq", {"a": a}, 1 / (s * s), (lambda A=A: [b.normsq(A)]), "base.normsq"
            yield "norm", {"a": a, "n": nn}, 1 / s, (lambda A=A: [b.norm(A)]), "base.norm"
            yield "unitvec", {"a": a, "n": nn}, float(nn), (lambda A=A: b.unitvec(A)), "base.unitvec"
            yield "unitvec_norm", {"a": a, "n": nn}, None, \
                (lambda A=A, nn=nn, s=s: np.r_[np.asarray(b.unitvec_norm(A)[0], dtype=float) * nn, b.unitvec_norm(A)[1] / s]), "base.unitvec_norm"
    # unit twists: S = magnitude * unit twist, the magnitude being |w|, or |v| when there is no rotation (never negative)
    tw3 = [((1, -2, 5, 3, 4, 0), 5), ((0, 0, 0, 1, 2, 2), 3), ((7, 1, -1, 2, -3, 6), 7), ((-4, 0, 9, 0, 0, -4), 4),
           ((3, 4, 0, 0, 0, 0), 5), ((2, -3, 6, 0, 0, 0), 7), ((0, 0, -2, 0, 0, 0), 2), ((1, 1, 1, -1, 0, 0), 1)]
    tw2 = [((1, 2, 3), 3), ((1, 2, -3), 3), ((-5, 0, -1), 1), ((0, 0, 4), 4), ((0, 0, -2), 2), ((3, 4, 0), 5), ((-5, 12, 0), 13), ((0, -2, 0), 2)]
    for s in (1e-6, 1e-3, 1.0, 1e3):
        for a, nn in tw3:
            A = np.array(a, dtype=float) * s
            yield "unittwist", {"a": a, "n": nn}, float(nn), (lambda A=A: b.unittwist(A)), "base.unittwist"
            yield "unittwist_norm", {"a": a, "n": nn}, None, \
                (lambda A=A, nn=nn, s=s: np.r_[np.asarray(b.unittwist_norm(A)[0], dtype=float) * nn, b.unittwist_norm(A)[1] / s]), "base.unittwist_norm"
        for a, nn in tw2:
            A = np.array(a, dtype=float) * s
            yield "unittwist2", {"a": a, "n": nn}, float(nn), (lambda A=A: b.unittwist2(A)), "base.unittwist2"
            yield "unittwist2_norm", {"a": a, "n": nn}, None, \
                (lambda A=A, nn=nn, s=s: np.r_[np.asarray(b.unittwist2_norm(A)[0], dtype=float) * nn, b.unittwist2_norm(A)[1] / s]), "base.unittwist2_norm"
    # angle wrapping (a vector helper): multiples of a quarter turn up to +-20 turns, scalar, two-argument and array forms
    for k in range(-81, 82):
        if k % 4 == 2:
            continue
        yield "angdiff1", {"k": k}, 2 / math.pi, (lambda k=k: [b.angdiff(k * math.pi / 2)]), "base.angdiff(a)"
        yield "angdiff1", {"k": k}, 2 / math.pi, (lambda k=k: [np.asarray(b.angdiff(np.array([k * math.pi / 2, 0.3]))).ravel()[0]]), "base.angdiff(array)"
        for m in (0, 3, -9, 40):
            if (k - m) % 4 != 2:
                yield "angdiff2", {"k": k, "m": m}, 2 / math.pi, (lambda k=k, m=m: [b.angdiff(k * math.pi / 2, m * math.pi / 2)]), "base.angdiff(a,b)"
    for a in vecs6:
        M = np.eye(4) + b.skewa(np.array(a, dtype=float))
        yield "tr2delta", {"a": [int(x) for x in M.ravel()]}, 1.0, (lambda M=M: b.tr2delta(M)), "base.tr2delta"
        yield "vexa6", {"a": [int(x) for x in b.skewa(np.array(a, dtype=float)).ravel()]}, 1.0, \
            (lambda a=a: b.vexa(b.skewa(np.array(a, dtype=float)))), "base.vexa(4x4)"
    for a in vecs3:
        yield "vexa3", {"a": [int(x) for x in b.skewa(np.array(a, dtype=float)).ravel()]}, 1.0, \
            (lambda a=a: b.vexa(b.skewa(np.array(a, dtype=float)))), "base.vexa(3x3)"
    for h in homs:
        f = motion_fields(h)
        T = gamma.T4(h)
        N, D = h["qn"], h["den"]
        yield "Ad", f, D, (lambda T=T: b.adjoint(T)), "base.adjoint"
        yield "Ad", f, D, (lambda T=T: SE3(T).Ad()), "SE3.Ad"
        # the adjoint of a TWIST object is the adjoint of the motion it generates (prismatic twists, i.e. pure
        # translations, and half turns are among the lattice motions)
        kind = "prismatic" if (f["q"][1:] == [0, 0, 0] and any(f["t"])) else "identity" if f["q"][1:] == [0, 0, 0] else "rotational"
        yield "Ad", f, D, (lambda T=T: Twist3(SE3(T)).Ad()), "Twist3.Ad(%s)" % kind
        yield "jac", f, N, (lambda T=T: b.tr2jac(T)), "base.tr2jac"
        yield "jac", f, N, (lambda T=T: SE3(T).jacob()), "SE3.jacob"
        yield "jac_same", f, N * N * (D // N), (lambda T=T: b.tr2jac(T, samebody=True)), "base.tr2jac(samebody)"
        # the flag given as another truthy value / positionally
        yield "jac_same", f, N * N * (D // N), (lambda T=T: b.tr2jac(T, samebody=1)), "base.tr2jac(samebody=1)"
        yield "jac_same", f, N * N * (D // N), (lambda T=T: b.tr2jac(T, np.bool_(True))), "base.tr2jac(T,numpy-bool)"


def planar_events(rng, thorough):
    """adjoint2 on exact planar motions [q = (a,0,0,c), t = (x,y,0), d] (times N d: integers)"""
    from spatialmath.base.transforms2d import adjoint2
    qs = [(1, 0, 0, 0), (1, 0, 0, 1), (0, 0, 0, 1), (1, 0, 0, -1), (2, 0, 0, 1), (3, 0, 0, -1), (3, 0, 0, 2), (1, 0, 0, 2), (4, 0, 0, -3)]
    ts = [(0, 0, 0), (1, 0, 0), (0, -2, 0), (3, 1, 0), (-7, 5, 0)] + \
         [(rng.randint(-40, 40), rng.randint(-40, 40), 0) for _ in range(6 if thorough else 2)]
    for q in qs:
        a, c = q[0], q[3]
        N = a * a + c * c
        for t in ts:
            for d in (1, 2, 5):
                T = np.array([[(a * a - c * c) / N, -2.0 * a * c / N, t[0] / d], [2.0 * a * c / N, (a * a - c * c) / N, t[1] / d], [0, 0, 1]])
                f = {"q": list(q), "t": list(t), "d": d}
                yield "Ad2", f, N * d, (lambda T=T: adjoint2(T)), "base.adjoint2"
                yield "Ad2", f, N * d, (lambda T=T: adjoint2(T.copy(order="F"))), "base.adjoint2(F-order)"


def _kept_then_log(b, dd):
    Td = b.trexp(dd)
    d1 = np.asarray(b.tr2delta(Td), dtype=float)
    return d1 - np.asarray(b.trlog(Td, twist=True), dtype=float)


def _kept_then_inv(b, dd):
    Td = b.trexp(dd * 1e3 if np.linalg.norm(dd) < 1e-4 else dd)
    b.tr2delta(Td)
    return b.trinv(Td) @ Td - np.eye(4)


def _noise_twist(b, dd, dm, which):
    v = dd[:3] / dm * 3.0
    out = []
    for wn in (1e-17, 3e-16):
        S = np.r_[v, np.array([1.0, 0.0, -2.0]) * wn]
        if which == 0:
            u, n = b.unittwist_norm(S)
            out.append(np.asarray(u, dtype=float) * float(n) - S)
        else:
            out.append(np.asarray(b.trexp(S), dtype=float) - b.transl(v))
    return np.concatenate([np.ravel(x) for x in out])


def series_expm(A):
    """matrix exponential by its defining power series with scaling and squaring (trusted, 12 lines)"""
    A = np.asarray(A, dtype=float)
    nrm = float(np.max(np.sum(np.abs(A), axis=1)))
    k = max(0, int(math.ceil(math.log2(max(nrm, 1e-300)))) + 4)
    B = A / (2 ** k)
    E = np.eye(A.shape[0])
    term = np.eye(A.shape[0])
    for i in range(1, 30):
        term = term @ B / i
        E = E + term
    for _ in range(k):
        E = E @ E
    return E


def laws(j, rng, n):
    import spatialmath.base as b
    from spatialmath import SE3, Twist3
    for i in range(n):
        mag = 10 ** rng.uniform(-3, 3)

        def rnd():
            if i % 3 == 0:      # the whole group: rotations of differential size (1e-9 .. 1e-2) as well
                sm = 10 ** rng.uniform(-9, -2)
                ang = [rng.uniform(-1, 1) * sm, rng.uniform(-1, 1) * sm, rng.uniform(-1, 1) * sm]
            else:
                ang = [rng.uniform(-3, 3), rng.uniform(-1.5, 1.5), rng.uniform(-3, 3)]
            T = gamma.real_T4(ang, np.array([rng.gauss(0, 1) for _ in range(3)]) * mag)
            return T
        T1, T2 = rnd(), rnd()
        S = np.array([rng.gauss(0, 1) for _ in range(6)]) * np.r_[mag, mag, mag, 1, 1, 1]
        band = "t=1e%d%s" % (int(3 * math.floor(math.log10(mag) / 3)), ";small-rotation" if i % 3 == 0 else "")
        sc = max(1.0, mag)
        checks = {
            "Ad(T1T2)=Ad(T1)Ad(T2)": (lambda: b.adjoint(T1 @ T2), lambda: b.adjoint(T1) @ b.adjoint(T2), 1e-9 * sc * sc),
            "Ad(T^-1)=Ad(T)^-1": (lambda: b.adjoint(b.trinv(T1)) @ b.adjoint(T1), lambda: np.eye(6), 1e-9 * sc * sc),
            "Ad(T)S=vee(T[S]T^-1)": (lambda: b.adjoint(T1) @ S, lambda: b.vexa(T1 @ b.skewa(S) @ b.trinv(T1)), 1e-9 * sc * sc),
            "SE3.Ad=adjoint": (lambda: SE3(T1, check=False).Ad(), lambda: b.adjoint(T1), 1e-12 * sc),
            "Twist3.Ad=Ad(exp)": (lambda: Twist3(S).Ad(), lambda: b.adjoint(b.trexp(S)), 1e-7 * sc),
            "exp(ad S)=Ad(exp S)": (lambda: series_expm(Twist3(S).ad()), lambda: b.adjoint(b.trexp(S)), 1e-7 * sc * sc),
            "jac=blockdiag(R',R')": (lambda: b.tr2jac(T1), lambda: np.block([[T1[:3, :3].T, np.zeros((3, 3))], [np.zeros((3, 3)), T1[:3, :3].T]]), 1e-12),
            "jac(samebody)=Ad(T^-1)": (lambda: b.tr2jac(T1, samebody=True), lambda: b.adjoint(b.trinv(T1)), 1e-9 * sc),
            "tr2delta(T0,T1)=tr2delta(T0^-1 T1)": (lambda: b.tr2delta(T1, T2), lambda: b.tr2delta(b.trinv(T1) @ T2), 1e-9 * sc),
            "SE3.delta=tr2delta": (lambda: SE3(T1, check=False).delta(SE3(T2, check=False)), lambda: b.tr2delta(T1, T2), 1e-12 * sc),
        }
        # the same identity for the twist theta * S, with S a unit twist and theta given as the argument of exp
        # (theta = 0, as int and float, is the null twist: both sides are the identity)
        Su = S / float(np.linalg.norm(S[3:]))
        for th in (0, 0.0, 1e-9, 0.7, -1.3, 1):
            checks["exp(theta ad S)=Ad(S.exp(theta));theta=%r" % th] = (
                lambda th=th: series_expm(th * Twist3(Su).ad()), lambda th=th: Twist3(Su).exp(th).Ad(), 1e-7 * sc * sc)
        for name, (lhs, rhs, tol) in checks.items():
            cid = ("law", name, band)
            try:
                d = float(np.max(np.abs(np.asarray(lhs(), dtype=float) - np.asarray(rhs(), dtype=float))))
            except Exception as ex:  # noqa: BLE001
                j.fail("%s|%s|%s|raised-%s" % (PID, name, band, type(ex).__name__), {"kind": "law", "law": name, "T1": T1.tolist(), "S": S.tolist()}, cid)
                continue
            if not (d <= tol):
                j.fail("%s|%s|%s|law-violated" % (PID, name, band), {"kind": "law", "law": name, "distance": d, "tol": tol,
                                                                    "T1": T1.tolist(), "T2": T2.tolist(), "S": S.tolist()}, cid)
            else:
                j.ok(cid)
        # differential motion: exact inverse pair, and first-order agreement with the logarithm
        dm = 10 ** rng.uniform(-9, -2)
        dd = np.array([rng.gauss(0, 1) for _ in range(6)])
        dd = dd / np.linalg.norm(dd) * dm
        band2 = "norm(d)=1e%d" % int(math.floor(math.log10(dm)))
        for name, fn, tol in (("log(exp d)=d", lambda: np.asarray(b.trlog(b.trexp(dd), twist=True), dtype=float) - dd, 1e-7 * dm + 1e-18),
                              ("tr2delta(exp d)~log(exp d) (first order)",
                               lambda: b.tr2delta(b.trexp(dd)) - np.asarray(b.trlog(b.trexp(dd), twist=True), dtype=float), 2.0 * dm * dm + 1e-15),
                              ("SE3.delta~Twist3(X).S (first order)",
                               lambda: SE3().delta(SE3(b.trexp(dd), check=False)) - np.asarray(Twist3(SE3(b.trexp(dd), check=False)).S, dtype=float), 2.0 * dm * dm + 1e-15),
                              ("tr2delta(delta2tr(d))=d", lambda: b.tr2delta(b.delta2tr(dd)) - dd, 1e-9 * dm + 1e-18),
                              ("tr2delta(exp d)~d (first order)", lambda: b.tr2delta(b.trexp(dd)) - dd, 2.0 * dm * dm + 1e-15),
                              ("SE3.Delta~exp(d)", lambda: SE3.Delta(dd).A - b.trexp(dd), 2.0 * dm * dm + 1e-15),
                              # one array kept by the caller and used again after tr2delta (as a caller iterating a servo loop does)
                              ("tr2delta(Td) then log(Td), one kept array", lambda: _kept_then_log(b, dd), 2.0 * dm * dm + 1e-15),
                              ("tr2delta(Td) then Td^-1 Td, one kept array", lambda: _kept_then_inv(b, dd), 1e-9),
                              # a translational twist whose rotational part is rounding noise: unit * magnitude = S, exp = translation
                              ("unittwist_norm(noise w): unit*norm=S", lambda: _noise_twist(b, dd, dm, 0), 1e-12),
                              ("trexp(noise w)=transl(v)", lambda: _noise_twist(b, dd, dm, 1), 1e-12)):
            cid = ("law", name, band2)
            try:
                d = float(np.max(np.abs(fn())))
            except Exception as ex:  # noqa: BLE001
                j.fail("%s|%s|%s|raised-%s" % (PID, name, band2, type(ex).__name__), {"kind": "law", "law": name, "d": dd.tolist()}, cid)
                continue
            if not (d <= tol):
                j.fail("%s|%s|%s|law-violated" % (PID, name, band2), {"kind": "law", "law": name, "distance": d, "tol": tol, "d": dd.tolist()}, cid)
            else:
                j.ok(cid)
    # the adjoint is a homomorphism over COMPOSED TWISTS too: rotations about parallel / anti-parallel axes through
    # different points (they do not commute), coaxial ones, a screw with a translation, general position
    uz = np.array([0.0, 0.0, 1.0])
    ug = np.array([0.6, 0.0, 0.8])
    pairs = {"parallel-axes": (Twist3.Revolute(uz, [0, 0, 0]) * 0.7, Twist3.Revolute(uz, [1, 0, 0]) * 0.4),
             "anti-parallel-axes": (Twist3.Revolute(ug, [0, 1, 0]) * 0.9, Twist3.Revolute(-ug, [2, -1, 0.5]) * 0.5),
             "coaxial": (Twist3.Revolute(ug, [1, 2, 3]) * 0.3, Twist3.Revolute(ug, [1, 2, 3]) * -1.1),
             "parallel-scaled": (Twist3.Revolute(2 * uz, [0, 2, 0]) * 1.3, Twist3.Revolute(uz, [-1, 0, 4]) * 0.2),
             "revolute-prismatic": (Twist3.Revolute(uz, [1, 1, 0]) * 0.8, Twist3.Prismatic([0, 0, 1]) * 2.0),
             "general": (Twist3([0.3, -1.0, 0.5, 0.2, 0.4, -0.6]), Twist3([1.0, 0.2, -0.7, -0.5, 0.1, 0.3]))}
    for tag_, (S1, S2) in pairs.items():
        for name, lhs, rhs in (("Ad(S1*S2)=Ad(S1)Ad(S2)", lambda: (S1 * S2).Ad(), lambda: S1.Ad() @ S2.Ad()),
                               ("(S1*S2).SE3=S1.SE3*S2.SE3", lambda: (S1 * S2).SE3().A, lambda: (S1.SE3() * S2.SE3()).A),
                               ("exp(ad(S1*S2))=Ad(S1)Ad(S2)", lambda: series_expm((S1 * S2).ad()), lambda: S1.Ad() @ S2.Ad())):
            cid = ("law", name, tag_)
            try:
                d = float(np.max(np.abs(np.asarray(lhs(), dtype=float) - np.asarray(rhs(), dtype=float))))
            except Exception as ex:  # noqa: BLE001
                j.fail("%s|%s|%s|raised-%s" % (PID, name, tag_, type(ex).__name__), {"kind": "law", "law": name, "pair": tag_}, cid)
                continue
            if not (d <= 1e-7 * 25):
                j.fail("%s|%s|%s|law-violated" % (PID, name, tag_), {"kind": "law", "law": name, "pair": tag_, "distance": d}, cid)
            else:
                j.ok(cid)
    # planar adjoint on real valuations: homomorphism, inverse, Ad2(T) s = vexa(T [s] T^-1), embedding into the spatial adjoint
    for k in range(n):
        cid = ("law", "adjoint2")
        try:
            from spatialmath.base.transforms2d import adjoint2
            sc = (1e-3, 1.0, 1e3)[k % 3]
            T1 = b.transl2(rng.uniform(-1, 1) * sc, rng.uniform(-1, 1) * sc) @ b.trot2(rng.uniform(-math.pi, math.pi))
            T2 = b.transl2(rng.uniform(-1, 1) * sc, rng.uniform(-1, 1) * sc) @ b.trot2(rng.uniform(-math.pi, math.pi))
            s3 = np.array([rng.uniform(-1, 1), rng.uniform(-1, 1), rng.uniform(-1, 1)])
            A1, A2, A12 = np.asarray(adjoint2(T1), dtype=float), np.asarray(adjoint2(T2), dtype=float), np.asarray(adjoint2(T1 @ T2), dtype=float)
            T3 = np.eye(4)
            T3[:2, :2], T3[:2, 3] = T1[:2, :2], T1[:2, 2]
            A6 = np.asarray(b.adjoint(T3), dtype=float)[np.ix_([0, 1, 5], [0, 1, 5])]
            mag = max(1.0, sc) ** 2
            ds = {"shape": 0.0 if A1.shape == (3, 3) else 1.0,
                  "hom": float(np.max(np.abs(A12 - A1 @ A2))) / mag if A1.shape == (3, 3) else 1.0,
                  "inv": float(np.max(np.abs(np.asarray(adjoint2(np.linalg.inv(T1)), dtype=float) @ A1 - np.eye(3)))) / mag if A1.shape == (3, 3) else 1.0,
                  "vee": float(np.max(np.abs(A1 @ s3 - np.ravel(b.vexa(T1 @ b.skewa(s3) @ np.linalg.inv(T1)))))) / mag if A1.shape == (3, 3) else 1.0,
                  "embed": float(np.max(np.abs(A1 - A6))) / mag if A1.shape == (3, 3) else 1.0}
        except Exception as ex:  # noqa: BLE001
            j.fail("%s|adjoint2|raised-%s" % (PID, type(ex).__name__), {"kind": "law", "law": "adjoint2"}, cid)
            continue
        worst = max(ds, key=lambda kk: ds[kk])
        if not (ds[worst] <= 1e-9):
            j.fail("%s|adjoint2|%s|law-violated" % (PID, worst), {"kind": "law", "law": "adjoint2-" + worst, "distance": ds[worst], "scale": sc}, cid)
        else:
            j.ok(cid)
    # planar maps and the SO(3) adjoint
    for w in (0.3, -2.0, 1e-6):
        cid = ("law", "2D-skew-vex")
        try:
            ok = abs(float(np.ravel(b.vex(b.skew(w)))[0]) - w) < 1e-15 and np.allclose(b.vexa(b.skewa([1, 2, w])), [1, 2, w], atol=1e-15)
        except Exception as ex:  # noqa: BLE001
            j.fail("%s|2D-skew-vex|w=%g|raised-%s" % (PID, w, type(ex).__name__), {"w": w}, cid)
            continue
        if not ok:
            j.fail("%s|2D-skew-vex|w=%g|law-violated" % (PID, w), {"w": w}, cid)
        else:
            j.ok(cid)


def run(tier):
    j = Judge(PID)
    thorough = tier == "thorough"
    rng = random.Random(common.seed() + 13)
    rt = run_tlc("MC_ExactLie", "ExactLie", workers=1, timeout=900)
    rl = run_tlc("MC_Group", "Group_lattice3", timeout=300)
    rr = run_tlc("MC_Group", "Group_ratpairs", timeout=300)
    homs = [e["post"] for e in rl.json][:: (2 if thorough else 12)] + [e["post"] for e in rr.json][:: (3 if thorough else 12)]
    evs, meta = [], []
    import itertools
    for fn, args, mult, thunk, site in itertools.chain(events(rng, homs, thorough), planar_events(rng, thorough)):
        cid = (site, fn)
        detail = {"kind": "event", "fn": fn, "site": site, "args": args}
        try:
            val = thunk()
        except Exception as ex:  # noqa: BLE001
            j.fail("%s|%s|%s|raised-%s" % (PID, site, fn, type(ex).__name__), detail, cid)
            continue
        r = ints(val, 1.0 if mult is None else mult)
        if r is None:
            j.fail("%s|%s|%s|not-exact-to-1e-9" % (PID, site, fn), dict(detail, value=np.asarray(val, dtype=float).ravel().tolist()[:36]), cid)
            continue
        ev = {"fn": fn, "res": r}
        for k, v in args.items():
            ev[k] = list(v) if isinstance(v, tuple) else v
        evs.append(ev)
        meta.append((site, fn, detail, cid))
    d = os.path.join(common.BUILD, "C13_trace")
    os.makedirs(d, exist_ok=True)
    tr, vd = os.path.join(d, "events.ndjson"), os.path.join(d, "verdict.json")
    if os.path.exists(vd):
        os.remove(vd)
    write_ndjson(tr, evs)
    rj = run_tlc("LieTrace", "LieTrace", tag="C13_trace", workers=1, env={"TRACE": tr, "VERDICT": vd}, timeout=900)
    v = json.load(open(vd))
    if v["lines"] != len(evs):
        raise MachineryError("LieTrace consumed %s of %d events" % (v["lines"], len(evs)))
    rej = set(v["rejected"])
    for k, (site, fn, detail, cid) in enumerate(meta, 1):
        if k in rej:
            j.fail("%s|%s|%s|rejected-by-TLC" % (PID, site, fn), dict(detail, got=evs[k - 1]["res"][:36]), cid)
        else:
            j.ok(cid)
    j.sample({"event": evs[3]})
    j.sample({"event": next(e for e in evs if e["fn"] == "Ad")})
    n_ev = len(evs)
    laws(j, rng, 200 if thorough else 50)
    cov = {"states": rj.distinct + rl.distinct + rr.distinct, "transitions": rj.generated + rl.generated + rr.generated,
           "traces_validated_against_impl": n_ev, "events_judged_by_tlc": n_ev, "events_rejected": len(rej),
           "theorems_checked_by_tlc": 13, "lattice_exact": n_ev, "valuation": j.evaluations - n_ev, "checker_cmd": rt.cmd,
           "rule": "case = (implementation site, spec operator) for events; (law, magnitude band) for valuations"}
    return {"judge": j, "coverage": cov, "level": "model_checking", "assumptions": [
        "exact oracle on integer vectors and lattice / rational motions; laws on sampled real motions elsewhere",
        "exp(ad S) is evaluated with a 12-line power-series expm in the harness (trusted)"]}


def replay(rp):
    for c in rp["cases"][:10]:
        print({k: v for k, v in c.items() if k not in ("value",)})
    return 0
