"""C15 - argument forms and units are interchangeable.

Spec: Api.tla - the interface table (vector arguments with admissible lengths; angle units in and
out; axis orders; separate-scalar call forms).  TLC enumerates every (entry, argument, container
form, length 0..8, element type), every (entry, unit), (entry, bad unit), (entry, order name /
alias / misspelling) and every scalar-vs-packed pair; the expected outcome is "identical to the
1-D array form", "reject", "deg equals rad", "accept".
"""
import math

import numpy as np

import common
from common import Judge, MachineryError, run_tlc
import apilib as al

PID = "C15"


def call_vec(name, vecs):
    return al.VEC[name](*vecs)


def vec_case(j, c, canon_cache):
    name, k, form, n, et = c["name"], c["arg"] - 1, c["form"], c["len"], c["et"]
    deflen = c["deflen"]

    def args(f, length):
        vs = []
        for i in range(c["nargs"]):
            if i == k:
                vs.append(al.shape(al.vec(i, length, et, name), f))
            else:
                vs.append(np.array(al.vec(i, deflen[i], "float", name)))
        return vs

    return args


def run(tier):
    j = Judge(PID)
    r = run_tlc("MC_Api", "Api", timeout=300)
    names = None
    cases = []
    for e in r.json:
        if "names" in e:
            names = set(e["names"])
        elif "call" in e:
            cases.append(e)
    if names is None or len(cases) < 8000:
        raise MachineryError("Api export incomplete")
    bound = set(al.VEC) | set(al.UNIT_IN) | set(al.UNIT_OUT) | set(al.ORDER) | set(al.SCALARS) | set(al.MAT)
    if names - bound:
        raise MachineryError("Api entries without a binding: %s" % sorted(names - bound))
    # reflection cross-check: exported base names that the table does not cover are reported, not judged
    import spatialmath.base as b
    exported = set(b.__all__)
    covered = {n.split("(")[0].split(".")[0] for n in names}
    uncovered = sorted(x for x in exported if x not in covered)
    seen = set()
    for e in cases:
        c, expect = e["call"], e["expect"]
        key = str(c)
        if key in seen:
            continue
        seen.add(key)
        op = c["op"]
        if op == "vec":
            name, k, form, n, et = c["name"], c["arg"] - 1, c["form"], c["len"], c["et"]
            if k >= c["nargs"]:
                continue
            if name in ("unitvec", "unittwist", "unittwist2", "unittwist_norm") and n == 0:
                j.skip("empty (zero-norm) vector: None is the documented answer of the unit* helpers")
                continue
            mk = vec_case(j, c, None)
            cid = (name, k, form, "ok" if expect != "reject" else "badlen", et)
            feat = "arg%d;%s;len=%d;%s" % (k + 1, form, n, et)
            detail = {"kind": "vec", "call": c, "expect": expect}
            try:
                res = call_vec(name, mk(form, n))
                raised = None
            except Exception as ex:  # noqa: BLE001
                res, raised = None, type(ex).__name__
            if expect == "reject":
                if raised is None:
                    mode = "returned-None" if res is None else "accepted-wrong-length"
                    j.fail("%s|%s|%s|%s" % (PID, name, feat, mode), detail, cid)
                else:
                    j.ok(cid)
                continue
            if raised is not None:
                j.fail("%s|%s|%s|raised-%s" % (PID, name, feat, raised), detail, cid)
                continue
            if res is None:
                j.fail("%s|%s|%s|returned-None" % (PID, name, feat), detail, cid)
                continue
            try:
                canon = call_vec(name, mk("array", n))
            except Exception as ex:  # noqa: BLE001
                j.fail("%s|%s|arg%d;array;len=%d;%s|raised-%s" % (PID, name, k + 1, n, et, type(ex).__name__), detail, cid)
                continue
            if not al.identical(res, canon):
                j.fail("%s|%s|%s|differs-from-1D-array-form" % (PID, name, feat), detail, cid)
            else:
                j.ok(cid, nontrivial=form != "array")
        elif op == "unit":
            name, d = c["name"], c["dir"]
            cid = (name, "unit", d, c["cfg"], c["order"])
            try:
                if d == "in":
                    rd, rr = al.UNIT_IN[name]("deg"), al.UNIT_IN[name]("rad")
                else:
                    R, T, H = al._cfg(c["cfg"], c["order"])
                    rd = al.UNIT_OUT[name]("deg", R, T, H, c["order"])
                    rr = al.UNIT_OUT[name]("rad", R, T, H, c["order"])
            except Exception as ex:  # noqa: BLE001
                j.fail("%s|%s|unit-%s;%s;%s|raised-%s" % (PID, name, d, c["cfg"], c["order"], type(ex).__name__),
                       {"kind": "unit", "call": c}, cid)
                continue
            if rd is None or rr is None:
                j.skip("method has no unit parameter")
                continue
            if d == "in":
                ok = al.close(rd, rr, 1e-12)
            else:
                a, bb = al.flat(rd), al.flat(rr)
                ok = a is not None and bb is not None and len(a) == len(bb) and all(
                    x.shape == y.shape and np.allclose(x.astype(float), y.astype(float) * 180 / math.pi, rtol=0, atol=1e-10)
                    for x, y in zip(a, bb))
            if not ok:
                j.fail("%s|%s|unit-%s;%s;%s|deg-differs-from-rad" % (PID, name, d, c["cfg"], c["order"]), {"kind": "unit", "call": c}, cid)
            else:
                j.ok(cid)
        elif op == "badunit":
            name, u = c["name"], c["unit"]
            cid = (name, "badunit")
            try:
                res = al.UNIT_IN[name](u)
            except Exception:  # noqa: BLE001
                j.ok(cid)
                continue
            j.fail("%s|%s|unit=%r|accepted-unknown-unit" % (PID, name, u), {"kind": "badunit", "call": c}, cid)
        elif op == "order":
            name, o = c["name"], c["order"]
            cid = (name, "order", expect)
            try:
                res = al.ORDER[name](o)
                raised = None
            except Exception as ex:  # noqa: BLE001
                res, raised = None, type(ex).__name__
            if expect == "reject" and raised is None:
                j.fail("%s|%s|order=%r|accepted-unknown-order" % (PID, name, o), {"kind": "order", "call": c}, cid)
            elif expect == "accept" and (raised is not None or res is None):
                j.fail("%s|%s|order=%r|rejected-documented-order-%s" % (PID, name, o, raised), {"kind": "order", "call": c}, cid)
            else:
                j.ok(cid)
        elif op in ("mat", "sym"):
            continue
        elif op == "scalars":
            name, st = c["name"], c.get("st", "float")
            zs = c.get("zeros", "none")
            fs, fp = al.scalars(name, st, zs)
            cid = (name, "scalars", st, zs)
            try:
                ok = al.close(fs(), fp()) if "32" in st or "int" in st else al.identical(fs(), fp())
            except Exception as ex:  # noqa: BLE001
                j.fail("%s|%s|scalars-vs-packed;%s;zeros=%s|raised-%s" % (PID, name, st, zs, type(ex).__name__), {"kind": "scalars", "call": c}, cid)
                continue
            if not ok:
                j.fail("%s|%s|scalars-vs-packed;%s;zeros=%s|differ" % (PID, name, st, zs), {"kind": "scalars", "call": c}, cid)
            else:
                j.ok(cid)
    j.sample({"case": cases[10]})
    j.sample({"case": next(e for e in cases if e["call"]["op"] == "order")})
    # the argument-shape algebra (ArgShape.tla): every (function, abstract argument, length / pattern / output form)
    # executed once.  getvector / isvector take the vector arguments C15 speaks about (forms interchangeable, wrong
    # length rejected) and are JUDGED; the matrix functions are outside the statement: executed, compared, reported
    import argshape
    ra = run_tlc("MC_ArgShape", "ArgShape", timeout=300)
    explored = {}
    n_shape = 0
    for e in ra.json:
        if "call" not in e:
            continue
        c = e["call"]
        for variant in (0, 1):
            got, arg, res = argshape.execute(c, variant)
            mode = argshape.agrees(e["expect"], got, arg, res)
            n_shape += 1
            judged = c["fn"] in ("getvector", "isvector")
            if not judged:
                if mode:
                    explored["%s;%s;%s" % (c["fn"], c["a"].get("k"), mode)] = explored.get("%s;%s;%s" % (c["fn"], c["a"].get("k"), mode), 0) + 1
                continue
            if e["expect"]["k"] == "unspec":
                continue
            a = c["a"]
            feat = "%s;len=%s;dim=%s%s;%s" % (a["k"], a.get("n", "%sx%s" % (a.get("r", ""), a.get("c", "")) if "r" in a else "-"), c["dim"],
                                             (";out=" + c["out"]) if "out" in c else "", "int" if variant else "float")
            cid = (c["fn"], a["k"], e["expect"]["k"], c.get("out", ""))
            if mode:
                j.fail("%s|%s|%s|%s" % (PID, c["fn"], feat, mode), {"kind": "argshape", "call": c, "expect": e["expect"], "got": {k: v for k, v in got.items() if k != "mro"}}, cid)
            else:
                j.ok(cid, nontrivial=a["k"] != "array1")
    if n_shape < 12000:
        raise MachineryError("ArgShape export too small: %d" % n_shape)
    for k_, v_ in sorted(explored.items()):
        print("EXPLORED (outside the listed properties) argshape %s cases=%d" % (k_, v_))
    cov = {"states": r.distinct + ra.distinct, "transitions": r.generated + ra.generated, "traces_validated_against_impl": len(seen) + n_shape,
           "argshape_calls": n_shape, "argshape_theorems_checked_by_tlc": 6, "argshape_explored_mismatches_outside_C15": explored,
           "api_entries": len(names), "exported_base_names_not_in_table": uncovered, "exhaustive": True,
           "checker_cmd": r.cmd,
           "rule": "case = (entry, argument, container form, right/wrong length, element type) | (entry, unit "
                   "direction) | (entry, order validity) | (entry, scalar form); non-trivial = form other than 1-D array"}
    return {"judge": j, "coverage": cov, "level": "model_checking", "assumptions": [
        "Api.VecApi is the author's transcription of signatures and docstrings; exported names it does not cover are "
        "listed in evidence as uncovered (predicates on matrices, plotting, printing, 2-D point-set arguments)",
        "'identical' = same shape and bitwise equal values as the 1-D array form"]}


def replay(rp):
    for c in rp["cases"][:10]:
        print(c)
    return 0
