"""Replay of GroupMachine behaviours into the pose / quaternion / twist classes (C01 C02 C04 C06)."""
import operator

import numpy as np

import gamma

CLASSES3 = ["SO3", "SE3", "UnitQuaternion", "Twist3"]
CLASSES2 = ["SO2", "SE2", "Twist2"]
NO_POW = {"Twist3", "Twist2"}          # twists have no ** ; / is expressed through inv
TOL = {"SO3": 1e-9, "SE3": 1e-9, "UnitQuaternion": 1e-9, "SO2": 1e-9, "SE2": 1e-9,
       "Twist3": 1e-7, "Twist2": 1e-7}


def classes_for(h):
    return CLASSES3 + (CLASSES2 if gamma.is_planar(h) else [])


def _clone(X):
    Y = type(X)()
    Y.data = [np.array(a, copy=True) for a in X.data]
    return Y


def apply(cname, X, call, sigma, aug=False):
    """perform one GroupMachine action on object X; returns the new object (or None if n/a).
    aug: write X * G, X / G, X ** n in their augmented form (x *= g ...) on a private copy of X - the same
    transition of the specification reached through the other entry point (__imul__, __itruediv__, __ipow__)"""
    op = call["op"]
    aug = aug and cname not in NO_POW          # augmented arithmetic is documented for poses and quaternions only
    if op == "inv":
        return X.inv()
    if op == "pow":
        if cname in NO_POW:
            return None
        return operator.ipow(_clone(X), call["n"]) if aug else X ** call["n"]
    G = gamma.build(cname, call["g"], sigma)
    if op == "mulr":
        return operator.imul(_clone(X), G) if aug else X * G
    if op == "mull":
        return G * X
    if op == "divr":
        if cname in NO_POW:
            return X * G.inv()
        return operator.itruediv(_clone(X), G) if aug else X / G
    raise ValueError(op)


def check_value(cname, Y, h_post, sigma, scale):
    """returns (ok, distance, validity residual)"""
    if type(Y).__name__ != cname:
        return False, float("inf"), float("inf")
    if len(Y.data) != 1:
        return False, float("inf"), float("inf")
    try:
        got = gamma.project(cname, Y)          # for a twist: the motion it generates (evaluated by the library)
    except Exception:  # noqa: BLE001  the result cannot even be read back: as wrong as a result can be
        return False, float("inf"), float("inf")
    exp = gamma.expected(cname, h_post, sigma)
    d = gamma.distance(cname, got, exp)
    if not (d == d):                            # NaN
        d = float("inf")
    tol = TOL[cname] * max(1.0, scale)
    vres = 0.0
    if cname in ("SO2", "SE2", "SO3", "SE3", "UnitQuaternion"):
        vres = gamma.validity_residual(cname, Y.data[0])
    return d <= tol, d, vres


def usable(cname, *hs):
    """a twist is compared as the motion it generates; its log is not unique at half turns,
    and the planar classes need planar values"""
    for h in hs:
        if h is None:
            continue
        if cname in CLASSES2 and not gamma.is_planar(h):
            return False
    return True


def trans_free(h):
    n = h["num"]
    return n[0][3] == 0 and n[1][3] == 0 and n[2][3] == 0


def angle_band(h):
    """abstract angle class of the rotation part of a spec value (from exact integers)"""
    s, x, y, z = h["q"]
    v2 = x * x + y * y + z * z
    if v2 == 0:
        return "0"
    if s == 0:
        return "pi"
    if s * s == v2:
        return "pi/2"
    if 3 * s * s == v2:
        return "2pi/3"
    return "generic"


def mag_band(t):
    t = abs(float(t))
    if t == 0:
        return "0"
    e = int(np.floor(np.log10(t) / 3.0)) * 3
    return "1e%d" % e
