"""C08 Direction B: operator calls made by the repository's tests, judged by TLC against Doc."""
import json
import os

import common
from common import MachineryError, run_tlc, write_ndjson
import repotrace

PID = "C08"


def judge(tag, events):
    d = os.path.join(common.BUILD, tag)
    os.makedirs(d, exist_ok=True)
    tr, vd = os.path.join(d, "trace.ndjson"), os.path.join(d, "verdict.json")
    if os.path.exists(vd):
        os.remove(vd)
    write_ndjson(tr, events)
    r = run_tlc("DispatchTrace", "DispatchTrace", tag=tag, workers=1,
                env={"TRACE": tr, "VERDICT": vd}, timeout=600)
    if not os.path.exists(vd):
        raise MachineryError("trace validation wrote no verdict (%s)" % tag)
    with open(vd) as f:
        v = json.load(f)
    if v["lines"] != len(events):
        raise MachineryError("trace validation consumed %s of %d lines" % (v["lines"], len(events)))
    return v, r


def run(j, tier):
    (ev,), summary = repotrace.run("C08_trace_repo", ops_out="ops.ndjson")
    if not ev:
        raise MachineryError("no operator events recorded from the repository's tests")
    v, r = judge("C08_trace_repo", ev)
    for k in v["rejected"]:
        e = ev[k - 1]
        j.fail("%s|%s%s|%s;len(%d,%d)|trace-rejected-%s" % (
            PID, e["l"]["c"], "__or__" if e["op"] == "|" else e["op"], e["r"]["c"], e["l"]["n"], e["r"]["n"],
            e["res"].get("cls") or e["res"]["k"]), {"kind": "trace-event", "event": e})
    pairs = {(e["op"], e["l"]["c"], e["r"]["c"]) for e in ev}
    j.sample({"trace-event": ev[len(ev) // 2]})
    return {"pytest": summary, "events": len(ev), "judged": v["judged"], "rejected": len(v["rejected"]),
            "distinct_operator_cells_in_tests": len(pairs), "tlc_states": r.distinct}
