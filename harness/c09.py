"""C09 - sequence broadcasting: element-wise results and strict length rules.

TLC enumerates (Dispatch.tla, config Dispatch_c09) every (class, operator, m, n) with m, n in 0..5,
every per-value method and interp over a vector of s, with the length of the result and, for each
result position, which element of each operand feeds it (Pick).  Each case is executed on objects
built from pairwise distinguishable members; result element i must equal the library's own
single-valued operation on the picked elements (the statement's wording).
"""
import operator

import numpy as np

import common
from common import Judge, MachineryError, run_tlc
import elems
from elems import inject

PID = "C09"
OPS = {"*": operator.mul, "/": operator.truediv, "+": operator.add, "-": operator.sub,
       "**": operator.pow, "==": operator.eq, "!=": operator.ne}
TOL = 1e-12


def left_ids(m):
    return list(range(1, m + 1))


def right_ids(op, n):
    if op in ("==", "!="):
        return [j if j % 2 else 10 * j for j in range(1, n + 1)]     # some equal, some not
    return [10 * j for j in range(1, n + 1)]                          # pairwise distinct sums


def foreign(kind, lkind):
    if kind == "Int":
        return 2
    if kind == "Float":
        return 0.5
    if kind == "Vec":
        return [1.0, 2.0, 3.0][:2 if lkind in ("SO2", "SE2") else 3]
    return None


def items(r, k, expected=None):
    """Split a vectorised result into k per-value items (None if it cannot be split)."""
    if hasattr(r, "data") and isinstance(r.data, list):
        return list(r.data) if len(r.data) == k else None
    if isinstance(r, (list, tuple)):
        if len(r) == k:
            return list(r)
        return None
    if isinstance(r, np.ndarray):
        if k == 1:
            return [r]
        cands = []
        if r.ndim >= 1 and r.shape[0] == k:
            cands.append([r[i] for i in range(k)])
        if r.ndim >= 2 and r.shape[-1] == k:
            cands.append([r[..., i] for i in range(k)])
        if not cands:
            return None
        if expected is not None:
            for c in cands:
                if all(same(a, b) for a, b in zip(c, expected)):
                    return c
        return cands[0]
    if k == 1:
        return [r]
    return None


def as_value(v):
    if hasattr(v, "data") and isinstance(v.data, list):
        if len(v.data) == 1:
            return np.asarray(v.data[0], dtype=float)
        return None
    try:
        return np.asarray(v, dtype=float)
    except Exception:  # noqa: BLE001
        return None


def same(a, b):
    if isinstance(a, (bool, np.bool_)) or isinstance(b, (bool, np.bool_)):
        return bool(a) == bool(b)
    x, y = as_value(a), as_value(b)
    if x is None or y is None:
        return False
    x, y = np.ravel(x), np.ravel(y)
    if x.shape != y.shape:
        return False
    fin = np.isfinite(np.asarray(y, dtype=float)) if y.size and np.asarray(y).dtype.kind in "fiub" else None
    scale = float(np.max(np.abs(np.asarray(y, dtype=float)[fin]))) if fin is not None and fin.any() else 1.0
    try:
        return bool(np.allclose(x, y, rtol=0, atol=TOL * max(1.0, scale), equal_nan=True))
    except TypeError:
        return bool(np.allclose(x, y, rtol=0, atol=TOL * max(1.0, scale)))


def srepr(r):
    try:
        return repr(r)[:300]
    except Exception:  # noqa: BLE001  (some __repr__ fail on multi-valued objects)
        return "<%s, %s values>" % (type(r).__name__, len(getattr(r, "data", [])))


def single(fn):
    try:
        return True, fn()
    except Exception as ex:  # noqa: BLE001
        return False, type(ex).__name__


OPT_KW = {"": {}, "deg": {"unit": "deg"}, "xyz": {"order": "xyz"}, "yxz": {"order": "yxz"},
          "xyz+deg": {"order": "xyz", "unit": "deg"}, "flip": {"flip": True}, "twist": {"twist": True}}


def call_unary(x, f, opt=""):
    if f.startswith("->"):
        import c04
        return c04.convert(type(x).__name__, f[2:], x, False)
    a = getattr(x, f)
    return a(**OPT_KW[opt]) if callable(a) else a


def build_call(e):
    """the call of a Dispatch case: (full, one, operands) - full() evaluates it on the multi-valued operands, one(i, j)
    on the single-valued picks; operands: every object the call receives (receiver, right operand, keyword objects)"""
    op, L, R = e["op"], e["l"], e["r"]
    lc, m, rc, n = L["c"], L["n"], R["c"], R["n"]
    opt = R.get("opt", "")
    if op in OPS:
        a = inject(lc, left_ids(m))
        if rc in elems.SPEC:
            b = inject(rc, right_ids(op, n))
            bs = [inject(rc, [k]) for k in right_ids(op, n)]
        else:
            b = foreign(rc, lc)
            bs = [b]
        as_ = [inject(lc, [k]) for k in left_ids(m)]
        full = lambda: OPS[op](a, b)                                    # noqa: E731
        one = lambda i, jx: OPS[op](as_[i - 1], bs[jx - 1])             # noqa: E731
        operands = [a, b]
    elif op == "exp-vector":
        x = inject(lc, left_ids(m))
        xs = [inject(lc, [k]) for k in left_ids(m)]
        thv = [0.3 + 0.45 * i for i in range(n)]
        thv_arg = thv if m % 2 else np.array(thv)                       # list and ndarray forms
        full = lambda: x.exp(thv_arg)                                   # noqa: E731
        one = lambda i, jx: xs[i - 1].exp(thv[jx - 1])                  # noqa: E731
        operands = [x, thv_arg]
    elif op == "interp":
        x = inject(lc, [7])
        svec = [0.1 + 0.2 * i for i in range(n)]
        kw = {}
        if "start" in opt:
            kw["start"] = inject(lc, [90])
        if "dest" in opt:
            # a destination in the opposite hemisphere (negative inner product): the arc then
            # depends on `shortest`
            far = inject(lc, [200])
            if float(np.dot(np.ravel(far.data[0]), np.ravel(x.data[0]))) > 0:
                far.data[0] = -far.data[0]
            kw["dest"] = far
        if "shortest" in opt:
            kw["shortest"] = True
            if "dest" not in opt and np.ravel(x.data[0])[0] > 0:
                x.data[0] = -x.data[0]
        full = lambda: x.interp(svec, **kw)                             # noqa: E731
        one = lambda i, jx: x.interp(svec[jx - 1], **kw)                # noqa: E731
        operands = [x, svec] + [v for v in kw.values() if not isinstance(v, bool)]
    else:
        x = inject(lc, left_ids(m))
        xs = [inject(lc, [k]) for k in left_ids(m)]
        full = lambda: call_unary(x, op, opt)                           # noqa: E731
        one = lambda i, jx: call_unary(xs[i - 1], op, opt)              # noqa: E731
        operands = [x]
    return full, one, operands


def run_case(j, e):
    op, L, R, out = e["op"], e["l"], e["r"], e["out"]
    doc = out["doc"]
    lc, m, rc, n = L["c"], L["n"], R["c"], R["n"]
    opt = R.get("opt", "")
    cid = (op, lc, rc, m, n, opt)
    feat = "%s%s;len(%d,%d)" % (rc, ("[" + opt + "]") if opt else "", m, n)
    site = "%s.%s" % (lc, "__or__" if op == "|" else op)
    if doc["k"] in ("unspec",):
        j.skip("not specified (empty operand, undocumented cell or method not named by C09)")
        if op not in OPS and m >= 1:       # extra per-value methods: explored and reported
            x = inject(lc, left_ids(m))
            ok, r = single(lambda: call_unary(x, op, opt))
            j.count("explored_extra_%s" % ("ok" if ok else "raises"))
        return
    if doc["k"] == "raise" and doc.get("e") != "ValueError":
        j.skip("must-raise cell of the operator table: judged by C08")
        return
    # ---- build the call
    detail = {"op": op, "l": L, "r": R, "expected": out}
    full, one, _operands = build_call(e)
    # ---- length mismatch must raise ValueError
    if doc["k"] == "raise":
        ok, r = single(full)
        if ok:
            j.fail("%s|%s|%s|no-exception" % (PID, site, feat), dict(detail, got=srepr(r)), cid)
        elif r != "ValueError":
            j.fail("%s|%s|%s|raised-%s-instead-of-ValueError" % (PID, site, feat, r), detail, cid)
        else:
            j.ok(cid)
        return
    # ---- the statement's oracle: the single-valued operation on the picked elements
    exp = []
    for (pi, pj) in out["picks"]:
        ok, v = single(lambda: one(pi, pj))
        if not ok:
            j.skip("single-valued operation itself raises (not a broadcasting matter)")
            return
        exp.append(v)
    ok, r = single(full)
    if not ok:
        j.fail("%s|%s|%s|raised-%s" % (PID, site, feat, r), detail, cid)
        return
    got = items(r, out["len"], exp)
    if got is None:
        j.fail("%s|%s|%s|wrong-length" % (PID, site, feat),
               dict(detail, got=srepr(r)), cid)
        return
    bad = [i + 1 for i, (g, x_) in enumerate(zip(got, exp)) if not same(g, x_)]
    if bad:
        j.fail("%s|%s|%s|wrong-element" % (PID, site, feat),
               dict(detail, wrong_positions=bad, got=srepr(r)), cid)
    else:
        j.ok(cid, nontrivial=(m > 1 or n > 1))
        if len(j.samples) < 4 and m > 1 and n > 1:
            j.sample({"case": e})


def spread(lc, m):
    """m members of class lc that are far apart and NOT monotone (angles either side of +-pi, different axes,
    both signs of a quaternion): a per-value result must not depend on the neighbouring values"""
    import gamma
    import math
    ang = [3.0, -3.0, 2.0, -2.0, 0.1][:m]
    out = []
    for k, a in enumerate(ang):
        R = [gamma.rotz, gamma.rotx, gamma.roty][k % 3](a) @ gamma.rotz(0.3 * k)
        if k == 2:          # pitch exactly +90 degrees: the singular branch of the roll-pitch-yaw extraction
            R = gamma.rotz(0.7) @ gamma.roty(math.pi / 2) @ gamma.rotx(0.4)
        elif k == 3:        # middle Euler angle 0: the singular branch of the Euler extraction
            R = gamma.rotz(0.5)
        t = np.array([1.0 + k, -2.0 * k, 0.5])
        if lc == "SO2":
            out.append(gamma.rotz(a)[:2, :2])
        elif lc == "SE2":
            out.append(gamma.real_T3(a, t[:2]))
        elif lc == "SO3":
            out.append(R)
        elif lc == "SE3":
            T = np.eye(4)
            T[:3, :3], T[:3, 3] = R, t
            out.append(T)
        elif lc == "UnitQuaternion":
            q = np.r_[math.cos(a / 2), math.sin(a / 2) * np.array([0.6, 0.0, 0.8])]
            if k in (2, 3):     # the singular configurations above, as quaternions (product of axis quaternions)
                def qm(p_, r_):
                    return np.r_[p_[0] * r_[0] - np.dot(p_[1:], r_[1:]), p_[0] * r_[1:] + r_[0] * p_[1:] + np.cross(p_[1:], r_[1:])]

                def qa(ax, th):
                    v_ = np.zeros(3)
                    v_[ax] = math.sin(th / 2)
                    return np.r_[math.cos(th / 2), v_]
                q = qm(qm(qa(2, 0.7), qa(1, math.pi / 2)), qa(0, 0.4)) if k == 2 else qa(2, 0.5)
            out.append(q if k % 2 == 0 else -q)
        elif lc == "Quaternion":
            out.append(np.array([a, 1.0 + k, -2.0, 0.5 * k]))
        elif lc == "Twist3":
            out.append(np.r_[t, a * np.array([0.6, 0.0, 0.8])])
        elif lc == "Twist2":
            out.append(np.r_[t[:2], a])
        else:
            return None
    return out


def spread_case(j, e):
    """the same per-value accessor / unary method on an object holding SPREAD values"""
    op, L, R, out = e["op"], e["l"], e["r"], e["out"]
    lc, m = L["c"], L["n"]
    opt = R.get("opt", "")
    if op in OPS or op in ("interp", "exp-vector") or op.startswith("->") or m < 2 or out["doc"]["k"] in ("unspec", "raise"):
        return
    vals = spread(lc, m)
    if vals is None:
        return
    C = elems.CLS[lc]
    x = C()
    x.data = [np.array(v, copy=True) for v in vals]
    singles = []
    for v in vals:
        y = C()
        y.data = [np.array(v, copy=True)]
        singles.append(y)
    cid = (op, lc, "spread", m, opt)
    feat = "%sspread-values;len=%d" % (("[" + opt + "];") if opt else "", m)
    site = "%s.%s" % (lc, op)
    exp = []
    for y in singles:
        ok, v = single(lambda: call_unary(y, op, opt))
        if not ok:
            j.skip("single-valued operation itself raises (not a broadcasting matter)")
            return
        exp.append(v)
    ok, r = single(lambda: call_unary(x, op, opt))
    if not ok:
        j.fail("%s|%s|%s|raised-%s" % (PID, site, feat, r), {"op": op, "cls": lc, "m": m, "opt": opt}, cid)
        return
    got = items(r, m, exp)
    if got is None:
        j.fail("%s|%s|%s|wrong-length" % (PID, site, feat), {"op": op, "cls": lc, "m": m, "got": srepr(r)}, cid)
        return
    bad = [i + 1 for i, (g, x_) in enumerate(zip(got, exp)) if not same(g, x_)]
    if bad:
        j.fail("%s|%s|%s|wrong-element" % (PID, site, feat), {"op": op, "cls": lc, "m": m, "wrong_positions": bad, "got": srepr(r)}, cid)
    else:
        j.ok(cid)


def run(tier):
    j = Judge(PID)
    r = run_tlc("MC_Dispatch", "Dispatch_c09", timeout=300)
    seen = set()
    for e in r.json:
        key = (e["op"], e["l"]["c"], e["l"]["n"], e["r"]["c"], e["r"]["n"], e["r"].get("opt", ""))
        if key in seen:
            continue
        seen.add(key)
        run_case(j, e)
        spread_case(j, e)
    if len(seen) < 5000:
        raise MachineryError("C09 export too small: %d" % len(seen))
    n_cells = j.evaluations
    # behaviours of the multi-valued machine (SeqMachine.tla): broadcasting products, inverses, powers and list
    # operations interleaved on ONE live object whose every value is known exactly after every step
    import seqlib
    rs_small = run_tlc("MC_Seq", "Seq_small", timeout=900)          # invariants and action properties of the model
    nb = 400 if tier == "thorough" else 40
    sims, beh = [], 0
    for cfg, classes in (("Seq_sim", ["SE3", "Twist3"]), ("Seq_sim_rot", ["SO3", "UnitQuaternion"]),
                         ("Seq_sim_planar", ["SE2", "Twist2"]), ("Seq_sim_planar_rot", ["SO2"])):
        rs = run_tlc("MC_Seq", cfg, workers=1, simulate=nb, depth=40, seed_=common.seed() + 9, timeout=900)
        if len(rs.json) < nb // 2:
            raise MachineryError("sequence machine produced %d behaviours" % len(rs.json))
        sims.append(rs)
        for k, h in enumerate(rs.json):
            for c in classes:
                seqlib.replay(j, PID, c, h, sigma=[1.0, 1e3, 1e-3][k % 3] if c in ("SE3", "SE2", "Twist3", "Twist2") else 1.0)
                beh += 1
    j.sample({"behaviour(first 5 steps)": [{"call": {a: b for a, b in st["call"].items() if a not in ("ys", "g")},
                                              "len": len(st["post"])} for st in sims[0].json[0][:5]]})
    cov = {"states": r.distinct + rs_small.distinct, "transitions": r.generated + rs_small.generated + sum(x.generated for x in sims),
           "traces_validated_against_impl": n_cells + beh, "cases_enumerated": len(seen),
           "sequence_machine": {"exhaustive_small": rs_small.stats(), "behaviours_replayed": beh, "depth": 12,
                                "steps_compared": j.evaluations - n_cells},
           "exhaustive": True, "checker_cmd": r.cmd,
           "rule": "case = (operator or method, left class, right kind, m, n), m, n in 0..5; "
                   "non-trivial = at least one operand multi-valued; oracle = the library's "
                   "single-valued result on the elements Pick(i) selects"}
    return {"judge": j, "coverage": cov, "level": "model_checking", "assumptions": [
        "the single-valued operation is the oracle for element values of the table cells (its correctness is C02/C04); "
        "the sequence-machine behaviours are compared with EXACT values from the specification instead",
        "per-value results may be returned as object, list, or array stacked along the first or "
        "last axis (the statement does not fix the container)"]}


def replay(rp):
    j = Judge(PID)
    for c in rp["cases"]:
        e = {"op": c["op"], "l": c["l"], "r": c["r"], "out": c["expected"]}
        run_case(j, e)
    for k, v in j.failures.items():
        print(k, v[0])
    return 1 if j.failures else 0
