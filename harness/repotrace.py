"""Run the repository's own test-suite under the tracing plugin (no change to /repo)."""
import os
import subprocess
import sys

import common
from common import MachineryError

# the two tests that open interactive figures time out (900 s) in this sandbox and are in the
# baseline's always_fail list; everything else is traced
DESELECT = ["tests/base/test_transforms3d.py::Test3D::test_plot",
            "tests/test_pose2d.py::TestSE2::test_graphics"]


def run(tag, list_out=None, ops_out=None):
    d = os.path.join(common.BUILD, tag)
    os.makedirs(d, exist_ok=True)
    env = dict(os.environ)
    env.update({"SPATIALMATH_PYTHON_VERIF": "1", "MPLBACKEND": "Agg",
                "PYTHONPATH": os.path.join(common.VERIF, "harness"),
                "PYTHONDONTWRITEBYTECODE": "1"})
    outs = []
    if list_out:
        env["SMTRACE_OUT"] = os.path.join(d, list_out)
        outs.append(env["SMTRACE_OUT"])
    if ops_out:
        env["SMTRACE_OPS"] = "1"
        env["OPTRACE_OUT"] = os.path.join(d, ops_out)
        outs.append(env["OPTRACE_OUT"])
    for o in outs:
        if os.path.exists(o):
            os.remove(o)
    args = ["tests"]
    for t in DESELECT:
        args += ["--deselect", t]
    p = subprocess.run([sys.executable, "-m", "pytest", "-q", "-p", "no:cacheprovider", "-p",
                        "smtrace_plugin", "-W", "ignore", "--timeout=120"] + args,
                       cwd=common.REPO, env=env, stdout=subprocess.PIPE, stderr=subprocess.STDOUT,
                       text=True, timeout=900)
    for o in outs:
        if not os.path.exists(o):
            raise MachineryError("repository tests produced no trace %s:\n%s" % (o, p.stdout[-2000:]))
    lines = p.stdout.strip().splitlines()
    return [common.read_ndjson(o) for o in outs], (lines[-1] if lines else "")
