"""C06 - applying a pose to points is the rigid motion p -> R p + t.

Spec: PointAction.tla (exact Act on rational points; laws (XY)p = X(Yp), X^-1(Xp) = p, distance
and handedness preservation are TLC-checked assumptions of the model).  TLC enumerates every
call form: one pose x N points (N = 1..7) in every container form, k poses (2..5) x one point, in
3D and 2D.  Each is executed through every route - matrix class, unit quaternion, unit dual
quaternion, homtrans, qvmul - at data scales 1e-6, 1, 1e6 and compared with the exact columns.
"""
import random

import numpy as np

import common
from common import Judge, MachineryError, run_tlc
import gamma

PID = "C06"
TOL = 1e-9
SIGMAS = [1e-6, 1.0, 1e6]


def rat(cols, sigma):
    return np.array([[c / float(p["d"]) * sigma for c in p["v"]] for p in cols]).T      # (3, n)


def form_point(p, form, d, et="float"):
    v = [int(c) if et == "int" else float(c) for c in p[:d]]
    if form == "list":
        return v
    if form == "tuple":
        return tuple(v)
    if form == "array":
        return np.array(v)
    if form == "row":
        return np.array(v).reshape(1, d)
    if form == "column":
        return np.array(v).reshape(d, 1)
    raise MachineryError(form)


def routes(dim, call, sigma):
    """yield (label, thunk, which) ; which = 'full' (R p + t) or 'rot' (R p)"""
    from spatialmath import SO2, SE2, SO3, SE3, UnitQuaternion
    from spatialmath.DualQuaternion import UnitDualQuaternion
    import spatialmath.base as base
    form = call["form"]
    pts = [[c * sigma for c in p] for p in call["pts"]]
    if call["op"] == "compose":
        ha, hb, mode = call["a"], call["b"], call["mode"]
        P = np.array(pts[0][:dim], dtype=float)
        if dim == 3:
            mk = {"SE3": lambda h: SE3(gamma.T4(h, sigma)), "SO3": lambda h: SO3(gamma.R3(h)),
                  "UnitQuaternion(q)": lambda h: UnitQuaternion(gamma.qvec(h)),
                  "UnitQuaternion(R)": lambda h: UnitQuaternion(SO3(gamma.R3(h))),
                  "UnitDualQuaternion": lambda h: UnitDualQuaternion(SE3(gamma.T4(h, sigma)))}
            full = {"SE3", "UnitDualQuaternion"}
        else:
            mk = {"SE2": lambda h: SE2(gamma.T3(h, sigma)), "SO2": lambda h: SO2(gamma.T3(h)[:2, :2])}
            full = {"SE2"}
        for name, f in mk.items():
            which = "full" if name in full else "rot"
            if mode == "(XY)p":
                yield name + ":(X*Y)*p", (lambda f=f: (f(ha) * f(hb)) * P), which
            elif mode == "X(Yp)":
                yield name + ":X*(Y*p)", (lambda f=f: f(ha) * np.asarray(f(hb) * P).flatten()), which
            elif name != "UnitDualQuaternion":
                yield name + ":X.inv()*(X*p)", (lambda f=f: f(ha).inv() * np.asarray(f(ha) * P).flatten()), which
            if name == "UnitDualQuaternion" and mode == "(XY)p":
                yield name + ":(X*Y).SE3()*p", (lambda f=f: (f(ha) * f(hb)).SE3() * P), which
        return
    if call["op"] == "many-inv":
        hs = call["poses"]
        P = np.array(pts[0][:dim], dtype=float)

        def back1(X):
            Y = np.asarray(X * P, dtype=float)             # one column per pose value
            Xi = X.inv()
            return np.column_stack([np.asarray(Xi[k] * Y[:, k], dtype=float).flatten() for k in range(len(hs))])

        def back(X):
            # X.inv() * (X * p) == p - and again after the object has been edited through its list interface
            # (values reversed, first value replaced): the inverse must be that of the values held NOW
            r1 = back1(X)
            if not np.allclose(r1, np.column_stack([P] * len(hs)), rtol=0, atol=1e-6 * max(1.0, float(np.max(np.abs(P))))):
                return r1
            X.reverse()
            X[0] = X[len(X) - 1]
            return back1(X)
        if dim == 3:
            yield "SE3[k].inv()", (lambda: back(SE3([gamma.T4(h, sigma) for h in hs]))), "full"
            yield "SO3[k].inv()", (lambda: back(SO3([gamma.R3(h) for h in hs]))), "rot"
            yield "UnitQuaternion[k].inv()", (lambda: back(UnitQuaternion([UnitQuaternion(gamma.qvec(h)) for h in hs]))), "rot"
        else:
            yield "SE2[k].inv()", (lambda: back(SE2([gamma.T3(h, sigma) for h in hs]))), "full"
            yield "SO2[k].inv()", (lambda: back(SO2([gamma.T3(h)[:2, :2] for h in hs]))), "rot"
        return
    if call["op"] == "one-to-many":
        h = call["pose"]
        et = call.get("et", "float")
        if et == "int" and sigma != 1.0:
            return                      # integer points exist at the unit scale only
        if form == "matrix":
            P = np.array(pts, dtype=int if et == "int" else float).T[:dim, :]
        else:
            P = form_point(pts[0], form, dim, et)
        if dim == 3:
            T, R, q = gamma.T4(h, sigma), gamma.R3(h), gamma.qvec(h)
            yield "SE3*", (lambda: SE3(T) * P), "full"
            yield "SO3*", (lambda: SO3(R) * P), "rot"
            yield "UnitQuaternion*", (lambda: UnitQuaternion(q) * P), "rot"
            yield "UnitQuaternion(R)*", (lambda: UnitQuaternion(SO3(R)) * P), "rot"
            # ... and through the pose recovered from the unit dual quaternion
            yield "UnitDualQuaternion.SE3()*", (lambda: UnitDualQuaternion(SE3(T)).SE3() * P), "full"
            if form != "matrix":
                yield "UnitDualQuaternion*", (lambda: UnitDualQuaternion(SE3(T)) * P), "full"
                if form in ("list", "tuple", "array"):
                    yield "base.qvmul", (lambda: base.qvmul(q, P)), "rot"
            if form in ("matrix", "column"):
                yield "base.homtrans", (lambda: base.homtrans(T, np.asarray(P, dtype=float))), "full"
        else:
            T, R = gamma.T3(h, sigma), gamma.T3(h)[:2, :2]
            yield "SE2*", (lambda: SE2(T) * P), "full"
            yield "SO2*", (lambda: SO2(R) * P), "rot"
            if form in ("matrix", "column"):
                yield "base.homtrans(2D)", (lambda: base.homtrans(T, np.asarray(P, dtype=float))), "full"
    else:
        hs = call["poses"]
        P = form_point(pts[0], form, dim)
        if dim == 3:
            yield "SE3[k]*", (lambda: SE3([gamma.T4(h, sigma) for h in hs]) * P), "full"
            yield "SO3[k]*", (lambda: SO3([gamma.R3(h) for h in hs]) * P), "rot"
            yield "UnitQuaternion[k]*", (lambda: UnitQuaternion([UnitQuaternion(gamma.qvec(h)) for h in hs]) * P), "rot"
            # a unit quaternion object built from a multi-valued pose OBJECT (rotation parts, one per value)
            yield "UnitQuaternion(SO3[k])*", (lambda: UnitQuaternion(SO3([gamma.R3(h) for h in hs])) * P), "rot"
            yield "UnitQuaternion(SE3[k])*", (lambda: UnitQuaternion(SE3([gamma.T4(h, sigma) for h in hs])) * P), "rot"
            # the rotation-matrix route of a multi-valued object: its .R stack, one matrix per value
            Pv = np.asarray(P, dtype=float).flatten()
            yield "UnitQuaternion[k].R@", (lambda: np.column_stack(
                [np.asarray(UnitQuaternion([UnitQuaternion(gamma.qvec(h)) for h in hs]).R)[i] @ Pv for i in range(len(hs))])), "rot"
            yield "SO3[k].R@", (lambda: np.column_stack([np.asarray(SO3([gamma.R3(h) for h in hs]).R)[i] @ Pv for i in range(len(hs))])), "rot"
            yield "SE3[k].R@+t", (lambda: np.column_stack(
                [np.asarray(SE3([gamma.T4(h, sigma) for h in hs]).R)[i] @ Pv + np.asarray(SE3([gamma.T4(h, sigma) for h in hs]).t)[i]
                 for i in range(len(hs))])), "full"
        else:
            yield "SE2[k]*", (lambda: SE2([gamma.T3(h, sigma) for h in hs]) * P), "full"
            yield "SO2[k]*", (lambda: SO2([gamma.T3(h)[:2, :2] for h in hs]) * P), "rot"


TINY = {"1e-9": 1e-9, "1e-8": 1e-8, "1e-7": 1e-7, "4e-7": 4e-7, "1e-6": 1e-6, "1e-5": 1e-5, "2pi-1e-7": 2 * np.pi - 1e-7,
        "pi-1e-9": np.pi - 1e-9, "pi-1e-7": np.pi - 1e-7, "pi-1e-5": np.pi - 1e-5, "pi": np.pi}


def tiny_case(j, dim, e, sigma):
    """a tiny rotation applied to a point through every route; expected = Rodrigues' formula from cos / sin"""
    from spatialmath import SO2, SO3, SE3, UnitQuaternion
    import spatialmath.base as base
    import math
    call = e["call"]
    th = TINY[call["tag"]]
    ax = np.array(call["axis"], dtype=float)
    if dim == 2 and list(call["axis"]) != [0, 0, 1]:
        return
    u = ax / np.linalg.norm(ax)
    p = np.array(call["pts"][0], dtype=float) * sigma
    c, s_ = math.cos(th), math.sin(th)
    # R p = p cos + (u x p) sin + u (u.p)(1 - cos), with 1 - cos = 2 sin^2(th/2) (no cancellation)
    exp = p * c + np.cross(u, p) * s_ + u * float(np.dot(u, p)) * 2 * math.sin(th / 2) ** 2
    K = np.array([[0, -u[2], u[1]], [u[2], 0, -u[0]], [-u[1], u[0], 0]])
    R = np.eye(3) + s_ * K + 2 * math.sin(th / 2) ** 2 * (K @ K)
    q = np.r_[math.cos(th / 2), math.sin(th / 2) * u]
    mag = max(1e-300, float(np.max(np.abs(p))))
    feat = "tiny-rotation;theta=%s;sigma=%g" % (call["tag"], sigma)
    if dim == 3:
        rts = {"SO3*": lambda: SO3(R, check=False) * p, "SE3*": lambda: SE3(base.r2t(R), check=False) * p,
               "UnitQuaternion(q)*": lambda: UnitQuaternion(q) * p,
               "UnitQuaternion.AngVec*": lambda: UnitQuaternion.AngVec(th, u) * p,
               "UnitQuaternion(R)*": lambda: UnitQuaternion(SO3(R, check=False)) * p,
               "base.qvmul": lambda: base.qvmul(q, p),
               "UnitQuaternion(q)*(3x2)": lambda: np.asarray(UnitQuaternion(q) * np.column_stack([p, p]))[:, 1]}
        if list(call["axis"]) in ([1, 0, 0], [0, 1, 0], [0, 0, 1]):
            nm = "R" + "xyz"[call["axis"].index(1)]
            rts["UnitQuaternion.%s*" % nm] = lambda: getattr(UnitQuaternion, nm)(th) * p
            rts["SO3.%s*" % nm] = lambda: getattr(SO3, nm)(th) * p
    else:
        exp = exp[:2]
        p2 = p[:2]
        rts = {"SO2*": lambda: SO2(R[:2, :2], check=False) * p2, "SO2(theta)*": lambda: SO2(th) * p2}
        mag = max(1e-300, float(np.max(np.abs(p2))))
    for label, thunk in rts.items():
        cid = (label, "tiny", call["tag"])
        detail = {"kind": "tiny-rotation", "route": label, "theta": th, "axis": call["axis"], "point": p.tolist(), "expected": exp.tolist()}
        try:
            r = np.asarray(thunk(), dtype=float).flatten()
        except Exception as ex:  # noqa: BLE001
            j.fail("%s|%s|%s|raised-%s" % (PID, label, feat, type(ex).__name__), detail, cid)
            continue
        d = float(np.max(np.abs(r - exp))) if r.shape == exp.shape else float("inf")
        if not (d <= TOL * mag):
            j.fail("%s|%s|%s|wrong-point" % (PID, label, feat), dict(detail, distance=d, got=r.tolist()), cid)
        else:
            j.ok(cid)


def run_case(j, dim, e, sigma):
    call = e["call"]
    if call["op"] == "tiny-rotation":
        return tiny_case(j, dim, e, sigma)
    n = len(e["out"])
    exp_full = rat(e["out"], sigma)[:dim, :]
    exp_rot = rat(e["outR"], sigma)[:dim, :]
    mag = max(1e-300, float(np.max(np.abs(exp_full))), float(np.max(np.abs(np.array(call["pts"], dtype=float)))) * sigma)
    if call["op"] == "compose":
        # intermediate translations also set the data magnitude of the expression
        for h in (call["a"], call["b"]):
            mag = max(mag, gamma.tscale(h, sigma=sigma))
    many = call["op"] in ("many-to-one", "many-inv")
    for label, thunk, which in routes(dim, call, sigma):
        exp = exp_full if which == "full" else exp_rot
        feat = "%s;%s%s;n=%d;sigma=%g" % (call["op"], call["form"], ";int" if call.get("et") == "int" else "", n, sigma)
        cid = (label, call["op"], call["form"], call.get("et", "float"), n, sigma)
        detail = {"kind": "points", "dim": dim, "route": label, "sigma": sigma, "call": call,
                  "expected": exp.tolist()}
        try:
            r = np.asarray(thunk(), dtype=float)
        except Exception as ex:  # noqa: BLE001
            j.fail("%s|%s|%s|raised-%s" % (PID, label, feat, type(ex).__name__), detail, cid)
            continue
        # shape: N-column input -> (d, N); k poses x one point -> (d, k); one point: any of (d,), (d,1), (1,d)
        if (call["form"] == "matrix" and n > 1) or many:
            shape_ok = r.shape == (dim, n)
            got = r if shape_ok else None
        else:
            shape_ok = r.size == dim
            got = r.reshape(dim, 1) if shape_ok else None
        if not shape_ok:
            j.fail("%s|%s|%s|wrong-shape" % (PID, label, feat), dict(detail, got_shape=list(r.shape)), cid)
            continue
        d = float(np.max(np.abs(got - exp)))
        if not (d <= TOL * mag):
            j.fail("%s|%s|%s|wrong-point" % (PID, label, feat), dict(detail, distance=d, got=got.tolist()), cid)
        else:
            j.ok(cid, nontrivial=n > 1 or call["form"] != "array")


def valuations(j, rng, n):
    """the whole group, real data: random rotations (tiny, generic, within 1e-6 of a half turn), translations and
    points of magnitude 1e-6 .. 1e6; every route against R p + t computed here, and the laws of the statement"""
    import math
    from spatialmath import SO2, SE2, SO3, SE3, UnitQuaternion
    from spatialmath.DualQuaternion import UnitDualQuaternion
    import spatialmath.base as b
    import ctorlib
    for i in range(n):
        ang = [10 ** rng.uniform(-9, -2), rng.uniform(0.05, 3.0), math.pi - 10 ** rng.uniform(-9, -3), rng.uniform(-3.1, 3.1)][i % 4]
        u = np.array([rng.gauss(0, 1) for _ in range(3)])
        u /= np.linalg.norm(u)
        R = ctorlib._axis_rot(list(u), ang)
        mag = 10 ** rng.uniform(-6, 6)
        t = np.array([rng.uniform(-1, 1) for _ in range(3)]) * mag
        npts = 1 + i % 7
        P = np.array([[rng.uniform(-1, 1) for _ in range(npts)] for _ in range(3)]) * mag
        band = "angle=%s;mag=1e%d;N=%d" % (["tiny", "generic", "near-pi", "any"][i % 4], int(math.floor(math.log10(mag) / 3) * 3), npts)
        T = b.rt2tr(R, t)
        Tu = b.rt2tr(R, t / mag * min(mag, 1e3))          # the dual quaternion route holds t q / 2: moderate translations
        exp_full, exp_rot = R @ P + t[:, None], R @ P
        arg = P if npts > 1 else P[:, 0]
        rts = {"SE3*": (lambda: SE3(T) * arg, exp_full), "SO3*": (lambda: SO3(R) * arg, exp_rot),
               "UnitQuaternion(R)*": (lambda: UnitQuaternion(SO3(R)) * arg, exp_rot),
               "homtrans": (lambda: b.homtrans(T, P), exp_full),
               "h2e(T@e2h)": (lambda: b.h2e(T @ b.e2h(P)), exp_full),
               "UnitDualQuaternion*": ((lambda: np.column_stack([np.asarray(UnitDualQuaternion(SE3(Tu)) * P[:, k]).flatten() for k in range(npts)])),
                                       R @ P + Tu[:3, 3][:, None]),
               "SE3.inv()*(SE3*p)": (lambda: SE3(T).inv() * (SE3(T) * arg), P)}
        Y = SE3(b.rt2tr(ctorlib._axis_rot([0.6, 0.0, 0.8], rng.uniform(-3, 3)), t[::-1].copy()))
        rts["(X*Y)*p"] = (lambda: (SE3(T) * Y) * arg, R @ (Y.R @ P + np.asarray(Y.t)[:, None]) + t[:, None])
        rts["X*(Y*p)"] = (lambda: SE3(T) * (Y * arg), rts["(X*Y)*p"][1])
        for site, (fn, want) in rts.items():
            cid = ("valuation", site, band.split(";")[0])
            try:
                got = np.asarray(fn(), dtype=float).reshape(3, -1)
            except Exception as ex:  # noqa: BLE001
                j.fail("%s|%s|%s|raised-%s" % (PID, site, band, type(ex).__name__), {"kind": "valuation", "T": T.tolist(), "P": P.tolist()}, cid)
                continue
            d = float(np.max(np.abs(got - want))) if got.shape == want.shape else float("inf")
            # 1e-9 relative to the data magnitude (translation and points have the same magnitude here)
            if not (d <= TOL * max(mag, 1e-300)):
                j.fail("%s|%s|%s|wrong-point" % (PID, site, band), {"kind": "valuation", "T": T.tolist(), "P": P.tolist(), "distance": d, "mag": mag}, cid)
            else:
                j.ok(cid)
        # distances and handedness are preserved
        if npts >= 4:
            cid = ("valuation", "distance-handedness")
            try:
                Q = np.asarray(SE3(T) * P, dtype=float)
                if Q.shape != P.shape:
                    raise ValueError("shape %s" % (Q.shape,))
                d0 = np.linalg.norm(P[:, 1:] - P[:, :1], axis=0)
                d1 = np.linalg.norm(Q[:, 1:] - Q[:, :1], axis=0)
                h0 = float(np.linalg.det(P[:, 1:4] - P[:, :1])) / mag ** 3
                h1 = float(np.linalg.det(Q[:, 1:4] - Q[:, :1])) / mag ** 3
                ok = float(np.max(np.abs(d0 - d1))) <= TOL * mag and abs(h0 - h1) <= 1e-6 * max(1.0, abs(h0))
            except Exception:  # noqa: BLE001  a result of the wrong shape (or no result) preserves nothing
                ok = False
            if not ok:
                j.fail("%s|SE3*|%s|distance-or-handedness-changed" % (PID, band), {"kind": "valuation", "T": T.tolist(), "P": P.tolist()}, cid)
            else:
                j.ok(cid)
        # 2D
        th = ang if i % 2 else -ang
        R2 = np.array([[math.cos(th), -math.sin(th)], [math.sin(th), math.cos(th)]])
        H = b.rt2tr(R2, t[:2])
        P2 = P[:2]
        arg2 = P2 if npts > 1 else P2[:, 0]
        for site, fn, want in (("SE2*", lambda: SE2(H) * arg2, R2 @ P2 + t[:2, None]), ("SO2*", lambda: SO2(R2) * arg2, R2 @ P2),
                               ("homtrans(2D)", lambda: b.homtrans(H, P2), R2 @ P2 + t[:2, None]),
                               ("SE2.inv()*(SE2*p)", lambda: SE2(H).inv() * (SE2(H) * arg2), P2)):
            cid = ("valuation", site, band.split(";")[0])
            try:
                got = np.asarray(fn(), dtype=float).reshape(2, -1)
            except Exception as ex:  # noqa: BLE001
                j.fail("%s|%s|%s|raised-%s" % (PID, site, band, type(ex).__name__), {"kind": "valuation", "H": H.tolist(), "P": P2.tolist()}, cid)
                continue
            d = float(np.max(np.abs(got - want))) if got.shape == want.shape else float("inf")
            if not (d <= TOL * mag):
                j.fail("%s|%s|%s|wrong-point" % (PID, site, band), {"kind": "valuation", "H": H.tolist(), "P": P2.tolist(), "distance": d}, cid)
            else:
                j.ok(cid)


def run(tier):
    j = Judge(PID)
    stats = {}
    tot_s = tot_t = ncase = 0
    for dim, cfg in ((3, "Point3"), (2, "Point2")):
        r = run_tlc("MC_Point", cfg, timeout=300)
        stats[cfg] = r.stats()
        tot_s += r.distinct
        tot_t += r.generated
        seen = set()
        for e in r.json:
            key = str(e["call"])
            if key in seen:
                continue
            seen.add(key)
            ncase += 1
            for s in SIGMAS:
                run_case(j, dim, e, s)
        if len(seen) < 300:
            raise MachineryError("point export too small")
        j.sample({"case": r.json[len(r.json) // 2]})
    lat = j.evaluations
    valuations(j, random.Random(common.seed() + 6), 2000 if tier == "thorough" else 120)
    cov = {"states": tot_s, "transitions": tot_t, "traces_validated_against_impl": ncase, "tlc": stats,
           "exhaustive": True, "lattice_exact": lat, "valuation": j.evaluations - lat,
           "rule": "case = (route, call form, container form, number of points / poses, data scale); poses from a "
                   "fixed list of lattice and rational motions, integer points; non-trivial = more than one column "
                   "or a non-default container form"}
    return {"judge": j, "coverage": cov, "level": "model_checking", "assumptions": [
        "expected points are exact rationals from TLC scaled by sigma (homogeneity of p -> R p + t when t and p "
        "scale together)", "a single point result may be (d,), (d,1) or (1,d): the statement does not fix it"]}


def replay(rp):
    j = Judge(PID)
    for c in rp["cases"]:
        print(c["route"], c["call"]["form"], c.get("distance"), c.get("got_shape"))
    return 0
