"""pytest plugin: record list events of the repository's own tests (no change to /repo).

    SPATIALMATH_PYTHON_VERIF=1 SMTRACE_OUT=<file> PYTHONPATH=/verif/harness \
        python -m pytest -p smtrace_plugin tests/...
"""
import json
import os


def pytest_configure(config):
    if os.environ.get("SPATIALMATH_PYTHON_VERIF") != "1":
        return
    import smtrace
    smtrace.install_list_wrappers()
    if os.environ.get("SMTRACE_OPS") == "1":
        import optrace
        optrace.install()


def pytest_unconfigure(config):
    if os.environ.get("SPATIALMATH_PYTHON_VERIF") != "1":
        return
    import smtrace
    out = os.environ.get("SMTRACE_OUT")
    if out:
        with open(out, "w") as f:
            for e in smtrace.REC.events:
                f.write(json.dumps(e, separators=(",", ":")) + "\n")
    if os.environ.get("SMTRACE_OPS") == "1" and os.environ.get("OPTRACE_OUT"):
        import optrace
        optrace.dump(os.environ["OPTRACE_OUT"])
