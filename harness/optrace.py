"""Recording operator calls of real executions at the dunder level (Direction B for C08/C09).

Event: {"op", "l": {"c","n"}, "r": {"c","n"}, "res": {"k", "cls", "n"}}.  At this level
NotImplemented is the legitimate outcome "defer" (Python then tries the reflected method).
"""
import functools
import json
import os

import numpy as np

EVENTS = []
_depth = [0]

BIN = {"__mul__": ("*", False), "__rmul__": ("*", True), "__truediv__": ("/", False),
       "__rtruediv__": ("/", True), "__add__": ("+", False), "__radd__": ("+", True),
       "__sub__": ("-", False), "__rsub__": ("-", True), "__pow__": ("**", False),
       "__matmul__": ("@", False), "__eq__": ("==", False), "__ne__": ("!=", False),
       "__xor__": ("^", False), "__or__": ("|", False)}

CLASSES = ["SO2", "SE2", "SO3", "SE3", "Quaternion", "UnitQuaternion", "Twist2", "Twist3", "Plucker",
           "SpatialVelocity", "SpatialAcceleration", "SpatialForce", "SpatialMomentum",
           "SpatialInertia", "DualQuaternion", "UnitDualQuaternion"]
DIM = {"SO2": 2, "SE2": 2, "Twist2": 2}


def kind(x, other=None):
    n = type(x).__name__
    if n in CLASSES:
        return {"c": n, "n": len(x.data) if hasattr(x, "data") and isinstance(x.data, list) else 1}
    if isinstance(x, (bool, np.bool_)):
        return {"c": "Other", "n": 1}
    if isinstance(x, (int, np.integer)):
        return {"c": "Int", "n": 1}
    if isinstance(x, (float, np.floating)):
        return {"c": "Float", "n": 1}
    if isinstance(x, (list, tuple, np.ndarray)):
        try:
            a = np.asarray(x, dtype=float)
            d = DIM.get(type(other).__name__, 3)
            if (a.ndim == 1 and a.shape[0] == d) or (a.ndim == 2 and a.shape[0] == d):
                return {"c": "Vec", "n": 1}
        except Exception:  # noqa: BLE001
            pass
        return {"c": "BadArr", "n": 1}
    return {"c": "Other", "n": 1}


def outcome(r):
    if r is NotImplemented:
        return {"k": "defer"}
    if r is None:
        return {"k": "none"}
    if isinstance(r, (bool, np.bool_)):
        return {"k": "bool", "n": 1}
    if isinstance(r, (int, float, np.integer, np.floating)):
        return {"k": "scalar"}
    if isinstance(r, np.ndarray):
        return {"k": "array", "n": 1}
    if isinstance(r, (list, tuple)):
        if len(r) and all(isinstance(v, (bool, np.bool_)) for v in r):
            return {"k": "bool", "n": len(r)}
        if len(r) and all(isinstance(v, np.ndarray) for v in r):
            return {"k": "array", "n": len(r)}
        return {"k": "other"}
    n = type(r).__name__
    if n in CLASSES:
        return {"k": "obj", "cls": n,
                "n": len(r.data) if hasattr(r, "data") and isinstance(r.data, list) else 1}
    return {"k": "other"}


def _wrap(name, f):
    op, refl = BIN[name]

    @functools.wraps(f)
    def w(self, other):
        if _depth[0] > 0:
            return f(self, other)
        _depth[0] += 1
        res = None
        try:
            l, r = (other, self) if refl else (self, other)
            kl, kr = kind(l, r), kind(r, l)
            out = f(self, other)
            res = outcome(out)
            return out
        except Exception as e:
            res = {"k": "raise", "e": type(e).__name__}
            raise
        finally:
            _depth[0] -= 1
            try:
                EVENTS.append({"op": op, "refl": refl, "l": kl, "r": kr, "res": res})
            except Exception:  # noqa: BLE001
                pass
    w._optrace = True
    return w


def install():
    if os.environ.get("SPATIALMATH_PYTHON_VERIF") != "1":
        raise RuntimeError("tracing requires SPATIALMATH_PYTHON_VERIF=1")
    import spatialmath
    import spatialmath.DualQuaternion as dq
    import spatialmath.super_pose as sp
    import spatialmath.twist as tw
    import spatialmath.spatialvector as sv
    import spatialmath.smuserlist as sl
    seen = set()
    mods = [spatialmath, dq, sp, tw, sv, sl]
    classes = []
    for m in mods:
        for v in vars(m).values():
            if isinstance(v, type) and v.__module__.startswith("spatialmath") and v not in seen:
                seen.add(v)
                classes.append(v)
    for c in classes:
        for name in BIN:
            f = c.__dict__.get(name)
            if f is not None and callable(f) and not getattr(f, "_optrace", False):
                setattr(c, name, _wrap(name, f))


def dump(path):
    with open(path, "w") as f:
        for e in EVENTS:
            f.write(json.dumps(e, separators=(",", ":")) + "\n")
