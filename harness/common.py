"""Shared machinery: running TLC, collecting what it exports, findings, evidence.

Nothing in here knows any mathematics: expected values always come from TLC.
"""
import fnmatch
import hashlib
import json
import os
import re
import shutil
import subprocess
import sys
import time

VERIF = os.path.dirname(os.path.dirname(os.path.abspath(__file__)))
REPO = os.environ.get("VERIF_REPO", "/repo")
SPEC = os.path.join(VERIF, "spec")
BUILD = os.environ.get("VERIF_BUILD_DIR") or os.path.join(VERIF, "build")     # (override: development runs in parallel)
# evidence of runs against seeded changes (harness/mutants.py) must not overwrite the evidence of the real tree
EVID = os.environ.get("VERIF_EVIDENCE_DIR") or os.path.join(VERIF, "evidence")
REPLAYS = os.path.join(VERIF, "replays")
JAR = "/opt/veriftools/tla/tla2tools.jar:/opt/veriftools/tla/CommunityModules-deps.jar"
NCPU = os.cpu_count() or 4


class MachineryError(Exception):
    """TLC crashed, a spec does not parse, an export is missing ... exit code 2."""


def use_repo():
    """Import the library from /repo's working tree (no build step needed)."""
    sys.dont_write_bytecode = True
    if REPO not in sys.path:
        sys.path.insert(0, REPO)
    os.environ.setdefault("MPLBACKEND", "Agg")


def seed():
    try:
        return int(os.environ.get("VERIF_SEED", "0"))
    except ValueError:
        return 0


class TLCResult:
    def __init__(self):
        self.stdout = ""
        self.json = []          # decoded PrintT(ToJson(..)) lines, in output order
        self.generated = 0
        self.distinct = 0
        self.depth = 0
        self.exit = 0
        self.violated = None    # name of a violated invariant / property, if any
        self.coverage = {}      # action name -> (distinct, generated)
        self.wall = 0.0
        self.cmd = ""
        self.out_path = None
        self.njson = 0

    def iter_json(self):
        """Decode the exported lines one at a time (for exports too large to hold in memory)."""
        with open(self.out_path) as f:
            for line in f:
                if _JSON_LINE.match(line):
                    try:
                        yield json.loads(json.loads(line))
                    except ValueError:
                        pass

    def stats(self):
        return {"generated": self.generated, "distinct": self.distinct, "depth": self.depth}


_JSON_LINE = re.compile(r'^"[\[{]')


def run_tlc(module, cfg=None, tag=None, workers=None, simulate=None, depth=None,
            env=None, timeout=900, coverage=False, seed_=None, allow_violation=False,
            extra=None, dfs=False, stream=False, _retry=True):
    """Run TLC on spec/<module>.tla with spec/<cfg>.cfg.  Returns TLCResult.

    simulate: number of behaviours (-> -simulate num=N), depth: -depth D.
    Lines printed by PrintT(ToJson(x)) are decoded into result.json.
    """
    cfg = cfg or module
    tag = tag or cfg
    meta = os.path.join(BUILD, tag, "meta")
    shutil.rmtree(meta, ignore_errors=True)
    os.makedirs(meta, exist_ok=True)
    if workers is None:
        workers = NCPU
    if simulate is not None:
        # TLC's simulator with several workers occasionally dies with "Attempted to select nonexistent field" on a
        # record that HAS the field (a race on lazily normalised record values): simulation is always single-threaded
        workers = 1
    cmd = ["java", "-XX:+UseParallelGC", "-Xmx8g"]
    if dfs:
        cmd.append("-Dtlc2.tool.queue.IStateQueue=StateDeque")
    cmd += ["-cp", JAR, "tlc2.TLC", "-workers", str(workers), "-metadir", meta,
            "-noGenerateSpecTE", "-config", cfg + ".cfg"]
    if simulate is not None:
        cmd += ["-simulate", "num=%d" % simulate]
    if depth is not None:
        cmd += ["-depth", str(depth)]
    if seed_ is not None:
        cmd += ["-seed", str(seed_)]
    if coverage:
        cmd += ["-coverage", "1"]
    if extra:
        cmd += list(extra)
    cmd.append(module + ".tla")
    e = dict(os.environ)
    if env:
        e.update({k: str(v) for k, v in env.items()})
    t0 = time.time()
    out_path = os.path.join(BUILD, tag, "tlc.out")
    with open(out_path, "w") as fo:
        try:
            p = subprocess.run(cmd, cwd=SPEC, env=e, stdout=fo, stderr=subprocess.STDOUT,
                               timeout=timeout)
            rc = p.returncode
        except subprocess.TimeoutExpired:
            subprocess.run(["pkill", "-f", meta], check=False)
            raise MachineryError("TLC timeout after %ss: %s" % (timeout, " ".join(cmd)))
    r = TLCResult()
    r.wall = time.time() - t0
    r.exit = rc
    r.cmd = " ".join(cmd[cmd.index("tlc2.TLC"):])
    r.out_path = out_path
    other = []
    fin = open(out_path)
    for line in fin:
        line = line.rstrip("\n")
        if _JSON_LINE.match(line):
            if stream:          # large exports are decoded lazily by iter_json()
                r.njson += 1
                continue
            try:
                r.json.append(json.loads(json.loads(line)))
            except ValueError:
                pass
            continue
        other.append(line)
        m = re.match(r"(\d+) states generated, (\d+) distinct states found", line)
        if m:
            r.generated, r.distinct = int(m.group(1)), int(m.group(2))
        m = re.match(r"The number of states generated: (\d+)", line)
        if m:
            r.generated = int(m.group(1))
            r.distinct = r.distinct or 0
        m = re.match(r"The depth of the complete state graph search is (\d+)", line)
        if m:
            r.depth = int(m.group(1))
        m = re.match(r"Error: Invariant (\S+) is violated", line)
        if m:
            r.violated = m.group(1)
        m = re.match(r"Error: Action property (\S+) is violated", line)
        if m:
            r.violated = m.group(1)
        m = re.match(r"<(\w+) line \d+, col \d+ to line \d+, col \d+ of module (\w+)"
                     r"(?: \((\d+) \d+ \d+ \d+\))?>: (\d+):(\d+)", line)
        if m:
            a = m.group(1)
            if m.group(3):      # call site given: attribute to the enclosing definition
                a = _enclosing_def(m.group(2), int(m.group(3))) or a
            d, g = int(m.group(4)), int(m.group(5))
            od, og = r.coverage.get(a, (0, 0))
            r.coverage[a] = (max(od, d), max(og, g))
    fin.close()
    r.stdout = "\n".join(other)
    if not stream:
        r.njson = len(r.json)
    bad = rc != 0 or "Error:" in r.stdout
    if bad and not r.violated and _retry and "TLC threw an unexpected exception" in r.stdout:
        # an internal TLC failure (not a property violation): one more attempt, single-threaded
        return run_tlc(module, cfg=cfg, tag=tag, workers=1, simulate=simulate, depth=depth, env=env, timeout=timeout,
                       coverage=coverage, seed_=seed_, allow_violation=allow_violation, extra=extra, dfs=dfs,
                       stream=stream, _retry=False)
    if bad and not (allow_violation and r.violated):
        tail = "\n".join(r.stdout.splitlines()[-40:])
        raise MachineryError("TLC failed (rc=%s) on %s/%s:\n%s" % (rc, module, cfg, tail))
    return r


_DEFS = {}


def _enclosing_def(module, line):
    if module not in _DEFS:
        defs = []
        try:
            with open(os.path.join(SPEC, module + ".tla")) as f:
                for n, l in enumerate(f, 1):
                    m = re.match(r"^(\w+)(\([^)]*\))?\s*==", l)
                    if m:
                        defs.append((n, m.group(1)))
        except OSError:
            pass
        _DEFS[module] = defs
    name = None
    for n, d in _DEFS[module]:
        if n <= line:
            name = d
        else:
            break
    return name


def sany(module):
    p = subprocess.run(["java", "-cp", JAR, "tla2sany.SANY", module + ".tla"], cwd=SPEC,
                       stdout=subprocess.PIPE, stderr=subprocess.STDOUT, text=True)
    ok = p.returncode == 0 and "*** Errors" not in p.stdout and "Fatal" not in p.stdout \
        and "Could not" not in p.stdout
    return ok, p.stdout


def write_ndjson(path, rows):
    os.makedirs(os.path.dirname(path), exist_ok=True)
    with open(path, "w") as f:
        for r in rows:
            f.write(json.dumps(r, separators=(",", ":")) + "\n")


def read_ndjson(path):
    with open(path) as f:
        return [json.loads(l) for l in f if l.strip()]


# --------------------------------------------------------------------------------------
# findings

def load_known():
    p = os.path.join(VERIF, "known_findings.json")
    if not os.path.exists(p):
        return []
    with open(p) as f:
        return json.load(f)["findings"]


def key_matches(pattern, key):
    """Globs are honoured only in the feature part (third |-separated field)."""
    pp, kk = pattern.split("|"), key.split("|")
    if len(pp) != len(kk) or len(pp) != 4:
        return pattern == key
    return pp[0] == kk[0] and pp[1] == kk[1] and pp[3] == kk[3] and fnmatch.fnmatchcase(kk[2], pp[2])


class Judge:
    """Collects judged cases; classifies failures against known_findings.json."""

    def __init__(self, pid):
        self.pid = pid
        self.failures = {}      # key -> [detail, ...]
        self.evaluations = 0
        self.nontrivial = set()
        self.samples = []
        self.unjudged = {}      # reason -> count
        self.t0 = time.time()
        self.counters = {}

    def count(self, name, n=1):
        self.counters[name] = self.counters.get(name, 0) + n

    def ok(self, case_id=None, nontrivial=True):
        self.evaluations += 1
        if case_id is not None and nontrivial:
            self.nontrivial.add(case_id)

    def fail(self, key, detail, case_id=None):
        self.evaluations += 1
        if case_id is not None:
            self.nontrivial.add(case_id)
        key = key.replace(" ", "_")             # keys are single tokens (they appear on the VIOLATION line)
        if not (key.startswith(self.pid + "|") and key.count("|") == 3):
            raise MachineryError("malformed finding key (a part contains '|'): %r" % key)
        self.failures.setdefault(key, []).append(detail)

    def skip(self, reason):
        self.unjudged[reason] = self.unjudged.get(reason, 0) + 1

    def sample(self, s, limit=6):
        if len(self.samples) < limit:
            self.samples.append(s)

    def finish(self):
        """Print KNOWN-FINDING / VIOLATION lines.  Returns (n_violations, known_hit)."""
        known = [k for k in load_known() if k["property"] == self.pid and k["status"] == "open"]
        unmatched = {}
        hit = {}
        for key, details in sorted(self.failures.items()):
            m = [k for k in known if key_matches(k["key"], key)]
            if m:
                hit.setdefault(m[0]["key"], []).append((key, len(details)))
            else:
                unmatched[key] = details
        for k in known:
            n = sum(c for _, c in hit.get(k["key"], []))
            print("KNOWN-FINDING: property=%s key=%s %s [observed %d failing cases this run]"
                  % (self.pid, k["key"], k["what"], n))
        nviol = 0
        for key, details in unmatched.items():
            h = hashlib.sha1(key.encode()).hexdigest()[:12]
            d = os.path.join(REPLAYS, self.pid)
            os.makedirs(d, exist_ok=True)
            path = os.path.join(d, h + ".json")
            with open(path, "w") as f:
                json.dump({"property": self.pid, "key": key, "count": len(details),
                           "cases": details[:20]}, f, indent=1, default=str)
            print("VIOLATION property=%s replay=%s key=%s cases=%d first=%s"
                  % (self.pid, path, key, len(details), json.dumps(details[0], default=str)[:400]))
            nviol += 1
        self.known_hit = hit
        self.nviol = nviol
        return nviol


def write_evidence(pid, tier, level, coverage, assumptions, wall, violations):
    os.makedirs(EVID, exist_ok=True)
    ev = {"property_id": pid, "tier": tier, "seed": seed(), "level": level,
          "coverage": coverage, "assumptions": assumptions, "wall_s": round(wall, 2),
          "violations": violations}
    tmp = os.path.join(EVID, pid + ".json.tmp")
    with open(tmp, "w") as f:
        json.dump(ev, f, indent=1, default=str)
    os.replace(tmp, os.path.join(EVID, pid + ".json"))
    return ev


def coverage_vacuity(res, required):
    """Every action named in `required` must have fired at least once."""
    missing = [a for a in required if res.coverage.get(a, (0, 0))[1] == 0]
    if missing:
        raise MachineryError("vacuity: actions never taken: %s" % missing)
