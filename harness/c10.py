"""C10 - list behaviour of spatialmath objects matches a Python list.

Direction A: every transition of the SMList model (exhaustive one-step graph, lengths 0..12,
full index/slice alphabets), every depth-2/3 path and random depth-60 behaviours generated
by TLC are replayed into the library.  Direction B: list events recorded from a random
driver and from the repository's own tests are judged by TLC (SMListTrace).
"""
import os
import random
import time

import numpy as np

import common
from common import Judge, MachineryError, run_tlc
import elems
from elems import MAIN8,  CLS, WRONG, inject, project, ident

PID = "C10"
NONE = 99


def _n(v):
    return None if v == NONE else v


# ------------------------------------------------------------------------------------
# performing one abstract call on a live object

def perform(cname, x, call, nid, pool=None):
    """Execute the call on x.  Returns outcome dict.  Argument objects and returned objects are
    appended to `pool` as (object, class, ids it must keep holding) so that the caller can check,
    after every later step, that nothing else was changed (aliasing between receiver, arguments
    and results)."""
    op = call["op"]
    C = CLS[cname]

    def keep(o, c, ids):
        if pool is not None:
            pool.append((o, c, list(ids)))
        return o

    def arg(kind):
        if kind == "single":
            return keep(inject(cname, [nid]), cname, [nid])
        if kind == "multi":
            return keep(inject(cname, [nid, nid + 1]), cname, [nid, nid + 1])
        if kind == "wrong":
            return keep(inject(WRONG[cname], [nid]), WRONG[cname], [nid])
        raise MachineryError("kind " + kind)

    try:
        if op == "getitem":
            r = x[call["i"]]
        elif op == "slice":
            r = x[slice(_n(call["st"]), _n(call["sp"]), _n(call["sk"]))]
        elif op == "iter":
            r = [y for y in x]
        elif op == "iter2":
            r = [z for a in x for b in x for z in (a, b)]
        elif op == "iterzip":
            r = [z for a, b in zip(x, x) for z in (a, b)]
        elif op == "len":
            r = len(x)
        elif op == "copy":
            r = C(x)
        elif op == "append":
            r = x.append(arg(call["kind"]))
        elif op == "extend":
            ids = list(range(nid, nid + call["n"]))
            r = x.extend(keep(inject(cname, ids), cname, ids))
        elif op == "extend_wrong":
            what = call.get("what", "object")
            if what == "object":
                r = x.extend(keep(inject(WRONG[cname], [nid, nid + 1]), WRONG[cname], [nid, nid + 1]))
            elif what == "empty-object":
                r = x.extend(keep(inject(WRONG[cname], []), WRONG[cname], []))
            else:
                r = x.extend([keep(inject(cname, [nid]), cname, [nid]), keep(inject(WRONG[cname], [nid + 1]), WRONG[cname], [nid + 1])])
        elif op == "insert":
            r = x.insert(call["i"], arg(call["kind"]))
        elif op == "pop":
            r = x.pop(call["i"])
        elif op == "pop0":
            r = x.pop()
        elif op == "del":
            del x[call["i"]]
            r = None
        elif op == "setitem":
            x[call["i"]] = arg(call["kind"])
            r = None
        elif op == "reverse":
            r = x.reverse()
        elif op == "clear":
            r = x.clear()
        else:
            raise MachineryError("unknown op " + op)
    except MachineryError:
        raise
    except Exception as e:  # noqa: BLE001 - the outcome *is* the exception
        return {"k": "raise", "e": type(e).__name__, "index": isinstance(e, IndexError)}
    out = classify(cname, r)
    if pool is not None and out["k"] == "obj" and all(isinstance(v, int) for v in out["v"]):
        pool.append((r, cname, list(out["v"])))
    return out


def classify(cname, r):
    if r is None:
        return {"k": "none"}
    if isinstance(r, bool):
        return {"k": "other", "t": "bool"}
    if isinstance(r, int):
        return {"k": "int", "v": r}
    if isinstance(r, list):
        vs = []
        for y in r:
            if type(y).__name__ != cname or len(y.data) != 1:
                return {"k": "other", "t": "list-of-" + type(y).__name__}
            vs.append(ident(cname, y.data[0]))
        return {"k": "objs", "v": vs}
    if hasattr(r, "data") and type(r).__name__ in CLS:
        c, ids = project(cname, r)
        return {"k": "obj", "v": ids, "cls": c}
    return {"k": "other", "t": type(r).__name__}


def compare(cname, exp, got):
    """None if outcome `got` conforms to spec outcome `exp`, else failure mode."""
    if exp["k"] == "raise":
        if got["k"] != "raise":
            return "no-exception"
        if exp["e"] == "IndexError" and not got["index"]:
            return "wrong-exception-type"
        return None
    if got["k"] == "raise":
        return "unexpected-" + got["e"]
    if exp["k"] != got["k"]:
        return "wrong-result-kind"
    if exp["k"] == "obj":
        if got["cls"] != cname:
            return "wrong-result-class"
        if got["v"] != exp["v"]:
            return "wrong-elements"
    elif exp["k"] in ("objs", "int"):
        if got["v"] != exp["v"]:
            return "wrong-elements"
    return None


def features(call, n):
    op = call["op"]
    f = []
    if op == "slice":
        st, sp, sk = _n(call["st"]), _n(call["sp"]), _n(call["sk"])
        if st is None:
            f.append("start=None")
        elif st < 0:
            f.append("start<0")
        if st is not None and (st >= n or st < -n):
            f.append("start-oob")
        if sp is None:
            f.append("stop=None")
        elif sp < 0:
            f.append("stop<0")
        if sp is not None and (sp > n or sp < -n):
            f.append("stop-oob")
        if sk is not None and sk < 0:
            f.append("step<0")
        if len(list(range(n))[slice(st, sp, sk)]) == 0:
            f.append("empty")
        if not f:
            f.append("plain")
    elif "i" in call:
        i = call["i"]
        f.append("i<0" if i < 0 else "i>=0")
        f.append("inrange" if -n <= i < n else "oob")
    if "kind" in call:
        f.append(call["kind"])
    if op == "extend":
        f.append("n=%d" % call["n"])
    return ",".join(f) or "-"


# ------------------------------------------------------------------------------------
# reference check of the spec against CPython's own list (guards against a wrong spec)

def ref_apply(pre, call, nid):
    xs = list(pre)
    op = call["op"]
    try:
        if op == "getitem":
            return xs, ("obj", [xs[call["i"]]])
        if op == "slice":
            return xs, ("obj", xs[slice(_n(call["st"]), _n(call["sp"]), _n(call["sk"]))])
        if op == "iter":
            return xs, ("objs", list(xs))
        if op == "iter2":
            return xs, ("objs", [z for a in xs for b in xs for z in (a, b)])
        if op == "iterzip":
            return xs, ("objs", [z for a, b in zip(xs, xs) for z in (a, b)])
        if op == "len":
            return xs, ("int", len(xs))
        if op == "copy":
            return xs, ("obj", list(xs))
        kind = call.get("kind", "single")
        if op in ("append", "insert", "setitem") and kind != "single":
            return xs, ("raise", "Any")
        if op == "append":
            xs.append(nid)
        elif op == "extend":
            xs.extend(range(nid, nid + call["n"]))
        elif op == "extend_wrong":
            return xs, ("raise", "Any")
        elif op == "insert":
            xs.insert(call["i"], nid)
        elif op == "pop":
            v = xs.pop(call["i"])
            return xs, ("obj", [v])
        elif op == "pop0":
            v = xs.pop()
            return xs, ("obj", [v])
        elif op == "del":
            del xs[call["i"]]
        elif op == "setitem":
            xs[call["i"]] = nid
        elif op == "reverse":
            xs.reverse()
        elif op == "clear":
            xs.clear()
        return xs, ("none", None)
    except IndexError:
        return list(pre), ("raise", "IndexError")


def check_spec_against_cpython(pre, call, res, post, nid):
    rpost, (rk, rv) = ref_apply(pre, call, nid)
    ok = rpost == post and rk == res["k"]
    if ok and rk in ("obj", "objs", "int"):
        ok = rv == res["v"]
    if ok and rk == "raise" and rv == "IndexError":
        ok = res["e"] == "IndexError"
    if not ok:
        raise MachineryError("SMList.tla disagrees with CPython list: pre=%s call=%s spec=(%s,%s) "
                             "python=(%s,%s,%s)" % (pre, call, res, post, rk, rv, rpost))


# ------------------------------------------------------------------------------------

def replay_edge(j, cname, e):
    pre, call, res, post, nid = e["pre"], e["call"], e["res"], e["post"], e["nid"]
    if call["op"] == "copy" and cname.startswith("Spatial"):
        # copy construction is documented by arghandler (poses, quaternions, twists) and by
        # Plucker; the spatial-vector constructors do not document it and C10 does not list it
        j.skip("copy-constructor of spatial-vector classes is not part of the C10 statement")
        return None
    x = inject(cname, pre)
    got = perform(cname, x, call, nid)
    cid = (cname, call["op"], features(call, len(pre)))
    mode = compare(cname, res, got)
    _, state = project(cname, x)
    if mode is None and state != post:
        mode = "state-changed-on-failure" if res["k"] == "raise" else "wrong-state"
    if mode is None and type(x).__name__ != cname:
        mode = "receiver-class-changed"
    if mode:
        key = "%s|%s|%s;%s|%s" % (PID, call["op"], cname, features(call, len(pre)), mode)
        j.fail(key, {"kind": "edge", "cls": cname, "pre": pre, "call": call, "nid": nid,
                     "expected": {"res": res, "post": post}, "got": {"res": got, "state": state}},
               case_id=cid)
    else:
        j.ok(cid, nontrivial=len(pre) > 0)
    return mode


def replay_path(j, cname, h, fresh=False):
    """One behaviour of the model driven through ONE live object (finds hidden state)."""
    x = inject(cname, h[0]["post"])
    pre = h[0]["post"]
    diverged = 0
    pool = []
    for step in h[1:]:
        call, res, post, nid = step["call"], step["res"], step["post"], step["nid"]
        if call["op"] == "copy" and cname.startswith("Spatial"):
            j.skip("copy-constructor of spatial-vector classes is not part of the C10 statement")
            continue
        npool = len(pool)
        got = perform(cname, x, call, nid, pool)
        mode = compare(cname, res, got)
        _, state = project(cname, x)
        if mode is None and state != post:
            mode = "state-changed-on-failure" if res["k"] == "raise" else "wrong-state"
        if mode is None:
            # frame: every argument / result object seen so far still holds what it held
            for (o, c, ids) in pool:
                if project(c, o)[1] != ids:
                    mode = "other-object-changed"
                    got = dict(got, changed={"cls": c, "expected": ids, "now": project(c, o)[1]})
                    break
        if mode:
            del pool[:]
            diverged += 1
            key = "%s|%s|%s;%s|%s" % (PID, call["op"], cname, features(call, len(pre)), mode)
            j.fail(key, {"kind": "path-step", "cls": cname, "pre": pre, "call": call, "nid": nid,
                         "expected": {"res": res, "post": post},
                         "got": {"res": got, "state": state}},
                   case_id=(cname, "path", call["op"], features(call, len(pre))))
            x = inject(cname, post)          # re-synchronise, keep examining the rest
        else:
            j.ok((cname, "path", call["op"], features(call, len(pre))))
        pre = post
    if fresh and not diverged and len(x.data) > 0:
        # after the whole behaviour the live object is observationally equivalent to a fresh object with the same
        # contents (no member answers from values the object held earlier)
        import sharelib
        y = inject(cname, [1] * len(x.data))
        y.data = [np.array(a, copy=True) for a in x.data]
        name = sharelib._differs(x, y)
        cidf = (cname, "path", "fresh-equivalence")
        if name:
            j.fail("%s|%s.%s|%s;after-behaviour|differs-from-fresh-object-with-same-values" % (PID, cname, name, cname),
                   {"kind": "path-end", "cls": cname, "member": name, "program": [s_["call"] for s_ in h[1:]][-8:]}, case_id=cidf)
        else:
            j.ok(cidf)
    return diverged


def constructors(j, cname):
    """Empty, Alloc(n), C([objects]), C(obj) - the constructor part of the statement."""
    C = CLS[cname]
    e = C.Empty()
    if len(e) != 0 or type(e) is not C:
        j.fail("%s|Empty|%s;-|wrong-state" % (PID, cname), {"cls": cname, "len": len(e)})
    else:
        j.ok((cname, "Empty"))
    for n in (0, 1, 2, 5):
        try:
            a = C.Alloc(n)
            ok = len(a) == n and type(a) is C and all(
                np.array_equal(v, C().data[0]) for v in a.data)
            # no two elements may share storage
            ids = {id(v) for v in a.data}
            ok = ok and len(ids) == n
            if n >= 2:
                a[0] = inject(cname, [7])
                _, st = project(cname, a)
                ok = ok and st[0] == 7 and all(np.array_equal(v, C().data[0]) for v in a.data[1:])
        except Exception as ex:  # noqa: BLE001
            ok = False
            a = repr(ex)
        if not ok:
            j.fail("%s|Alloc|%s;n=%d|wrong-state" % (PID, cname, n), {"cls": cname, "n": n})
        else:
            j.ok((cname, "Alloc", n), nontrivial=n > 0)
    for ids in ([5], [5, 6], [3, 1, 2, 9]):
        try:
            o = C([inject(cname, [k]) for k in ids])
            c, st = project(cname, o)
            ok = c == cname and st == ids
        except Exception as ex:  # noqa: BLE001
            ok, st = False, repr(ex)
        if not ok:
            j.fail("%s|FromObjects|%s;n=%d|wrong-state" % (PID, cname, len(ids)),
                   {"cls": cname, "ids": ids, "got": st})
        else:
            j.ok((cname, "FromObjects", len(ids)))
    # wrong class inside a list of objects must not be silently accepted
    try:
        o = C([inject(cname, [5]), inject(WRONG[cname], [6])])
        c, st = project(cname, o)
        j.fail("%s|FromObjects|%s;mixed-class|no-exception" % (PID, cname), {"cls": cname, "got": st})
    except Exception:  # noqa: BLE001
        j.ok((cname, "FromObjects", "mixed"))
    # a MULTI-valued object inside a list of objects (where single values are required) must be rejected as well
    if cname in MAIN8:
        for pos, lst in (("second", lambda: [inject(cname, [5]), inject(cname, [6, 7])]), ("first", lambda: [inject(cname, [6, 7]), inject(cname, [5])]),
                         ("only", lambda: [inject(cname, [6, 7])])):
            try:
                o = C(lst())
                c, st = project(cname, o)
                j.fail("%s|FromObjects|%s;multi-valued-element-%s|no-exception" % (PID, cname, pos),
                       {"cls": cname, "got": [str(x) for x in st]}, case_id=(cname, "FromObjects", "multi", pos))
            except Exception:  # noqa: BLE001
                j.ok((cname, "FromObjects", "multi", pos))


# ------------------------------------------------------------------------------------

def run(tier):
    j = Judge(PID)
    thorough = tier == "thorough"
    rng = random.Random(common.seed())
    cov = {}
    t0 = time.time()

    # 1. the model itself: depth-4 exploration, invariants + action properties
    rm = run_tlc("MC_SMList", "SMList_model", coverage=True)
    # 2. exhaustive one-step graph with the full alphabets
    re_ = run_tlc("MC_SMList", "SMList_edges")
    edges = re_.json
    if len(edges) < 20000:
        raise MachineryError("edge export too small: %d" % len(edges))
    ops_seen = {e["call"]["op"] for e in edges}
    need = {"getitem", "slice", "iter", "iter2", "iterzip", "len", "copy", "append", "extend", "extend_wrong", "insert",
            "pop", "pop0", "del", "setitem", "reverse", "clear"}
    if need - ops_seen:
        raise MachineryError("vacuity: operations never taken by the model: %s" % (need - ops_seen))
    for e in edges:
        check_spec_against_cpython(e["pre"], e["call"], e["res"], e["post"], e["nid"])
    j.count("edges_checked_against_cpython_list", len(edges))

    classes_all = elems.MAIN8 + elems.EXTRA
    full = set(elems.MAIN8 if thorough else ["SE3", "UnitQuaternion"])
    if thorough:
        full |= set(elems.EXTRA)
    mut = [e for e in edges if e["call"]["op"] != "slice"]
    sl = [e for e in edges if e["call"]["op"] == "slice"]
    n_edge = 0
    for cname in classes_all:
        use = mut + (sl if cname in full else [e for e in sl if rng.random() < 0.12])
        for e in use:
            replay_edge(j, cname, e)
        n_edge += len(use)
        constructors(j, cname)
    j.sample({"edge": edges[len(edges) // 3]})
    j.sample({"edge": sl[len(sl) // 2]})

    # 3. exhaustive short paths through ONE live object
    depth = 3 if thorough else 2
    rp = run_tlc("MC_SMList", "SMList_paths_d%d" % depth if depth != 2 else "SMList_paths",
                 stream=True, timeout=3600)
    paths = rp.iter_json()
    n_path = 0
    pclasses = elems.MAIN8 if thorough else ["SE3", "UnitQuaternion", "Twist3", "SO2"]
    for h in paths:
        for cname in (pclasses if not thorough else [pclasses[n_path % len(pclasses)]]):
            replay_path(j, cname, h)
        n_path += 1
    if depth != 2:
        try:
            os.remove(rp.out_path)            # ~1.4 GB of exported paths
        except OSError:
            pass

    # 4. random long behaviours (depth 60)
    nsim = 2000 if thorough else 150
    rs = run_tlc("MC_SMList", "SMList_sim", workers=1, simulate=nsim, depth=61,
                 seed_=common.seed() + 1)
    sims = rs.json
    if len(sims) < nsim // 2:
        raise MachineryError("simulation produced %d behaviours" % len(sims))
    for k, h in enumerate(sims):
        replay_path(j, classes_all[k % len(classes_all)], h, fresh=True)
    j.sample({"behaviour(first 6 steps)": sims[0][:6]})

    # 5. Direction B: recorded list traces judged by TLC
    import c10_trace
    tb = c10_trace.run(j, tier)

    cov.update({
        "states": rm.distinct + re_.distinct + rp.distinct,
        "transitions": rm.generated + re_.generated + rp.generated,
        "traces_validated_against_impl": n_edge + n_path * (len(pclasses) if not thorough else 1)
        + len(sims) + tb["traces"],
        "model": {"depth4_model": rm.stats(), "edges": re_.stats(), "paths": rp.stats(),
                  "sim_behaviours": len(sims), "sim_states": rs.generated,
                  "action_coverage": {k: v[1] for k, v in rm.coverage.items()}},
        "edges_replayed": n_edge, "paths_replayed": n_path, "behaviours_depth60": len(sims),
        "trace_validation": tb,
        "classes": classes_all,
        "exhaustive": True,
        "rule": "case = (class, operation, feature class of its parameters relative to the "
                "length: sign/in-range/None/step sign/empty result/argument kind); non-trivial = "
                "receiver non-empty; edges enumerate lengths 0..12 x indices -7..7 x 1792 slices "
                "x argument kinds",
        "checker_cmd": re_.cmd,
    })
    return {"judge": j, "coverage": cov, "level": "model_checking", "assumptions": [
        "the abstract state of a list-capable object is its .data list (attacked by path replays)",
        "SMList.tla is validated against CPython's own list on every exported edge",
        "edge replay is exhaustive for lengths 0..12; path replay exhaustive to depth %d over a "
        "reduced alphabet, random beyond" % depth]}


def replay(rp):
    j = Judge(PID)
    for c in rp["cases"]:
        if c.get("kind") == "edge" or c.get("kind") == "path-step":
            e = {"pre": c["pre"], "call": c["call"], "res": c["expected"]["res"],
                 "post": c["expected"]["post"], "nid": c["nid"]}
            print(c["cls"], c["call"], "pre", c["pre"], "->", replay_edge(j, c["cls"], e) or "conforms")
    return 1 if j.failures else 0
