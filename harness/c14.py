"""C14 - normalisation projects onto the group and is idempotent.

Spec: Normalise.tla - what normalisation preserves is a direction, and directions of integer data
are exact: matrix normalisation of [n o a] keeps a, makes n parallel to o x a and o parallel to
a x (o x a) (FrameOK checked by TLC), vector / quaternion normalisation keeps the direction, a unit
twist has unit rotational - or, if irrotational, unit translational - part, angle wrapping on
multiples of 90 degrees is arithmetic modulo 4 (WrapOK).  TLC enumerates cube-group rotations with
integer noise E/K, integer vectors, twists and all quarter-turn pairs in -9..9; the harness adds
noise magnitudes 1e-15 .. 1e-2, norms 1e-6 .. 1e6, zero-threshold twists and real angles.
"""
import math
import random

import numpy as np

import common
from common import Judge, MachineryError, run_tlc
import gamma

PID = "C14"
TOL = 1e-12


def check(j, ok, site, feat, mode, detail, cid):
    if ok:
        j.ok(cid)
    else:
        j.fail("%s|%s|%s|%s" % (PID, site, feat, mode), detail, cid)


def guard(j, site, feat, detail, cid, fn):
    try:
        return fn()
    except Exception as ex:  # noqa: BLE001
        j.fail("%s|%s|%s|raised-%s" % (PID, site, feat, type(ex).__name__), detail, cid)
        return None


def parallel_same_sense(x, d):
    x, d = np.asarray(x, dtype=float), np.asarray(d, dtype=float)
    nx, nd = float(np.linalg.norm(x)), float(np.linalg.norm(d))
    return float(np.linalg.norm(np.cross(x, d))) <= TOL * 100 * nx * nd and float(np.dot(x, d)) > 0


def judge_matrix(j, Min, t, dirs, noisy, feat, detail):
    """Min: 3x3 float near-rotation; dirs: expected (n, o, a) directions"""
    import spatialmath.base as b
    from spatialmath import SO3, SE3
    T = b.rt2tr(Min, t)
    routes = {"base.trnorm(R)": (lambda M: b.trnorm(M), Min), "base.trnorm(T)": (lambda M: b.trnorm(M), T),
              "SO3.norm": (lambda M: SO3(M, check=False).norm().A, Min), "SE3.norm": (lambda M: SE3(M, check=False).norm().A, T)}
    if noisy:
        # the noise of a nearly valid rigid-motion matrix also touches its bottom row
        Tn = T.copy()
        Tn[3, :] += float(detail.get("eps", 1e-9)) * np.array([0.3, -0.7, 0.5, 0.2])
        routes["base.trnorm(T;noisy-bottom-row)"] = (lambda M: b.trnorm(M), Tn)
        routes["SE3.norm(noisy-bottom-row)"] = (lambda M: SE3(M, check=False).norm().A, Tn)
    for site, (fn, arg) in routes.items():
        cid = (site, feat)
        out = guard(j, site, feat, detail, cid, lambda: np.asarray(fn(arg), dtype=float))
        if out is None:
            continue
        R = out[:3, :3]
        cls = "SE3" if out.shape == (4, 4) else "SO3"
        ok = gamma.validity_residual(cls, out) <= TOL
        mode = "not-a-group-member"
        if ok and cls == "SE3":
            ok = np.array_equal(out[:3, 3], np.asarray(t, dtype=float))
            mode = "translation-changed"
        if ok:
            ok = parallel_same_sense(R[:, 2], dirs[2])
            mode = "approach-axis-direction-changed"
        if ok:
            ok = parallel_same_sense(R[:, 0], dirs[0]) and abs(float(np.dot(R[:, 1], dirs[0]))) <= TOL * 100 * float(np.linalg.norm(dirs[0]))
            mode = "second-axis-left-the-plane-of-o-and-a"
        if ok:
            again = guard(j, site, feat, detail, cid, lambda: np.asarray(fn(out), dtype=float))
            ok = again is not None and float(np.max(np.abs(again - out))) <= TOL
            mode = "not-idempotent"
        if ok and not noisy:
            ok = float(np.max(np.abs(out - arg))) <= TOL
            mode = "valid-input-changed"
        check(j, ok, site, feat, mode, detail, cid)


def lattice(j, cases):
    import spatialmath.base as b
    from spatialmath import Quaternion, UnitQuaternion, Twist3
    n = 0
    for e in cases:
        c, a = e["c"], e["ans"]
        k = c["k"]
        n += 1
        if k == "matrix":
            M = np.array(c["M"], dtype=float) / c["K"]
            dirs = [np.array(a["n"], dtype=float), np.array(a["o"], dtype=float), np.array(a["a"], dtype=float)]
            judge_matrix(j, M, [float(x) for x in c["t"]], dirs, c["noise"], "integer-noise/K=%d;noise=%s" % (c["K"], c["noise"]),
                         {"kind": "matrix", "M": c["M"], "K": c["K"]})
        elif k == "vector":
            v = np.array(c["v"], dtype=float)
            nrm = math.sqrt(a["n2"])
            for s in (1e-6, 1.0, 1e6):
                feat = "norm=%g" % s
                routes = {"base.unitvec": lambda x: b.unitvec(x), "base.unitvec_norm": lambda x: b.unitvec_norm(x)[0]}
                for site, fn in routes.items():
                    cid = (site, feat)
                    u = guard(j, site, feat, {"v": c["v"], "scale": s}, cid, lambda: np.asarray(fn(v * s), dtype=float))
                    if u is None:
                        continue
                    ok = abs(float(np.linalg.norm(u)) - 1) <= TOL and float(np.max(np.abs(u - v / nrm))) <= TOL
                    if ok:
                        ok = float(np.max(np.abs(np.asarray(fn(u), dtype=float) - u))) <= TOL
                    check(j, ok, site, feat, "not-unit-or-direction-changed-or-not-idempotent", {"v": c["v"], "scale": s, "got": u.tolist()}, cid)
                # the vector in every container form (list, tuple, row and column arrays): same unit vector
                vs = v * s
                for fname, arg in (("list", vs.tolist()), ("tuple", tuple(vs.tolist())), ("row", vs.reshape(1, -1)), ("column", vs.reshape(-1, 1))):
                    for site, fn in (("base.unitvec", lambda x: b.unitvec(x)), ("base.unitvec_norm", lambda x: b.unitvec_norm(x)[0])):
                        cidf = (site, fname)
                        uf = guard(j, site, feat + ";" + fname, {"v": c["v"], "scale": s, "form": fname}, cidf, lambda: fn(arg))
                        if uf is None:
                            check(j, False, site, feat + ";" + fname, "returned-None", {"v": c["v"], "scale": s, "form": fname}, cidf)
                            continue
                        uf = np.asarray(uf, dtype=float).ravel()
                        okf = uf.shape == (len(v),) and float(np.max(np.abs(uf - v / nrm))) <= TOL
                        check(j, okf, site, feat + ";" + fname, "not-unit-or-direction-changed", {"v": c["v"], "scale": s, "form": fname, "got": uf.tolist()}, cidf)
                cid = ("base.unitvec_norm(norm)", feat)
                r = guard(j, "base.unitvec_norm", feat, {"v": c["v"]}, cid, lambda: b.unitvec_norm(v * s))
                if r is not None:
                    check(j, abs(float(r[1]) - nrm * s) <= TOL * nrm * s * 10, "base.unitvec_norm", feat, "wrong-norm", {"v": c["v"], "got": float(r[1])}, cid)
                # quaternions: the integer 3-vector with a scalar part in front
                q = np.r_[2.0, v] * s
                qn = float(np.linalg.norm(q))
                for site, fn in {"base.unit": lambda x: b.unit(x), "Quaternion.unit": lambda x: Quaternion(x).unit().vec,
                                 "UnitQuaternion(v)": lambda x: UnitQuaternion(x).vec,
                                 # a UnitQuaternion OBJECT that holds a non-unit value (built with norm=False) is
                                 # normalised by unit() like any quaternion; the N x 4 array form normalises every row
                                 "UnitQuaternion(v,norm=False).unit": lambda x: UnitQuaternion(x, norm=False, check=False).unit().vec,
                                 "UnitQuaternion(Nx4)": lambda x: UnitQuaternion(np.array([x, 2 * x]))[0].vec,
                                 # ... read as stored (indexing builds a new object, which normalises again)
                                 "UnitQuaternion(Nx4).data": lambda x: np.asarray(UnitQuaternion(np.array([x, 2 * x])).data[1]),
                                 "UnitQuaternion(Nx4).A": lambda x: np.asarray(UnitQuaternion(np.array([x, 2 * x])).A[0])}.items():
                    cid = (site, feat)
                    u = guard(j, site, feat, {"q": q.tolist()}, cid, lambda: np.asarray(fn(q), dtype=float))
                    if u is None:
                        continue
                    ok = abs(float(np.linalg.norm(u)) - 1) <= TOL and float(np.max(np.abs(u - q / qn))) <= TOL
                    if ok:
                        ok = float(np.max(np.abs(np.asarray(fn(u), dtype=float) - u))) <= TOL
                    check(j, ok, site, feat, "not-unit-or-direction-changed-or-not-idempotent", {"q": q.tolist(), "got": u.tolist()}, cid)
                # nearly unit quaternions (norm drift d on a ladder), scalar part exactly +-1 with a non-zero vector part, the
                # (s, v) constructor form, and a multi-valued Quaternion whose FIRST value is already of unit norm
                if s == 1.0:
                    q0 = np.r_[2.0, v] / float(np.linalg.norm(np.r_[2.0, v]))
                    cands = [("drift=%g" % d, q0 * (1.0 + d)) for d in (1e-12, 1e-9, 1e-6, 1e-5, 1e-4, 3e-4, 1e-3, 1e-2, -1e-4, -1e-6)]
                    cands += [("s=+1", np.r_[1.0, v * 0.01]), ("s=-1", np.r_[-1.0, v * 0.5]), ("s=+1;big-v", np.r_[1.0, v])]
                    sites2 = {"base.unit": lambda x: b.unit(x), "Quaternion.unit": lambda x: Quaternion(x).unit().vec,
                              "UnitQuaternion(v)": lambda x: UnitQuaternion(x).vec,
                              "UnitQuaternion(s,v)": lambda x: UnitQuaternion(float(x[0]), x[1:]).vec,
                              "Quaternion([unit,q]).unit.data[1]": lambda x: np.asarray(Quaternion([Quaternion([1, 0, 0, 0]), Quaternion(x)]).unit().data[1]),
                              "Quaternion([q,unit]).unit.data[0]": lambda x: np.asarray(Quaternion([Quaternion(x), Quaternion([0, 1, 0, 0])]).unit().data[0])}
                    for tag, qq in cands:
                        qqn = float(np.linalg.norm(qq))
                        for site, fn in sites2.items():
                            feat2 = "quat;" + tag.split("=")[0] + ("" if tag.startswith("s=") else ";" + ("small" if abs(float(tag.split("=")[1])) < 1e-7 else "large")) if tag.startswith("drift") else "quat;" + tag
                            cid = (site, feat2)
                            u = guard(j, site, feat2, {"q": qq.tolist()}, cid, lambda: np.asarray(fn(qq), dtype=float))
                            if u is None:
                                continue
                            try:
                                ok = u.shape == (4,) and abs(float(np.linalg.norm(u)) - 1) <= TOL and float(np.max(np.abs(u - qq / qqn))) <= TOL
                                if ok:
                                    ok = float(np.max(np.abs(np.asarray(fn(u), dtype=float) - u))) <= TOL
                            except Exception:  # noqa: BLE001
                                ok = False
                            check(j, ok, site, feat2, "not-unit-or-direction-changed-or-not-idempotent", {"q": qq.tolist(), "got": u.tolist()}, cid)
        elif k == "twist":
            S = np.array(c["s"], dtype=float)
            nrm = math.sqrt(a["n2"])
            for s, stag in ((1e-6, "1e-06"), (1.0, "1"), (1e6, "1e+06"), (1.0 / math.sqrt(a["tot2"]), "euclidean-norm-1"),
                            (1.0 / nrm, "already-unit")):
                feat = "by=%s;norm=%s" % (a["by"], stag)
                for site, fn in {"base.unittwist": lambda x: b.unittwist(x), "base.unittwist_norm": lambda x: b.unittwist_norm(x)[0],
                                 "Twist3.unit": lambda x: Twist3(x).unit.S}.items():
                    cid = (site, feat)
                    u = guard(j, site, feat, {"S": c["s"], "scale": s}, cid, lambda: np.asarray(fn(S * s), dtype=float))
                    if u is None:
                        continue
                    part = u[3:] if a["by"] == "w" else u[:3]
                    ok = abs(float(np.linalg.norm(part)) - 1) <= TOL and float(np.max(np.abs(u - S / nrm))) <= TOL * max(1.0, float(np.max(np.abs(S / nrm))))
                    if ok:
                        ok = float(np.max(np.abs(np.asarray(fn(u), dtype=float) - u))) <= TOL * max(1.0, float(np.max(np.abs(u))))
                    check(j, ok, site, feat, "not-a-unit-twist-or-direction-changed", {"S": c["s"], "scale": s, "got": u.tolist()}, cid)
                cid = ("base.unittwist_norm(theta)", feat)
                r = guard(j, "base.unittwist_norm", feat, {"S": c["s"]}, cid, lambda: b.unittwist_norm(S * s))
                if r is not None:
                    check(j, abs(float(r[1]) - nrm * s) <= 1e-11 * nrm * s, "base.unittwist_norm", feat, "wrong-magnitude", {"S": c["s"], "got": float(r[1])}, cid)
        elif k == "angdiff":
            qa, qb = c["a"], c["b"]
            hp = math.pi / 2
            for site, fn in {"base.angdiff(a,b)": lambda: b.angdiff(qa * hp, qb * hp), "base.angdiff(a-b)": lambda: b.angdiff((qa - qb) * hp)}.items():
                cid = (site, "quarter")
                r = guard(j, site, "quarter-turns", {"a": qa, "b": qb}, cid, fn)
                if r is None:
                    continue
                rq = float(r) / hp
                ok = any(abs(rq - w) <= 1e-9 for w in a["ok"]) and -math.pi - 1e-12 <= float(r) <= math.pi + 1e-12
                check(j, ok, site, "quarter-turns", "wrong-wrap", {"a": qa, "b": qb, "got_quarters": rq, "admissible": a["ok"]}, cid)
    return n


def valuations(j, rng, nval):
    import spatialmath.base as b
    from spatialmath import Twist3, Twist2, SO2, SE2
    # tagged noise 1e-15 .. 1e-2 on lattice and generic members
    for i in range(nval):
        eps = [0.0, 1e-15, 1e-12, 1e-9, 1e-6, 1e-4, 1e-2][i % 7]
        R = gamma.rotz(rng.uniform(-3, 3)) @ gamma.roty(rng.uniform(-1.5, 1.5)) @ gamma.rotx(rng.uniform(-3, 3)) if i % 2 else \
            [np.eye(3), gamma.rotx(math.pi / 2), gamma.rotz(math.pi), gamma.roty(-math.pi / 2) @ gamma.rotx(math.pi)][i % 4]
        E = np.array([[rng.uniform(-1, 1) for _ in range(3)] for _ in range(3)])
        M = R + eps * E
        o, a = M[:, 1], M[:, 2]
        nn = np.cross(o, a)
        judge_matrix(j, M, [rng.uniform(-1e3, 1e3) for _ in range(3)], [nn, np.cross(a, nn), a], eps > 0, "noise=%g" % eps,
                     {"kind": "matrix-valuation", "M": M.tolist(), "eps": eps})
        # 2D
        P = gamma.rotz(rng.uniform(-3, 3))[:2, :2] + eps * E[:2, :2]
        t2 = [rng.uniform(-10, 10), rng.uniform(-10, 10)]
        Hn = b.rt2tr(P, t2)
        Hn[2, :] += eps * np.array([0.3, -0.7, 0.2])
        for site, fn, arg in (("base.trnorm2(R)", lambda M2: b.trnorm2(M2), P), ("base.trnorm2(T)", lambda M2: b.trnorm2(M2), b.rt2tr(P, t2)),
                              ("SO2.norm", lambda M2: SO2(M2, check=False).norm().A, P), ("SE2.norm", lambda M2: SE2(M2, check=False).norm().A, b.rt2tr(P, t2)),
                              ("base.trnorm2(T;noisy-bottom-row)", lambda M2: b.trnorm2(M2), Hn),
                              ("SE2.norm(noisy-bottom-row)", lambda M2: SE2(M2, check=False).norm().A, Hn)):
            cid = (site, "noise=%g" % eps)
            out = guard(j, site, "noise=%g" % eps, {"P": P.tolist()}, cid, lambda: np.asarray(fn(arg), dtype=float))
            if out is None:
                continue
            cls = "SE2" if out.shape == (3, 3) else "SO2"
            ok = gamma.validity_residual(cls, out) <= TOL
            mode = "not-a-group-member"
            if ok and cls == "SE2":
                ok = np.array_equal(out[:2, 2], np.asarray(t2))
                mode = "translation-changed"
            if ok:
                ok = float(np.max(np.abs(np.asarray(fn(out), dtype=float) - out))) <= TOL
                mode = "not-idempotent"
            if ok and eps == 0:
                ok = float(np.max(np.abs(out - arg))) <= TOL
                mode = "valid-input-changed"
            check(j, ok, site, "noise=%g" % eps, mode, {"P": P.tolist(), "eps": eps}, cid)
    # twists with rotational part zero / below / above the zero threshold
    for wmag in (0.0, 1e-17, 1e-16, 1e-13, 1e-9, 1e-3):
        for vmag in (1e-6, 1.0, 1e6):
            v = np.array([0.6, 0.0, 0.8]) * vmag
            w = np.array([0.0, 1.0, 0.0]) * wmag
            S = np.r_[v, w]
            feat = "w=%g;v=%g" % (wmag, vmag)
            for site, fn in {"base.unittwist": lambda x: b.unittwist(x), "Twist3.unit": lambda x: Twist3(x).unit.S}.items():
                cid = (site, "threshold", wmag)
                u = guard(j, site, feat, {"S": S.tolist()}, cid, lambda: np.asarray(fn(S), dtype=float))
                if u is None:
                    continue
                nw, nvv = float(np.linalg.norm(u[3:])), float(np.linalg.norm(u[:3]))
                ok = abs(nw - 1) <= TOL or (nw <= 1e-9 and abs(nvv - 1) <= TOL)
                par = float(np.linalg.norm(np.cross(u[:3], v))) <= 1e-9 * nvv * vmag and float(np.dot(u[:3], v)) > 0
                check(j, ok and par, site, feat, "neither-unit-rotational-nor-unit-translational", {"S": S.tolist(), "got": u.tolist()}, cid)
    for th in (0.5, -2.0):
        for vmag in (1e-3, 1.0, 1e3):
            S2 = np.r_[np.array([3.0, -4.0]) * vmag, th]
            for site, fn in {"base.unittwist2": lambda x: b.unittwist2(x), "Twist2.unit": lambda x: Twist2(x).unit.S}.items():
                cid = (site, "2D")
                u = guard(j, site, "w=%g;v=%g" % (th, vmag), {"S": S2.tolist()}, cid, lambda: np.asarray(fn(S2), dtype=float))
                if u is not None:
                    check(j, float(np.max(np.abs(u - S2 / abs(th)))) <= TOL * max(1.0, vmag / abs(th)) and abs(abs(u[2]) - 1) <= TOL, site,
                          "w=%g;v=%g" % (th, vmag), "not-a-unit-twist", {"S": S2.tolist(), "got": u.tolist()}, cid)
    for d in ((3.0, -4.0), (0.0, 2.0)):
        S2 = np.r_[np.array(d), 0.0]
        for site, fn in {"base.unittwist2": lambda x: b.unittwist2(x), "Twist2.unit": lambda x: Twist2(x).unit.S}.items():
            cid = (site, "2D-prismatic")
            u = guard(j, site, "w=0", {"S": S2.tolist()}, cid, lambda: np.asarray(fn(S2), dtype=float))
            if u is not None:
                check(j, abs(float(np.linalg.norm(u[:2])) - 1) <= TOL and u[2] == 0, site, "w=0", "not-a-unit-twist", {"S": S2.tolist(), "got": u.tolist()}, cid)
    # real angles within +-1e3, incl. exact multiples of pi
    for i in range(nval * 4):
        a = rng.uniform(-1e3, 1e3) if i % 3 else rng.randint(-300, 300) * math.pi
        bb = rng.uniform(-1e3, 1e3) if i % 2 else 0.0
        for site, fn, x in (("base.angdiff(a,b)", lambda: b.angdiff(a, bb), a - bb), ("base.angdiff(a)", lambda: b.angdiff(a), a)):
            cid = (site, "real")
            r = guard(j, site, "real", {"a": a, "b": bb}, cid, fn)
            if r is None:
                continue
            r = float(r)
            k2 = round((x - r) / (2 * math.pi))
            ok = -math.pi - 1e-12 <= r <= math.pi + 1e-12 and abs(x - r - 2 * math.pi * k2) <= 1e-9 * max(1.0, abs(x))
            check(j, ok, site, "real", "not-congruent-or-out-of-range", {"a": a, "b": bb, "got": r}, cid)


def run(tier):
    j = Judge(PID)
    thorough = tier == "thorough"
    rng = random.Random(common.seed() + 14)
    r = run_tlc("MC_Normalise", "Normalise", timeout=300)
    seen, cases = set(), []
    for e in r.json:
        key = str(e["c"])
        if key not in seen:
            seen.add(key)
            cases.append(e)
    n = lattice(j, cases)
    if n < 800:
        raise MachineryError("normalisation export too small: %d" % n)
    j.sample({"case": cases[10]})
    lat = j.evaluations
    valuations(j, rng, 140 if thorough else 42)
    cov = {"states": r.distinct, "transitions": r.generated, "traces_validated_against_impl": n, "checker_cmd": r.cmd,
           "lattice_exact": lat, "valuation": j.evaluations - lat, "exhaustive": True,
           "rule": "case = (entry point, noise / norm / threshold tag); lattice = cube-group rotations with integer noise E/K, "
                   "integer vectors / twists, all quarter-turn pairs in -9..9"}
    return {"judge": j, "coverage": cov, "level": "model_checking", "assumptions": [
        "directions are compared by cross product and sign of the dot product (tolerance 1e-10 relative)",
        "for real-valued noise the expected directions o x a and a x (o x a) are formed by the harness from the input columns"]}


def replay(rp):
    for c in rp["cases"][:6]:
        print(c)
    return 0
