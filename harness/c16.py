"""C16 - symbolic results agree with numeric results.

Spec: Api.tla lists every entry documented ':SymPy: supported' (SymApi) and a set of symbolic pose
expressions (SymExprs); TLC enumerates (entry, all-symbolic | mixed) ; Ctor.tla supplies the exact values
of the constructors at exact angles.  Each entry is called with SymPy symbols; the result is
 (i)   substituted at special and random points and compared (1e-12) with the numeric call at the same
       numbers - and with TLC's exact value for the exact angles;
 (ii)  inspected structurally: entries that the numeric path returns as exactly 0 or 1 for every argument
       must be free of symbols and equal to 0 / 1 in the symbolic result.
"""
import math
import random

import numpy as np
import sympy

import common
from common import Judge, MachineryError, run_tlc

PID = "C16"
TOL = 1e-12


def S(name):
    return sympy.Symbol(name, real=True)


def entries():
    """name -> (list of parameter names, kind list, f(args)) ; kind: 'angle' | 'length' | 'small'"""
    import spatialmath.base as b
    from spatialmath import SO3, SE3, SO2, SE2, Twist3
    A, L = "angle", "length"
    T = lambda a, x, y, z: b.transl(x, y, z) @ b.trotx(a)                       # noqa: E731  a symbolic SE(3) matrix

    def se2(a, x, y):            # a (possibly symbolic) SE(2) matrix written out entry by entry
        sym = any(isinstance(v, sympy.Basic) for v in (a, x, y))
        c, s_ = (sympy.cos(a), sympy.sin(a)) if isinstance(a, sympy.Basic) else (math.cos(a), math.sin(a))
        return np.array([[c, -s_, x], [s_, c, y], [0, 0, 1]], dtype=object if sym else float)
    E = {
        "rotx": ([A], lambda a: b.rotx(a)), "roty": ([A], lambda a: b.roty(a)), "rotz": ([A], lambda a: b.rotz(a)),
        "trotx": ([A], lambda a: b.trotx(a)), "troty": ([A], lambda a: b.troty(a)), "trotz": ([A], lambda a: b.trotz(a)),
        "transl": ([L, L, L], lambda x, y, z: b.transl(x, y, z)),
        "eul2r": ([A, A, A], lambda a, bb, c: b.eul2r(a, bb, c)), "eul2tr": ([A, A, A], lambda a, bb, c: b.eul2tr(a, bb, c)),
        "delta2tr": ([L, L, L, A, A, A], lambda *d: b.delta2tr(list(d))),
        "trinv": ([A, L, L, L], lambda a, x, y, z: b.trinv(T(a, x, y, z))),
        "trinv2": ([A, L, L], lambda a, x, y: b.trinv2(se2(a, x, y))),
        "tr2delta": ([L, L, L, A, A, A], lambda *d: b.tr2delta(b.delta2tr(list(d)))),
        "tr2jac": ([A, L, L, L], lambda a, x, y, z: b.tr2jac(T(a, x, y, z))),
        "skew": ([L, L, L], lambda x, y, z: b.skew([x, y, z])), "vex": ([L, L, L], lambda x, y, z: b.vex(b.skew([x, y, z]))),
        "skewa": ([L, L, L, A, A, A], lambda *d: b.skewa(list(d))), "vexa": ([L, L, L, A, A, A], lambda *d: b.vexa(b.skewa(list(d)))),
        "det": ([A], lambda a: b.det(b.rotx(a))) if hasattr(b, "det") else None,
        "norm": ([L, L, L], lambda x, y, z: b.norm([x, y, z])), "normsq": ([L, L, L], lambda x, y, z: b.normsq([x, y, z])),
        "cross": ([L, L, L, L, L, L], lambda a1, a2, a3, b1, b2, b3: b.cross([a1, a2, a3], [b1, b2, b3])),
        "qpow": ([L, L, L, L], lambda s, x, y, z: b.qpow([s, x, y, z], 2)), "conj": ([L, L, L, L], lambda s, x, y, z: b.conj([s, x, y, z])),
        "SO3.Rx": ([A], lambda a: SO3.Rx(a)), "SO3.Ry": ([A], lambda a: SO3.Ry(a)), "SO3.Rz": ([A], lambda a: SO3.Rz(a)),
        "SO3.Eul": ([A, A, A], lambda a, bb, c: SO3.Eul([a, bb, c])), "SO3.RPY": ([A, A, A], lambda a, bb, c: SO3.RPY([a, bb, c])),
        "SE3.Rx": ([A], lambda a: SE3.Rx(a)), "SE3.Ry": ([A], lambda a: SE3.Ry(a)), "SE3.Rz": ([A], lambda a: SE3.Rz(a)),
        "SE3.Tx": ([L], lambda x: SE3.Tx(x)), "SE3.Ty": ([L], lambda x: SE3.Ty(x)), "SE3.Tz": ([L], lambda x: SE3.Tz(x)),
        "SE3.Eul": ([A, A, A], lambda a, bb, c: SE3.Eul([a, bb, c])), "SE3.RPY": ([A, A, A], lambda a, bb, c: SE3.RPY([a, bb, c])),
        "SE3.Delta": None,         # Delta normalises (trnorm): numeric-only by construction after the repair
        "SE3(x,y,z)": ([L, L, L], lambda x, y, z: SE3(x, y, z)),
        "SE3.t": ([A, L], lambda a, x: (SE3.Tx(x) * SE3.Rx(a)).t), "SE3.R": ([A, L], lambda a, x: (SE3.Tx(x) * SE3.Rx(a)).R),
        "SE3.inv": ([A, L], lambda a, x: (SE3.Tx(x) * SE3.Rx(a)).inv()), "SE3.Ad": ([A, L], lambda a, x: (SE3.Tx(x) * SE3.Rx(a)).Ad()),
        "SE3.jacob": ([A, L], lambda a, x: (SE3.Tx(x) * SE3.Rx(a)).jacob()),
        "simplify": ([A, L], lambda a, x: (SE3.Rx(a) * SE3.Tx(x) * SE3.Rx(a)).simplify()),
        "norm([x,0,0])": ([L], lambda x: b.norm([x, 0, 0])), "norm((0,y,0))": ([L], lambda y: b.norm((0, y, 0))),
        "norm(array[0,0,2z])": ([L], lambda z: b.norm(np.array([0, 0, 2 * z]))), "normsq([x,0,0])": ([L], lambda x: b.normsq([x, 0, 0])),
        "qpow(-3)": ([L, L, L, L], lambda s, x, y, z: b.qpow([s, x, y, z], -3)),
        "qpow(-2)": ([L, L, L, L], lambda s, x, y, z: b.qpow(np.array([s, x, y, z]), -2)),
        "qpow(-1)": ([L, L, L, L], lambda s, x, y, z: b.qpow([s, x, y, z], -1)),
        "qpow(0)": ([L, L, L, L], lambda s, x, y, z: b.qpow([s, x, y, z], 0)),
        "qpow(3)": ([L, L, L, L], lambda s, x, y, z: b.qpow((s, x, y, z), 3)),
        "SE3(ndarray[x,y,z])": ([L, L, L], lambda x, y, z: SE3(np.array([x, y, z]))),
        "SE3(ndarray column)": ([L, L, L], lambda x, y, z: SE3(np.array([[x], [y], [z]]))),
        "SE3([x,y,z])": ([L, L, L], lambda x, y, z: SE3([x, y, z])),
        "SE2(ndarray[x,y,theta])": ([L, L, A], lambda x, y, a: SE2(np.array([x, y, a]))),
        "SE2(x,y,theta)": ([L, L, A], lambda x, y, a: SE2(x, y, a)),
        "SO2(theta)": ([A], lambda a: SO2(a)),
        "SO2(ndarray[theta])": ([A], lambda a: SO2(np.array([a]))),
        "Twist3.Rx": ([A], lambda a: Twist3.Rx(a)), "Twist3.Ry": ([A], lambda a: Twist3.Ry(a)), "Twist3.Rz": ([A], lambda a: Twist3.Rz(a)),
        # documented options of the same entries: degrees, and the translation keyword of the homogeneous rotations
        "rotx(deg)": ([A], lambda a: b.rotx(a, "deg")), "roty(deg)": ([A], lambda a: b.roty(a, unit="deg")),
        "rotz(deg)": ([A], lambda a: b.rotz(a, unit="deg")),
        "trotx(deg)": ([A], lambda a: b.trotx(a, unit="deg")), "troty(deg)": ([A], lambda a: b.troty(a, "deg")),
        "trotz(deg)": ([A], lambda a: b.trotz(a, unit="deg")),
        "trotx(t=numbers)": ([A], lambda a: b.trotx(a, t=[1, 2, 3])), "troty(t=numbers)": ([A], lambda a: b.troty(a, t=(1.5, -2.0, 0.25))),
        "trotz(t=numbers)": ([A], lambda a: b.trotz(a, t=np.array([1.0, 2.0, 3.0]))),
        "trotx(t=)": ([A, L, L, L], lambda a, x, y, z: b.trotx(a, t=[x, y, z])), "troty(t=)": ([A, L, L, L], lambda a, x, y, z: b.troty(a, t=(x, y, z))),
        "trotz(t=)": ([A, L, L, L], lambda a, x, y, z: b.trotz(a, t=[x, y, z])),
        "eul2r(deg)": ([A, A, A], lambda a, bb, c: b.eul2r(a, bb, c, unit="deg")),
        "eul2tr(deg)": ([A, A, A], lambda a, bb, c: b.eul2tr(a, bb, c, unit="deg")),
        "eul2r([],deg)": ([A, A, A], lambda a, bb, c: b.eul2r([a, bb, c], unit="deg")),
        "eul2tr((),deg)": ([A, A, A], lambda a, bb, c: b.eul2tr((a, bb, c), unit="deg")),
        "SO3.Rx(deg)": ([A], lambda a: SO3.Rx(a, unit="deg")), "SE3.Ry(deg)": ([A], lambda a: SE3.Ry(a, "deg")),
        "SE3.Rx(t=numbers)": ([A], lambda a: SE3.Rx(a, t=[1, 2, 3])), "SE3.Rz(t=)": ([A, L, L, L], lambda a, x, y, z: SE3.Rz(a, t=[x, y, z])),
        "SO3.Eul(deg)": ([A, A, A], lambda a, bb, c: SO3.Eul([a, bb, c], unit="deg")),
        "SE3.Eul(deg)": ([A, A, A], lambda a, bb, c: SE3.Eul([a, bb, c], unit="deg")),
        "SO3.RPY(deg)": ([A, A, A], lambda a, bb, c: SO3.RPY([a, bb, c], unit="deg")),
        "SE3.RPY(deg)": ([A, A, A], lambda a, bb, c: SE3.RPY([a, bb, c], unit="deg")),
        # symbolic pose expressions
        "SE3.Rx*SE3.Tx": ([A, L], lambda a, x: SE3.Rx(a) * SE3.Tx(x)),
        "SE3.Rz*SE3.Ry*SE3.Rx": ([A, A, A], lambda a, bb, c: SE3.Rz(a) * SE3.Ry(bb) * SE3.Rx(c)),
        "(SE3.Rx*SE3.Ty).inv": ([A, L], lambda a, x: (SE3.Rx(a) * SE3.Ty(x)).inv()),
        "SE3.Rx*SE3.Tx*point": ([A, L], lambda a, x: (SE3.Rx(a) * SE3.Tx(x)) * [1, 2, 3]),
        "SO3.Rx*SO3.Ry": ([A, A], lambda a, bb: SO3.Rx(a) * SO3.Ry(bb)), "SO3.Rz.inv": ([A], lambda a: SO3.Rz(a).inv()),
        "SO3.Rx*point": ([A], lambda a: SO3.Rx(a) * [1, 2, 3]),
        "SE3.Rx*SE3.Rx.inv": ([A], lambda a: SE3.Rx(a) * SE3.Rx(a).inv()), "SE3.Rz**2": ([A], lambda a: SE3.Rz(a) ** 2),
        "SE3.Tx/SE3.Rz": ([A, L], lambda a, x: SE3.Tx(x) / SE3.Rz(a)),
        # points with symbolic coordinates in every container form (an ndarray holding symbols has dtype object)
        "SE3*point[list]": ([A, L, L, L], lambda a, x, y, z: (SE3.Rx(a) * SE3.Tx(2)) * [x, y, z]),
        "SE3*point[tuple]": ([A, L, L, L], lambda a, x, y, z: (SE3.Rx(a) * SE3.Tx(2)) * (x, y, z)),
        "SE3*point[ndarray]": ([A, L, L, L], lambda a, x, y, z: (SE3.Rx(a) * SE3.Tx(2)) * np.array([x, y, z])),
        "SE3*point[column]": ([A, L, L, L], lambda a, x, y, z: (SE3.Rx(a) * SE3.Tx(2)) * np.array([[x], [y], [z]])),
        "SO3*point[ndarray]": ([A, L, L, L], lambda a, x, y, z: SO3.Ry(a) * np.array([x, y, z])),
        "SE3*points[3xN]": ([A, L, L, L], lambda a, x, y, z: (SE3.Rz(a) * SE3.Ty(1)) * np.array([[x, 1, 0], [y, 2, z], [z, 3, x]])),
        # a pose with a scalar: element-wise arithmetic on the matrix (a plain array), the scalar symbolic or not
        "SE3*scalar": ([A, L], lambda a, s_: SE3.Rx(a) * s_), "scalar*SE3": ([A, L], lambda a, s_: s_ * SE3.Rx(a)),
        "SE3/scalar": ([A, L], lambda a, s_: SE3.Rx(a) / (s_ * s_ + 1)),          # the divisor never vanishes
        "SO3+scalar": ([A, L], lambda a, s_: SO3.Rz(a) + s_),
        "SO3-scalar": ([A, L], lambda a, s_: SO3.Rz(a) - s_),
    }
    return E


def mat_entries():
    """(name, arg kind) -> (kinds, f): entries taking a matrix / pose built from a composed symbolic rotation and a
    translation (x, y, z); the table of names and argument kinds is Api.SymMatApi x Api.SymMatArgs"""
    import spatialmath.base as b
    from spatialmath import SO3, SE3
    A, L = "angle", "length"

    def is_sym(*v):
        return any(isinstance(x, sympy.Basic) for x in v)

    rots = {"one-axis": (1, lambda a: b.rotx(a[0])),
            "two-axis": (2, lambda a: b.rotx(a[0]) @ b.roty(a[1])),
            "euler": (3, lambda a: b.eul2r(a[0], a[1], a[2])),
            "number-times-symbol": (1, lambda a: b.rotz(0.3) @ b.rotx(a[0]))}

    def hom(R, t):
        T = np.eye(4, dtype=object if (R.dtype == object or is_sym(*t)) else float)
        T[:3, :3] = R
        T[:3, 3] = t
        return T

    def eye(n, like):
        return np.eye(n, dtype=object) if like.dtype == object else np.eye(n)
    T0 = b.transl(0.5, -1.0, 2.0) @ b.troty(0.4)
    T2 = b.transl(-1.0, 0.25, 3.0) @ b.trotz(-0.7)
    fns = {
        "trinv": (True, lambda R, t: b.trinv(hom(R, t))),
        "tr2delta": (True, lambda R, t: b.tr2delta(hom(R, t))),
        "tr2delta(T0,T1)": (True, lambda R, t: b.tr2delta(T0, hom(R, t))),
        "tr2jac": (True, lambda R, t: b.tr2jac(hom(R, t))),
        "tr2jac(samebody)": (True, lambda R, t: b.tr2jac(hom(R, t), samebody=True)),
        "vex(R-I)": (False, lambda R, t: b.vex(R - eye(3, R))),
        "vex(R-R')": (False, lambda R, t: b.vex(R - R.T)),
        "vexa(T-I)": (True, lambda R, t: b.vexa(hom(R, t) - eye(4, hom(R, t)))),
        "det": (False, lambda R, t: b.det(R)),
        "det(4x4)": (True, lambda R, t: b.det(hom(R, t))),
        "SE3.inv": (True, lambda R, t: SE3(hom(R, t), check=False).inv()),
        "SE3.Ad": (True, lambda R, t: SE3(hom(R, t), check=False).Ad()),
        "SE3.jacob": (True, lambda R, t: SE3(hom(R, t), check=False).jacob()),
        "SE3.t": (True, lambda R, t: SE3(hom(R, t), check=False).t),
        "SO3.R": (False, lambda R, t: SO3(R, check=False).R),
        "SO3.inv": (False, lambda R, t: SO3(R, check=False).inv()),
        "SE3*SE3": (True, lambda R, t: SE3(hom(R, t), check=False) * SE3(T2, check=False)),
        "SE3*point": (True, lambda R, t: SE3(hom(R, t), check=False) * [1, -2, 3]),
        "SO3*point": (False, lambda R, t: SO3(R, check=False) * [1, -2, 3]),
        # simplify() must not change the VALUE of a pose: the numeric counterpart of X.simplify() is X itself
        "simplify": (True, lambda R, t: (lambda X: X.simplify() if np.asarray(X.A).dtype == object else X)(SE3(hom(R, t), check=False))),
        "SO3.simplify": (False, lambda R, t: (lambda X: X.simplify() if np.asarray(X.A).dtype == object else X)(SO3(R, check=False))),
    }
    out = {}
    for name, (uses_t, f) in fns.items():
        for ak, (na, rf) in rots.items():
            kinds = [A] * na + ([L] * 3 if uses_t else [])
            out[(name, ak)] = (kinds, (lambda *p, na=na, rf=rf, f=f, uses_t=uses_t:
                                       f(rf(p[:na]), list(p[na:na + 3]) if uses_t else [0.0, 0.0, 0.0])))
    return out


def to_array(r):
    """result -> numpy object/float array (objects -> first value)"""
    if hasattr(r, "data") and isinstance(r.data, list):
        if len(r.data) != 1:
            return None
        r = r.data[0]
    if isinstance(r, tuple):
        r = list(r)
    return np.array(r, dtype=object) if np.ndim(r) else np.array([r], dtype=object)


def evaluate(arr, subs):
    out = np.zeros(arr.shape, dtype=float)
    for idx in np.ndindex(arr.shape):
        e = arr[idx]
        if isinstance(e, sympy.Basic):
            v = e.subs(subs)
            out[idx] = float(sympy.N(v, 30))
        else:
            out[idx] = float(e)
    return out


NRANDOM = [4]          # random substitution points per entry (40 in the thorough tier)


def points(kinds, rng):
    """special angles and lengths, then random ones"""
    sa = [0.0, math.pi / 2, -math.pi / 2, math.pi, 0.3]
    sl = [0.0, 1.0, -2.5, 1e-6, 1e6]
    pts = []
    for i in range(5):
        pts.append([(sa[(i + k) % 5] if kd == "angle" else sl[(i + 2 * k) % 5]) for k, kd in enumerate(kinds)])
    # many turns: the numeric path must not lose what the symbolic one keeps (1e5 rad is 15 915 turns)
    pts.append([(1.0e5 if kd == "angle" else 2.0) for kd in kinds])
    pts.append([(-2.5e5 + 0.5 * k if kd == "angle" else -0.5) for k, kd in enumerate(kinds)])
    for _ in range(NRANDOM[0]):
        pts.append([(rng.uniform(-2 * math.pi, 2 * math.pi) if kd == "angle" else rng.uniform(-10, 10) * 10 ** rng.randint(-3, 3))
                    for kd in kinds])
    return pts


def run_entry(j, name, mode, kinds, fn, rng):
    names = ["p%d" % i for i in range(len(kinds))]
    syms = [S(n) for n in names]
    fixed = {}
    if mode in ("mixed", "mixed-number-first") and len(kinds) > 1:
        # every second parameter is a plain number, starting with the second or with the first one
        for i in range(1 if mode == "mixed" else 0, len(kinds), 2):
            fixed[i] = 0.7 if kinds[i] == "angle" else -1.5
    elif mode != "all-symbolic":
        return "skip"
    args = [fixed.get(i, syms[i]) for i in range(len(kinds))]
    site, feat = name, mode
    cid = (name, mode)
    detail = {"kind": "symbolic", "name": name, "mode": mode}
    try:
        rs = fn(*args)
    except Exception as ex:  # noqa: BLE001
        j.fail("%s|%s|%s|symbolic-call-raised-%s" % (PID, site, feat, type(ex).__name__), detail, cid)
        return
    arr = to_array(rs)
    if arr is None:
        j.fail("%s|%s|%s|unreadable-symbolic-result" % (PID, site, feat), detail, cid)
        return
    free = [i for i in range(len(kinds)) if i not in fixed]
    const_mask = None
    worst = 0.0
    for pt in points([kinds[i] for i in free], rng):
        full = [fixed.get(i) for i in range(len(kinds))]
        for i, v in zip(free, pt):
            full[i] = v
        try:
            rn = to_array(fn(*full)).astype(float)
        except Exception as ex:  # noqa: BLE001
            j.skip("numeric path raised at a substitution point (owned by other properties)")
            continue
        try:
            ev = evaluate(arr, {syms[i]: full[i] for i in free})
        except Exception as ex:  # noqa: BLE001
            j.fail("%s|%s|%s|substitution-raised-%s" % (PID, site, feat, type(ex).__name__), dict(detail, point=full), cid)
            return
        if ev.shape != rn.shape:
            j.fail("%s|%s|%s|shape-differs-from-numeric" % (PID, site, feat), dict(detail, sym=list(ev.shape), num=list(rn.shape)), cid)
            return
        mag = max(1.0, float(np.max(np.abs(rn))))
        worst = max(worst, float(np.max(np.abs(ev - rn))) / mag)
        m = (rn == 0.0) | (rn == 1.0)
        const_mask = m if const_mask is None else (const_mask & m)
    if worst > TOL:
        j.fail("%s|%s|%s|symbolic-differs-from-numeric" % (PID, site, feat), dict(detail, rel_error=worst), cid)
        return
    # an entry is a structural constant only if the numeric path returns exactly 0 / 1 for generic arguments too:
    # 40 more random points (numeric path only) make a rounding coincidence such as cos^2 + sin^2 == 1.0 negligible
    for _ in range(40):
        if const_mask is None or not const_mask.any():
            break
        # (the positions held at a plain number vary too: a value that is 0 / 1 only for THAT number is not structural)
        full = [rng.uniform(-3.0, 3.0) if kinds[i] == "angle" else rng.uniform(-10, 10) for i in range(len(kinds))]
        try:
            rn = to_array(fn(*full)).astype(float)
        except Exception:  # noqa: BLE001
            continue
        if rn.shape == const_mask.shape:
            const_mask &= (rn == 0.0) | (rn == 1.0)
    # structural constants: exactly 0 / 1 in the numeric path at every point  =>  symbol-free 0 / 1 symbolically
    bad = []
    if const_mask is not None:
        for idx in np.ndindex(arr.shape):
            if const_mask[idx]:
                e = arr[idx]
                if isinstance(e, sympy.Basic):
                    if e.free_symbols or e not in (sympy.Integer(0), sympy.Integer(1), sympy.Float(0), sympy.Float(1)):
                        try:
                            if e.free_symbols or float(e) not in (0.0, 1.0):
                                bad.append((idx, str(e)[:60]))
                        except TypeError:
                            bad.append((idx, str(e)[:60]))
                elif float(e) not in (0.0, 1.0):
                    bad.append((idx, repr(e)))
    if bad:
        j.fail("%s|%s|%s|structural-constant-not-exact" % (PID, site, feat), dict(detail, entries=bad[:6]), cid)
    else:
        j.ok(cid)


def exact_constructors(j, cases):
    """symbolic constructors substituted at the EXACT angles of Ctor.tla must give TLC's exact value"""
    import spatialmath.base as b
    import ctorlib as cl
    th = S("theta")
    for case in cases:
        if case["fn"] != "rot" or case["val"]["den"] == 0:
            continue
        ax = case["par"]["ax"]
        g = case["par"]["g"]
        E = cl.expected_T4(case)[:3, :3]
        arr = np.array(getattr(b, "rot" + ax)(th), dtype=object)
        # exact substitution: cos = (a^2-b^2)/(a^2+b^2), sin = 2ab/(a^2+b^2) for the Gaussian angle <<a,b>>
        a_, b_ = g
        n = a_ * a_ + b_ * b_
        cval, sval = sympy.Rational(a_ * a_ - b_ * b_, n), sympy.Rational(2 * a_ * b_, n)
        cid = ("exact", ax)
        ok = True
        for idx in np.ndindex(arr.shape):
            e = arr[idx]
            v = e.subs({sympy.cos(th): cval, sympy.sin(th): sval}) if isinstance(e, sympy.Basic) else sympy.nsimplify(e)
            if abs(float(v) - E[idx]) > 1e-12:
                ok = False
        if ok:
            j.ok(cid)
        else:
            j.fail("%s|base.rot%s|exact-angle|differs-from-exact-value" % (PID, ax), {"g": g}, cid)


def run(tier):
    j = Judge(PID)
    NRANDOM[0] = 40 if tier == "thorough" else 4
    rng = random.Random(common.seed() + 16)
    ra = run_tlc("MC_Api", "Api", timeout=300)
    calls = [e["call"] for e in ra.json if "call" in e and e["call"]["op"] == "sym"]
    E = entries()
    names = {c["name"] for c in calls}
    missing = [n for n in names if n not in E]
    if missing:
        raise MachineryError("SymApi entries without a binding: %s" % missing)
    seen = set()
    for c in calls:
        key = (c["name"], c["mode"])
        if key in seen:
            continue
        seen.add(key)
        ent = E[c["name"]]
        if ent is None:
            j.skip("entry not exercisable symbolically (documented in DESIGN)")
            continue
        kinds, fn = ent
        run_entry(j, c["name"], c["mode"], kinds, fn, rng)
    # matrix-argument entries x ways of composing the symbolic matrix
    mcalls = [e["call"] for e in ra.json if "call" in e and e["call"]["op"] == "symmat"]
    ME = mat_entries()
    mseen = set()
    for c in mcalls:
        key = (c["name"], c["arg"], c["mode"])
        if key in mseen:
            continue
        mseen.add(key)
        if (c["name"], c["arg"]) not in ME:
            raise MachineryError("SymMatApi entry without a binding: %s" % (key,))
        kinds, fn = ME[(c["name"], c["arg"])]
        run_entry(j, "%s[%s]" % (c["name"], c["arg"]), c["mode"], kinds, fn, rng)
    if len(mseen) < 100:
        raise MachineryError("SymMat export too small: %d" % len(mseen))
    rc = run_tlc("MC_Ctor", "Ctor_quick", timeout=300)
    exact_constructors(j, rc.json)
    j.sample({"call": calls[0]})
    cov = {"states": ra.distinct + rc.distinct, "transitions": ra.generated + rc.generated,
           "traces_validated_against_impl": len(seen) + len(mseen), "entries": len(names), "matrix_entry_cases": len(mseen),
           "rule": "case = (entry or pose expression, all-symbolic | mixed); each substituted at 5 special + 4 random points"}
    return {"judge": j, "coverage": cov, "level": "model_checking", "assumptions": [
        "structural constants are the entries the numeric path returns as exactly 0 or 1 at every substitution point",
        "SE3.Delta is marked SymPy-supported upstream but normalises numerically; it is not exercised symbolically"]}


def replay(rp):
    for c in rp["cases"][:6]:
        print(c)
    return 0
