"""Replay of Sharing.tla behaviours: several live objects of one class, derived from one another and then mutated
through the documented list-mutation methods.  After EVERY step EVERY live object is compared with the
specification's value (a sequence of value identities): the step's target and destination must have the model's
contents, and every other object must be unchanged ("value semantics").
"""
import elems


class NotSpecified(Exception):
    pass


def _construct(cls, arg, check):
    """cls(arg, check=check); classes whose constructor has no check keyword are called without it"""
    import inspect
    if "check" in inspect.signature(cls.__init__).parameters:
        return cls(arg, check=check)
    return cls(arg)


def _ext_snap(ext):
    return (len(ext), tuple(id(a) for a in ext), tuple(a.tobytes() for a in ext))


def _step(cname, objs, call, ext=None):
    op = call["op"]
    cls = elems.CLS[cname]
    if op == "ctor-copy" and cname in elems.EXTRA and len(objs[call["src"]]) != 1:
        # copy construction of a MULTI-valued line / spatial vector is outside the listed properties (it stores the
        # list of values as one element): the behaviour is abandoned, not judged
        raise NotSpecified()
    if op == "getitem":
        objs[call["dst"]] = objs[call["src"]][call["i"]]
    elif op == "slice-all":
        objs[call["dst"]] = objs[call["src"]][:]
    elif op == "slice-rev":
        objs[call["dst"]] = objs[call["src"]][::-1]
    elif op == "ctor-copy":
        objs[call["dst"]] = cls(objs[call["src"]])
    elif op == "ctor-list":
        objs[call["dst"]] = cls([objs[call["src"]], objs[call["src2"]]])
    elif op == "ctor-ext":
        objs[call["dst"]] = _construct(cls, ext, call["check"])
    elif op == "ctor-A":
        objs[call["dst"]] = _construct(cls, objs[call["src"]].A, False)
    elif op == "same-value-method":
        m = {"simplify": "simplify", "norm": "norm"}[call["m"]]
        if cname == "UnitQuaternion" and m == "norm":
            m = "unit"                       # the normalising method of unit quaternions
        if cname not in ("SO2", "SE2", "SO3", "SE3") and not (cname == "UnitQuaternion" and m == "unit"):
            raise NotSpecified()
        objs[call["dst"]] = getattr(objs[call["src"]], m)()
    elif op == "iter-first":
        objs[call["dst"]] = next(iter(objs[call["src"]]))
    elif op == "setitem":
        objs[call["tgt"]][call["i"]] = objs[call["arg"]]
    elif op == "setitem-fresh":
        objs[call["tgt"]][call["i"]] = elems.inject(cname, [call["v"]])
    elif op == "append":
        objs[call["tgt"]].append(objs[call["arg"]])
    elif op == "insert":
        objs[call["tgt"]].insert(call["i"], objs[call["arg"]])
    elif op == "extend":
        objs[call["tgt"]].extend(objs[call["arg"]])
    elif op == "pop":
        objs[call["dst"]] = objs[call["tgt"]].pop()
    elif op == "reverse":
        objs[call["tgt"]].reverse()
    elif op == "del":
        del objs[call["tgt"]][call["i"]]
    elif op == "clear":
        objs[call["tgt"]].clear()
    elif op == "forget":
        del objs[call["tgt"]]
    else:
        raise ValueError(op)


def replay(j, pid, cname, hist, fresh=False):
    objs = {1: elems.inject(cname, [1, 2]), 2: elems.inject(cname, [3])}
    prog = []
    fragile = set()
    ext = None
    if hist and "ext" in hist[0]:
        ext = [elems.arr(cname, k) for k in hist[0]["ext"]]       # the caller's own list of plain arrays
        ext0 = _ext_snap(ext)
    for k, st in enumerate(hist):
        call, model = st["call"], st["objs"]
        op = call["op"] + (str(call["i"]) if "i" in call and call["op"] in ("getitem", "setitem") else "")
        prog.append(op)
        # how the objects touched by this step were obtained: the most recent deriving operation of the behaviour
        origin = next((p for p in reversed(prog[:-1]) if p.split("0")[0].split("-1")[0] in
                       ("getitem", "slice-all", "slice-rev", "ctor-copy", "ctor-list", "ctor-ext", "ctor-A", "same-value-method", "iter-first", "append", "insert", "extend", "pop")), "fresh")
        cid = ("share", cname, op, origin)
        site = "share.%s" % op
        feat = "%s;after=%s" % (cname, origin)
        detail = {"kind": "sharing", "class": cname, "step": k, "call": call, "program": [s["call"] for s in hist[:k + 1]]}
        involved = {call.get(k_) for k_ in ("src", "src2", "tgt", "arg")} - {None}
        try:
            _step(cname, objs, call, ext)
            if call["op"] == "same-value-method" and call["m"] == "simplify":
                fragile.add(call["dst"])
            elif involved & fragile:            # object-held numbers spread to whatever is derived from / extended by them
                fragile.update(x_ for x_ in (call.get("dst"), call.get("tgt")) if x_ is not None)
        except NotSpecified:
            j.skip("step not specified for this class (copy construction of a multi-valued line / spatial vector, a method the class does not have): behaviour abandoned")
            return True
        except Exception as ex:  # noqa: BLE001
            if involved & fragile:
                # simplify() of a NUMERIC pose holds its numbers as objects; what can be done with such an object later
                # (indexing, popping ...) is outside the listed properties: the behaviour is abandoned, not judged
                j.skip("a step on the result of simplify() of a numeric pose raised: not specified, behaviour abandoned")
                return True
            j.fail("%s|%s|%s|raised-%s" % (pid, site, feat, type(ex).__name__), detail, cid)
            return False
        bad = None
        for i, want in enumerate(model, 1):
            if want == [-1]:
                continue
            o = objs.get(i)
            if o is None:
                bad = ("object-missing", i)
                break
            got = elems.project(cname, o)
            if got[0] != cname or got[1] != want:
                role = "target" if call.get("tgt") == i else "result" if call.get("dst") == i else "other"
                bad = ({"target": "receiver-has-wrong-contents", "result": "result-has-wrong-contents",
                        "other": "other-object-modified"}[role], i)
                detail = dict(detail, object=i, got=[str(x) for x in got[1]], expected=want, got_class=got[0])
                break
        if bad is None and ext is not None and _ext_snap(ext) != ext0:
            bad = ("callers-list-modified", 0)
        if bad:
            j.fail("%s|%s|%s|%s" % (pid, site, feat, bad[0]), detail, cid)
            return False
        j.ok(cid)
    if fresh:
        # every live object, with its history of derivations and edits, behaves like a fresh object with the same values
        import seqlib
        import numpy as np
        for i, o in objs.items():
            if len(o.data) == 0:
                continue
            y = elems.inject(cname, [1] * len(o.data))
            y.data = [np.array(a, copy=True) for a in o.data]
            name = _differs(o, y)
            cidf = ("share", cname, "fresh-equivalence")
            if name:
                j.fail("%s|%s.%s|%s;after=%s|differs-from-fresh-object-with-same-values" % (pid, cname, name, cname, prog[-1]),
                       {"kind": "sharing", "class": cname, "member": name, "program": [s["call"] for s in hist]}, cidf)
                return False
            j.ok(cidf)
    return True


def _differs(x, y):
    """name of the first zero-argument member whose value on x differs from the one on y (same class, same contents)"""
    import inspect
    import seqlib
    C = type(x)
    for name in sorted(a for a in dir(C) if not a.startswith("_") and a not in seqlib.SKIP_MEMBERS):
        try:
            attr = inspect.getattr_static(C, name)
        except AttributeError:
            continue
        if isinstance(attr, (classmethod, staticmethod)):
            continue
        res = []
        for o in (y, x):
            try:
                v = getattr(o, name)
                if not isinstance(attr, property):
                    if not callable(v):
                        res.append(("skip", None))
                        continue
                    sig = inspect.signature(v)
                    if [p for p in sig.parameters.values()
                            if p.default is inspect._empty and p.kind in (p.POSITIONAL_ONLY, p.POSITIONAL_OR_KEYWORD)]:
                        res.append(("skip", None))
                        continue
                    v = v()
                res.append(("val", seqlib._flat(v)))
            except Exception as ex:  # noqa: BLE001
                res.append(("raise", type(ex).__name__))
        (k1, v1), (k2, v2) = res
        if "skip" in (k1, k2):
            continue
        if k1 != k2 or (k1 == "raise" and v1 != v2) or (k1 == "val" and not seqlib._close(v2, v1, 1e-9)):
            return name
    return None
