"""C11 - interpolation: endpoints, validity, linear translation, constant-rate rotation.

Spec: Interp.tla - with m1 = [q0 p^n, t1] the exact interpolant at s = k/n is [q0 p^k, t0 + (k/n)(t1 - t0)];
Endpoints is an invariant, FixedAxis / AllValid are TLC-checked theorems.  Every exported curve is
replayed through base.trinterp (SO(3) and SE(3)), SO3 / SE3.interp, UnitQuaternion.interp, base.slerp
(with and without shortest, with and without explicit start) and, for planar cases, trinterp2 / SO2 /
SE2.interp, with scalar and vector s.  Valuations: relative angles 1e-12 .. pi-1e-6, s in {0, 1e-12,
..., 1-1e-12, 1}, s slightly outside [0,1]; fixed-axis / proportional-angle measured on R0' R(s).
"""
import math
import random

import numpy as np

import common
from common import Judge, MachineryError, run_tlc
import gamma

PID = "C11"
TOL = 1e-6


def check(j, ok, site, feat, mode, detail, cid):
    if ok:
        j.ok(cid)
    else:
        j.fail("%s|%s|%s|%s" % (PID, site, feat, mode), detail, cid)


def guard(j, site, feat, detail, cid, fn):
    try:
        return fn()
    except Exception as ex:  # noqa: BLE001
        j.fail("%s|%s|%s|raised-%s" % (PID, site, feat, type(ex).__name__), detail, cid)
        return None


def uq_to_R(q):
    import ctorlib
    return ctorlib._q2r(q)


def routes3(T0, T1, with_start, far_from_antipodal=True):
    """name -> f(s) returning a 4x4 (translation zero for rotation-only routes) ; second item: has translation"""
    import spatialmath.base as b
    from spatialmath import SO3, SE3, UnitQuaternion
    R0, R1 = T0[:3, :3], T1[:3, :3]
    st = {"T": T0, "R": R0} if with_start else {"T": None, "R": None}
    q0, q1 = UnitQuaternion(SO3(R0, check=False)), UnitQuaternion(SO3(R1, check=False))
    out = {
        "base.trinterp(T)": (lambda s: b.trinterp(st["T"], T1, s), True),
        "base.trinterp(R)": (lambda s: b.r2t(b.trinterp(st["R"], R1, s)), False),
        "SE3.interp": (lambda s: SE3(T1, check=False).interp(s, SE3(T0, check=False) if with_start else None).A, True),
        "SO3.interp": (lambda s: b.r2t(SO3(R1, check=False).interp(s, SO3(R0, check=False) if with_start else None).A), False),
    }
    # the end pose held as the SECOND value of an object holding two (scalar s: one result per held value)
    Tx = T1 @ T1 @ T0
    out["SE3([other,T1]).interp[1]"] = (lambda s: SE3([SE3(Tx, check=False), SE3(T1, check=False)]).interp(s, SE3(T0, check=False) if with_start else None)[1].A, True)
    out["SO3([other,R1]).interp[1]"] = (lambda s: b.r2t(SO3([SO3(Tx[:3, :3], check=False), SO3(R1, check=False)]).interp(s, SO3(R0, check=False) if with_start else None)[1].A), False)
    if with_start:
        out["UnitQuaternion.interp(dest)"] = (lambda s: b.r2t(uq_to_R(q0.interp(s, dest=q1).vec)), False)
        out["UnitQuaternion.interp(dest,shortest)"] = (lambda s: b.r2t(uq_to_R(q0.interp(s, dest=q1, shortest=True).vec)), False)
        out["base.slerp"] = (lambda s: b.r2t(uq_to_R(b.slerp(q0.vec, q1.vec, s))), False)
        out["base.slerp(shortest)"] = (lambda s: b.r2t(uq_to_R(b.slerp(q0.vec, q1.vec, s, shortest=True))), False)
    else:
        out["UnitQuaternion.interp"] = (lambda s: b.r2t(uq_to_R(q1.interp(s).vec)), False)
        out["UnitQuaternion.interp(shortest)"] = (lambda s: b.r2t(uq_to_R(q1.interp(s, shortest=True).vec)), False)
    # the same rotations held as the OTHER quaternion of the double cover (negative scalar part): with shortest=True
    # the result must still follow the shorter arc
    n0, n1 = UnitQuaternion(-q0.vec), UnitQuaternion(-q1.vec)
    # ... and WITHOUT the shorter-arc option: the arc taken is that of the quaternions given (class method and base
    # function must take the same one)
    # (nearly antipodal pairs - relative rotation close to the identity held on opposite sheets - are excluded by the
    # statement when the shorter arc is not requested)
    if not far_from_antipodal:
        pass
    elif with_start:
        out["UnitQuaternion.interp(dest=-q)"] = (lambda s: b.r2t(uq_to_R(q0.interp(s, dest=n1).vec)), False)
        out["base.slerp(q0,-q1)"] = (lambda s: b.r2t(uq_to_R(b.slerp(q0.vec, n1.vec, s))), False)
    else:
        out["UnitQuaternion(-q).interp"] = (lambda s: b.r2t(uq_to_R(n1.interp(s).vec)), False)
        out["base.slerp(1,-q1)"] = (lambda s: b.r2t(uq_to_R(b.slerp(np.array([1.0, 0, 0, 0]), n1.vec, s))), False)
    if with_start:
        out["UnitQuaternion.interp(dest=-q,shortest)"] = (lambda s: b.r2t(uq_to_R(q0.interp(s, dest=n1, shortest=True).vec)), False)
        out["UnitQuaternion(-q).interp(dest,shortest)"] = (lambda s: b.r2t(uq_to_R(n0.interp(s, dest=q1, shortest=True).vec)), False)
        out["base.slerp(q0,-q1,shortest)"] = (lambda s: b.r2t(uq_to_R(b.slerp(q0.vec, n1.vec, s, shortest=True))), False)
    else:
        out["UnitQuaternion(-q).interp(shortest)"] = (lambda s: b.r2t(uq_to_R(n1.interp(s, shortest=True).vec)), False)
    return out


def routes2(H0, H1, with_start):
    import spatialmath.base as b
    from spatialmath import SO2, SE2
    P0, P1 = H0[:2, :2], H1[:2, :2]
    return {
        "base.trinterp2(T)": (lambda s: b.trinterp2(H0 if with_start else None, H1, s), True),
        "base.trinterp2(R)": (lambda s: b.rt2tr(b.trinterp2(P0 if with_start else None, P1, s), [0, 0]), False),
        "SE2.interp": (lambda s: SE2(H1, check=False).interp(s, SE2(H0, check=False) if with_start else None).A, True),
        "SO2.interp": (lambda s: b.rt2tr(SO2(P1, check=False).interp(s, SO2(P0, check=False) if with_start else None).A, [0, 0]), False),
        # the end pose held as the SECOND value of an object holding two (scalar s: one result per held value)
        "SE2([other,T1]).interp[1]": (lambda s: SE2([SE2(H1 @ H1 @ H0, check=False), SE2(H1, check=False)]).interp(s, SE2(H0, check=False) if with_start else None)[1].A, True),
        "SO2([other,R1]).interp[1]": (lambda s: b.rt2tr(SO2([SO2(P1 @ P1 @ P0, check=False), SO2(P1, check=False)]).interp(s, SO2(P0, check=False) if with_start else None)[1].A, [0, 0]), False),
    }


def long_arc(E0, p, n, s, dim):
    """start pose followed by a rotation about the axis of p by s (theta - 2 pi), theta = n theta_p"""
    import ctorlib
    v = np.array(p[1:], dtype=float)
    th = n * 2.0 * math.atan2(float(np.linalg.norm(v)), p[0])
    Rrel = ctorlib._axis_rot(p[1:], s * (th - 2 * math.pi))
    if dim == "2D":
        out = np.eye(3)
        out[:2, :2] = E0[:2, :2] @ Rrel[:2, :2]
        return out
    out = np.eye(4)
    out[:3, :3] = E0[:3, :3] @ Rrel
    return out


def lattice_case(j, e, sigma):
    c, out = e["c"], e["out"]
    n = c["n"]
    identity_start = c["m0"]["q"] == [1, 0, 0, 0] and all(c["m0"]["num"][i][3] == 0 for i in range(3))
    T0, T1 = gamma.T4(c["m0"], sigma), gamma.T4(c["m1"], sigma)
    sc = max(1.0, float(np.max(np.abs(T0[:3, 3]))), float(np.max(np.abs(T1[:3, 3]))))
    svals = [k / n for k in range(n + 1)]
    for with_start in ((True, False) if identity_start else (True,)):
        fam = [("3D", routes3(T0, T1, with_start), lambda h: gamma.T4(h, sigma))]
        if c["planar"]:
            H0, H1 = gamma.T3(c["m0"], sigma), gamma.T3(c["m1"], sigma)
            fam.append(("2D", routes2(H0, H1, with_start), lambda h: gamma.T3(h, sigma)))
        for dim, routes, expf in fam:
            for site, (fn, has_t) in routes.items():
                feat = "n=%d;start=%s;sigma=%g" % (n, with_start, sigma)
                for k, s in enumerate(svals):
                    cid = (site, "k/n", with_start, "end" if k in (0, n) else "interior")
                    detail = {"kind": "lattice", "p": c["p"], "n": n, "k": k, "start": with_start, "sigma": sigma, "m0q": c["m0"]["q"]}
                    r = guard(j, site, feat, detail, cid, lambda: fn(s))
                    if r is None:
                        continue
                    E = expf(out[k]).copy()
                    if not has_t:
                        E[:-1, -1] = 0
                    r = np.asarray(r, dtype=float)
                    d = float(np.max(np.abs(r - E)))
                    mode = "wrong-endpoint" if k in (0, n) else "not-on-the-constant-rate-arc"
                    if d > TOL * sc and "shortest" not in site and 0 < k < n:
                        # the other arc is admissible when the shorter one is not requested: same axis,
                        # angle s (theta - 2 pi); translation unchanged
                        El = long_arc(expf(out[0]), c["p"], n, s, dim)
                        if has_t:
                            El[:-1, -1] = E[:-1, -1]
                        d = min(d, float(np.max(np.abs(r - El))))
                    check(j, d <= TOL * sc, site, feat, mode, dict(detail, distance=d), cid)
    # a vector of s values yields the corresponding sequence
    import spatialmath.base as b
    from spatialmath import SE3, SO3, UnitQuaternion
    feat = "n=%d;vector-s" % n
    for site, fn, proj in (
            ("SE3.interp(vector)", lambda: SE3(T1, check=False).interp(svals, SE3(T0, check=False)), lambda x: x.A),
            ("SO3.interp(vector)", lambda: SO3(T1[:3, :3], check=False).interp(svals, SO3(T0[:3, :3], check=False)), lambda x: b.r2t(x.A)),
            ("UnitQuaternion.interp(vector)", lambda: UnitQuaternion(SO3(T0[:3, :3], check=False)).interp(svals, dest=UnitQuaternion(SO3(T1[:3, :3], check=False))),
             lambda x: b.r2t(uq_to_R(x.vec)))):
        cid = (site, "vector")
        seq = guard(j, site, feat, {"n": n, "p": c["p"]}, cid, fn)
        if seq is None:
            continue
        ok = len(seq) == n + 1
        if ok:
            for k in range(n + 1):
                E = gamma.T4(out[k], sigma).copy()
                if not site.startswith("SE3"):
                    E[:3, 3] = 0
                El = long_arc(gamma.T4(out[0], sigma), c["p"], n, svals[k], "3D")
                El[:3, 3] = E[:3, 3]
                got = proj(seq[k])
                ok = ok and min(float(np.max(np.abs(got - E))), float(np.max(np.abs(got - El)))) <= TOL * sc
        check(j, ok, site, feat, "wrong-sequence", {"n": n, "p": c["p"], "m0q": c["m0"]["q"]}, cid)


def axis_angle_of(Rrel):
    """rotation angle in [0, pi] and (unnormalised) axis of a relative rotation, from vex and atan2"""
    w = np.array([Rrel[2, 1] - Rrel[1, 2], Rrel[0, 2] - Rrel[2, 0], Rrel[1, 0] - Rrel[0, 1]]) / 2
    s = float(np.linalg.norm(w))
    return math.atan2(s, (float(np.trace(Rrel)) - 1) / 2), w


def integer_ends(j):
    """end poses stored with an INTEGER dtype (quarter / half turns with whole-number translations): every interpolator
    must return what it returns for the same poses in floating point (the curve itself is judged on the float form)"""
    Rs = [np.eye(3), gamma.rotz(math.pi / 2), gamma.rotx(math.pi / 2), gamma.roty(-math.pi / 2), gamma.rotz(math.pi),
          gamma.rotz(math.pi / 2) @ gamma.rotx(math.pi / 2)]
    ts = [np.array([0.0, 0.0, 0.0]), np.array([1.0, 2.0, 0.0]), np.array([-3.0, 1.0, 2.0])]
    for a, R0 in enumerate(Rs):
        for b_, R1 in enumerate(Rs):
            if a == b_:
                continue
            T0 = np.eye(4)
            T0[:3, :3], T0[:3, 3] = np.round(R0), ts[a % 3]
            T1 = np.eye(4)
            T1[:3, :3], T1[:3, 3] = np.round(R1), ts[(b_ + 1) % 3]
            planar = abs(T0[2, 2] - 1) < 1e-12 and abs(T1[2, 2] - 1) < 1e-12 and T0[2, 3] == 0 and T1[2, 3] == 0
            for with_start in (True, False):
                fams = [(routes3(T0, T1, with_start, far_from_antipodal=False),
                         routes3(T0.astype(int), T1.astype(int), with_start, far_from_antipodal=False))]
                if planar:
                    H0, H1 = T0[[0, 1, 3]][:, [0, 1, 3]], T1[[0, 1, 3]][:, [0, 1, 3]]
                    fams.append((routes2(H0, H1, with_start), routes2(H0.astype(int), H1.astype(int), with_start)))
                for rf, ri in fams:
                    for site in rf:
                        for s in (0.0, 0.25, 0.5, 1.0):
                            cid = (site, "int-ends", with_start)
                            feat = "integer-dtype-ends;start=%s;s=%g" % (with_start, s)
                            detail = {"kind": "int-ends", "T0": T0.tolist(), "T1": T1.tolist(), "s": s}
                            try:
                                want = np.asarray(rf[site][0](s), dtype=float)
                            except Exception:  # noqa: BLE001  (e.g. antipodal pair: the float form is judged elsewhere)
                                continue
                            got = guard(j, site + "[int]", feat, detail, cid, lambda: np.asarray(ri[site][0](s), dtype=float))
                            if got is not None:
                                ok = got.shape == want.shape and float(np.max(np.abs(got - want))) <= 1e-9
                                check(j, ok, site + "[int]", feat, "differs-from-floating-point-form", dict(detail, got=got.tolist()), cid)


def valuations(j, rng, n):
    import spatialmath.base as b
    from spatialmath import SO3, SE3, UnitQuaternion, SO2, SE2
    svals = [0.0, 1e-12, 0.25, 0.5, 0.8, 1 - 1e-12, 1.0]
    for i in range(n):
        dth = [1e-12, 1e-9, 1e-6, 1e-3, 0.3, 1.5, 3.0, math.pi - 1e-3, math.pi - 1e-6][i % 9] if i % 2 else 10 ** rng.uniform(-12, math.log10(math.pi - 1e-6))
        u = np.array([rng.gauss(0, 1) for _ in range(3)])
        u /= np.linalg.norm(u)
        Q = gamma.rotz(rng.uniform(-3, 3)) @ gamma.roty(rng.uniform(-1.5, 1.5)) @ gamma.rotx(rng.uniform(-3, 3))
        # R1 = R0 * Rot(axis, dth) with the relative rotation about a coordinate axis conjugated by Q
        Rrel = Q @ gamma.rotz(dth) @ Q.T
        R0 = gamma.rotz(rng.uniform(-3, 3)) @ gamma.rotx(rng.uniform(-3, 3)) if i % 3 else np.eye(3)
        if i % 5 == 4 and i % 3:
            # the start turns by almost half a turn about the axis of the relative rotation and the end by a little more
            # than half a turn: the two matrices convert to quaternions of opposite sign, so the arc taken when the
            # shorter one is not requested is the long one (quaternion angle close to, not at, pi)
            a_, b_ = rng.uniform(0.02, 0.4), rng.uniform(0.02, 0.4)
            R0 = Q @ gamma.rotz(math.pi - a_) @ Q.T
            dth = a_ + b_
            Rrel = Q @ gamma.rotz(dth) @ Q.T
        R1 = R0 @ Rrel
        axis = Q[:, 2]
        t0 = np.array([rng.gauss(0, 1) for _ in range(3)]) * 10 ** rng.uniform(-3, 3) if i % 3 else np.zeros(3)
        t1 = np.array([rng.gauss(0, 1) for _ in range(3)]) * 10 ** rng.uniform(-3, 3)
        T0, T1 = b.rt2tr(R0, t0), b.rt2tr(R1, t1)
        band = "dtheta=%s" % ("tiny" if dth < 1e-5 else "near-pi" if dth > 3.1 else "mid")
        sc = max(1.0, float(np.max(np.abs(t0))), float(np.max(np.abs(t1))))
        with_start = bool(i % 3)
        taken = {}
        for site, (fn, has_t) in routes3(T0, T1, with_start, far_from_antipodal=dth >= 0.05).items():
            for s in svals:
                cid = (site, band, "s=%g" % s)
                feat = "%s;s=%g;start=%s" % (band, s, with_start)
                detail = {"kind": "valuation", "dtheta": dth, "s": s, "T0": T0.tolist(), "T1": T1.tolist()}
                r = guard(j, site, feat, detail, cid, lambda: np.asarray(fn(s), dtype=float))
                if r is None:
                    continue
                R = r[:3, :3]
                taken.setdefault(("shortest" in site, "-q" in site, s), []).append((site, R))
                ok = gamma.validity_residual("SO3", R) <= 1e-9                            # a valid member for every s
                mode = "not-a-group-member"
                if ok and has_t:
                    ok = float(np.max(np.abs(r[:3, 3] - (t0 + s * (t1 - t0))))) <= TOL * sc    # translation linear in s
                    mode = "translation-not-linear"
                if ok:
                    # fixed axis, angle proportional to s, along the arc taken (short arc here: dth < pi)
                    Rs = R0 @ Q @ gamma.rotz(s * dth) @ Q.T                       # short arc
                    Rl = R0 @ Q @ gamma.rotz(s * (dth - 2 * math.pi)) @ Q.T       # the other arc about the same axis
                    ds, dl = float(np.max(np.abs(R - Rs))), float(np.max(np.abs(R - Rl)))
                    ok = ds <= TOL or ("shortest" not in site and dl <= TOL)
                    mode = "not-constant-rate-about-fixed-axis"
                check(j, ok, site, feat, mode, dict(detail, got=r.tolist()), cid)
        # the matrix functions, the pose-class method and the quaternion routes agree: with the same setting of the
        # shorter-arc option and the same quaternions (those the matrices convert to) they take the same arc
        for (sh, neg, s), lst in taken.items():
            site0, Ra = lst[0]
            for site, Rb in lst[1:]:
                cid = ("agree", site, band, "interior" if 0 < s < 1 else "end")
                check(j, float(np.max(np.abs(Ra - Rb))) <= TOL, site, "%s;s=%g;start=%s" % (band, s, with_start),
                      "disagrees-with-" + site0.replace("|", "/"),
                      {"kind": "valuation", "dtheta": dth, "s": s, "T0": T0.tolist(), "T1": T1.tolist(), "other": site0}, cid)
        # s outside [0,1] must raise for the 3D matrix and quaternion interpolators
        q0, q1 = UnitQuaternion(SO3(R0, check=False)), UnitQuaternion(SO3(R1, check=False))
        for site, fn in {"base.trinterp(T)": lambda s: b.trinterp(T0, T1, s), "base.trinterp(R)": lambda s: b.trinterp(R0, R1, s),
                         "SE3.interp": lambda s: SE3(T1, check=False).interp(s, SE3(T0, check=False)),
                         "SO3.interp": lambda s: SO3(R1, check=False).interp(s, SO3(R0, check=False)),
                         "UnitQuaternion.interp": lambda s: q0.interp(s, dest=q1), "base.slerp": lambda s: b.slerp(q0.vec, q1.vec, s)}.items():
            for s in (-1e-3, 1 + 1e-3, -0.5, 2.0):
                cid = (site, "outside")
                try:
                    r = fn(s)
                except Exception:  # noqa: BLE001
                    j.ok(cid)
                    continue
                if isinstance(r, Exception):
                    j.fail("%s|%s|s-outside|returned-exception-object" % (PID, site), {"s": s}, cid)
                else:
                    j.fail("%s|%s|s-outside|no-exception" % (PID, site), {"s": s}, cid)
        # 2D: the angle is linear in s
        th0 = rng.uniform(-1, 1) if with_start else 0.0
        th1 = th0 + (dth if i % 4 else -dth)
        H0, H1 = gamma.real_T3(th0, t0[:2]), gamma.real_T3(th1, t1[:2])
        for site, (fn, has_t) in routes2(H0, H1, with_start).items():
            for s in svals:
                cid = (site, band, "s=%g" % s)
                feat = "%s;s=%g;start=%s" % (band, s, with_start)
                r = guard(j, site, feat, {"H0": H0.tolist(), "H1": H1.tolist(), "s": s}, cid, lambda: np.asarray(fn(s), dtype=float))
                if r is None:
                    continue
                tt = (t0[:2] + s * (t1[:2] - t0[:2])) if has_t else [0, 0]
                # the angle is linear in s between the two angles; which representative of th1 (mod 2 pi) is
                # used is not fixed by the statement
                dmin = min(float(np.max(np.abs(r - gamma.real_T3(th0 + s * (th1 + k2 * 2 * math.pi - th0), tt)))) for k2 in (-1, 0, 1))
                check(j, dmin <= TOL * sc, site, feat, "angle-or-translation-not-linear",
                      {"H0": H0.tolist(), "H1": H1.tolist(), "s": s, "got": r.tolist()}, cid)


def run(tier):
    j = Judge(PID)
    thorough = tier == "thorough"
    rng = random.Random(common.seed() + 11)
    r = run_tlc("MC_Interp", "Interp", timeout=600)
    seen = set()
    n = 0
    for e in r.json:
        key = str(e["c"])
        if key in seen:
            continue
        seen.add(key)
        n += 1
        if not thorough and n % 6 and not e["c"]["planar"]:
            continue
        lattice_case(j, e, [1.0, 1e-3, 1e3][n % 3])
    if n < 2000:
        raise MachineryError("interpolation export too small: %d" % n)
    j.sample({"case": {"p": r.json[9]["c"]["p"], "n": r.json[9]["c"]["n"], "m0.q": r.json[9]["c"]["m0"]["q"]}})
    lat = j.evaluations
    valuations(j, rng, 300 if thorough else 60)
    integer_ends(j)
    cov = {"states": r.distinct, "transitions": r.generated, "traces_validated_against_impl": n, "checker_cmd": r.cmd,
           "lattice_exact": lat, "valuation": j.evaluations - lat,
           "rule": "lattice case = (route, with/without start, endpoint or interior grid value); valuation case = "
                   "(route, relative-angle band, s)"}
    return {"judge": j, "coverage": cov, "level": "model_checking", "assumptions": [
        "exact interior values only for end poses of the form m0 p^n with n theta_p < pi (short arc); on valuations the "
        "constant-rate / fixed-axis property is measured on R0' R(s) by vex and atan2 in the harness",
        "antipodal quaternion pairs are not generated"]}


def replay(rp):
    for c in rp["cases"][:6]:
        print({k: v for k, v in c.items() if k not in ("T0", "T1", "got")})
    return 0
