"""gamma (spec value -> library argument) and alpha (library value -> comparable array).

Spec values arrive from TLC as exact integers: Hom records {"num": 4x4 ints, "den": int,
"q": 4 ints, "qn": int}.  gamma only divides, takes one square root for unit quaternions,
multiplies translations by a scale sigma, and reshapes.  No group arithmetic lives here.
"""
import math

import numpy as np

import common

common.use_repo()
from spatialmath import SO2, SE2, SO3, SE3, UnitQuaternion, Twist2, Twist3  # noqa: E402


def T4(h, sigma=1.0):
    T = np.array(h["num"], dtype=float) / float(h["den"])
    T[:3, 3] *= sigma
    return T


def R3(h):
    return T4(h)[:3, :3].copy()


def qvec(h):
    """unit quaternion (s, x, y, z) of the rotation, one of the two signs"""
    return np.array(h["q"], dtype=float) / math.sqrt(h["qn"])


def is_planar(h):
    return h["q"][1] == 0 and h["q"][2] == 0 and h["num"][2][3] == 0


def T3(h, sigma=1.0):
    """SE(2) homogeneous matrix of a planar motion"""
    T = T4(h, sigma)
    return np.array([[T[0, 0], T[0, 1], T[0, 3]], [T[1, 0], T[1, 1], T[1, 3]], [0.0, 0.0, 1.0]])


def tscale(*hs, sigma=1.0):
    """largest translation magnitude among spec values (for relative tolerances)"""
    m = 0.0
    for h in hs:
        if h is None:
            continue
        t = np.array(h["num"], dtype=float)[:3, 3] / float(h["den"]) * sigma
        m = max(m, float(np.linalg.norm(t)))
    return m


# ---- per class: build an object from a spec value, and project an object back ---------------

def build(cname, h, sigma=1.0):
    if cname == "SO3":
        return SO3(R3(h))
    if cname == "SE3":
        return SE3(T4(h, sigma))
    if cname == "UnitQuaternion":
        return UnitQuaternion(qvec(h))
    if cname == "Twist3":
        return Twist3(SE3(T4(h, sigma)))
    if cname == "SO2":
        return SO2(T3(h)[:2, :2])
    if cname == "SE2":
        return SE2(T3(h, sigma))
    if cname == "Twist2":
        return Twist2(SE2(T3(h, sigma)))
    raise ValueError(cname)


def build_int(cname, h):
    """the same member stored with an INTEGER dtype (None if its entries are not all integers): what a user gets from
    SE3(np.array([[0, -1, 0, 2], ...])) - a hazard for any arithmetic done in place"""
    if h["den"] != 1:
        return None
    T = np.array(h["num"], dtype=int)
    if cname == "SE3":
        return SE3(T)
    if cname == "SO3":
        return SO3(T[:3, :3])
    if not is_planar(h):
        return None
    T3i = np.array([[T[0, 0], T[0, 1], T[0, 3]], [T[1, 0], T[1, 1], T[1, 3]], [0, 0, 1]], dtype=int)
    if cname == "SE2":
        return SE2(T3i)
    if cname == "SO2":
        return SO2(T3i[:2, :2])
    return None


def expected(cname, h, sigma=1.0):
    if cname == "SO3":
        return R3(h)
    if cname in ("SE3", "Twist3"):
        return T4(h, sigma)
    if cname == "UnitQuaternion":
        return qvec(h)
    if cname == "SO2":
        return T3(h)[:2, :2]
    if cname in ("SE2", "Twist2"):
        return T3(h, sigma)
    raise ValueError(cname)


def project(cname, x, i=0):
    """the i-th value of object x in the representation `expected` uses"""
    if cname == "Twist3":
        return np.asarray(x[i].SE3().A if len(x) > 1 else x.SE3().A, dtype=float)
    if cname == "Twist2":
        return np.asarray(x[i].SE2().A if len(x) > 1 else x.SE2().A, dtype=float)
    return np.asarray(x.data[i], dtype=float)


def distance(cname, got, exp):
    """max-abs distance; unit quaternions are compared up to overall sign"""
    if got.shape != exp.shape:
        return float("inf")
    if cname == "UnitQuaternion":
        return float(min(np.max(np.abs(got - exp)), np.max(np.abs(got + exp))))
    return float(np.max(np.abs(got - exp)))


def validity_residual(cname, a):
    """C01's own predicate: how far is this stored value from its group"""
    a = np.asarray(a, dtype=float)
    if cname == "UnitQuaternion":
        return abs(float(np.linalg.norm(a)) - 1.0)
    n = {"SO2": 2, "SE2": 2, "SO3": 3, "SE3": 3}[cname]
    want = (n + 1, n + 1) if cname in ("SE2", "SE3") else (n, n)
    if a.shape != want:                      # a value of the wrong size is not a member, whatever its blocks look like
        return float("inf")
    R = a[:n, :n]
    r = float(np.max(np.abs(R @ R.T - np.eye(n))))
    r = max(r, abs(float(np.linalg.det(R)) - 1.0))
    if cname in ("SE2", "SE3"):
        last = np.zeros(n + 1)
        last[n] = 1.0
        r = max(r, float(np.max(np.abs(a[n, :] - last))))
    return r


# ---- real-valued members for the valuation regime (elementary rotations only) -----------------

def rotx(a):
    c, s = math.cos(a), math.sin(a)
    return np.array([[1, 0, 0], [0, c, -s], [0, s, c]], dtype=float)


def roty(a):
    c, s = math.cos(a), math.sin(a)
    return np.array([[c, 0, s], [0, 1, 0], [-s, 0, c]], dtype=float)


def rotz(a):
    c, s = math.cos(a), math.sin(a)
    return np.array([[c, -s, 0], [s, c, 0], [0, 0, 1]], dtype=float)


def real_T4(angles, t):
    T = np.eye(4)
    T[:3, :3] = rotz(angles[0]) @ roty(angles[1]) @ rotx(angles[2])
    T[:3, 3] = t
    return T


def real_T3(a, t):
    T = np.eye(3)
    T[:2, :2] = rotz(a)[:2, :2]
    T[:2, 2] = t
    return T
