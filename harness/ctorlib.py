"""Binding of Ctor.tla actions to the library's entry points (DESIGN Appendix D).

gamma_angle: an exact angle <<a,b>> is the float 2*atan2(b,a) (or its value in degrees).
Each entry point is (label, thunk); the thunk performs the real call and returns whatever the
library returns; as_T4 turns any of those results into a 4x4 homogeneous matrix for comparison
(the rotation is embedded; planar results are embedded as rotations about z).
"""
import math

import numpy as np

import common

common.use_repo()
import spatialmath.base as base  # noqa: E402
from spatialmath import SO2, SE2, SO3, SE3, UnitQuaternion, Twist2, Twist3  # noqa: E402


def ang(g, unit="rad"):
    t = 2.0 * math.atan2(g[1], g[0])
    return math.degrees(t) if unit == "deg" else t


def as_T4(v):
    """any library result -> list of 4x4 arrays (one per value)"""
    if isinstance(v, UnitQuaternion):
        return [_r2t(_q2r(q)) for q in v.data]
    if isinstance(v, (SO3,)) and not isinstance(v, SE3):
        return [_r2t(a) for a in v.data]
    if isinstance(v, SE3):
        return [np.asarray(a, dtype=float) for a in v.data]
    if isinstance(v, SE2):
        return [_planar(np.asarray(a, dtype=float)) for a in v.data]
    if isinstance(v, SO2):
        return [_planar(np.asarray(a, dtype=float)) for a in v.data]
    if isinstance(v, Twist3):
        return [np.asarray(x, dtype=float) for x in (v.SE3().data)]
    if isinstance(v, Twist2):
        return [_planar(np.asarray(x, dtype=float)) for x in (v.SE2().data)]
    a = np.asarray(v, dtype=float)
    if a.shape == (4, 4):
        return [a]
    if a.shape == (3, 3):
        return [_r2t(a)]
    if a.shape == (2, 2):
        return [_planar(a)]
    raise ValueError("cannot project result of shape %s" % (a.shape,))


def as_T4_planar(v):
    a = np.asarray(v, dtype=float)
    if a.shape == (3, 3):
        return [_planar(a, hom=True)]
    return as_T4(v)


def _r2t(R):
    T = np.eye(4)
    T[:3, :3] = R
    return T


def _planar(a, hom=None):
    T = np.eye(4)
    if a.shape == (2, 2):
        T[:2, :2] = a
    else:
        T[:2, :2] = a[:2, :2]
        T[:2, 3] = a[:2, 2]
    return T


def _q2r(q):
    # used only to LOOK at a stored unit quaternion: standard quaternion-to-matrix formula
    s, x, y, z = [float(c) for c in q]
    return np.array([[1 - 2 * (y * y + z * z), 2 * (x * y - s * z), 2 * (x * z + s * y)],
                     [2 * (x * y + s * z), 1 - 2 * (x * x + z * z), 2 * (y * z - s * x)],
                     [2 * (x * z - s * y), 2 * (y * z + s * x), 1 - 2 * (x * x + y * y)]])


AX = {"x": 0, "y": 1, "z": 2}


def entry_points(case, unit="rad"):
    """yield (label, class-or-None, thunk, planar?) for one Ctor case"""
    fn, p = case["fn"], case["par"]
    u = {"unit": unit}
    if fn == "rot":
        ax, th = p["ax"], ang(p["g"], unit)
        yield "base.rot" + ax, lambda: getattr(base, "rot" + ax)(th, **u)
        yield "base.trot" + ax, lambda: getattr(base, "trot" + ax)(th, **u)
        yield "SO3.R" + ax, lambda: getattr(SO3, "R" + ax)(th, **u)
        yield "SE3.R" + ax, lambda: getattr(SE3, "R" + ax)(th, **u)
        yield "UnitQuaternion.R" + ax, lambda: getattr(UnitQuaternion, "R" + ax)(th, **u)
        yield "Twist3.R" + ax, lambda: getattr(Twist3, "R" + ax)(th, **u)
        # vectorised forms: element 1 of the sequence built from [other angle, th]
        o_ = 20.0 if unit == "deg" else 0.35
        yield "SO3.R%s(vector)[1]" % ax, lambda: getattr(SO3, "R" + ax)([o_, th], **u)[1]
        yield "SE3.R%s(vector)[1]" % ax, lambda: getattr(SE3, "R" + ax)(np.array([o_, th]), **u)[1]
        yield "UnitQuaternion.R%s(vector)[1]" % ax, lambda: getattr(UnitQuaternion, "R" + ax)([o_, th], **u)[1]
        yield "Twist3.R%s(vector)[1]" % ax, lambda: getattr(Twist3, "R" + ax)([o_, th], **u)[1]
        if ax == "z":
            yield "base.rot2", lambda: base.rot2(th, **u)
            yield "base.trot2", lambda: base.trot2(th, **u)
            yield "SO2", lambda: SO2(th, **u)
            yield "SE2", lambda: SE2(0, 0, th, **u)
    elif fn == "rpy":
        r, pt, y = ang(p["r"], unit), ang(p["p"], unit), ang(p["y"], unit)
        o = {"order": p["order"]}
        yield "base.rpy2r(scalars)", lambda: base.rpy2r(r, pt, y, **u, **o)
        yield "base.rpy2r(packed)", lambda: base.rpy2r([r, pt, y], **u, **o)
        yield "base.rpy2tr", lambda: base.rpy2tr(r, pt, y, **u, **o)
        yield "SO3.RPY(packed)", lambda: SO3.RPY([r, pt, y], **u, **o)
        yield "SE3.RPY", lambda: SE3.RPY([r, pt, y], **u, **o)
        yield "UnitQuaternion.RPY", lambda: UnitQuaternion.RPY([r, pt, y], **u, **o)
        other = [10.0, -20.0, 30.0] if unit == "deg" else [0.1, -0.2, 0.3]
        yield "SO3.RPY(Nx3)[1]", lambda: SO3.RPY(np.array([other, [r, pt, y]]), **u, **o)[1]
        yield "SE3.RPY(Nx3)[1]", lambda: SE3.RPY(np.array([other, [r, pt, y]]), **u, **o)[1]
        yield "SE3.RPY(list of triples)[1]", lambda: SE3.RPY([other, [r, pt, y]], **u, **o)[1]
    elif fn == "eul":
        a, b, c = ang(p["phi"], unit), ang(p["theta"], unit), ang(p["psi"], unit)
        yield "base.eul2r(scalars)", lambda: base.eul2r(a, b, c, **u)
        yield "base.eul2r(packed)", lambda: base.eul2r([a, b, c], **u)
        yield "base.eul2tr", lambda: base.eul2tr(a, b, c, **u)
        yield "SO3.Eul(packed)", lambda: SO3.Eul([a, b, c], **u)
        yield "SE3.Eul", lambda: SE3.Eul([a, b, c], **u)
        yield "UnitQuaternion.Eul", lambda: UnitQuaternion.Eul([a, b, c], **u)
        other = [10.0, -20.0, 30.0] if unit == "deg" else [0.1, -0.2, 0.3]
        yield "SO3.Eul(Nx3)[1]", lambda: SO3.Eul(np.array([other, [a, b, c]]), **u)[1]
        yield "SE3.Eul(Nx3)[1]", lambda: SE3.Eul(np.array([other, [a, b, c]]), **u)[1]
    elif fn == "angvec":
        q = p["q"]
        v = np.array(q[1:], dtype=float)
        nv = float(np.linalg.norm(v))
        if nv == 0:
            return
        th = 2.0 * math.atan2(nv, q[0])
        thu = math.degrees(th) if unit == "deg" else th
        uq = np.array(q, dtype=float) / math.sqrt(sum(c * c for c in q))
        w = th * v / nv
        yield "base.angvec2r", lambda: base.angvec2r(thu, v, **u)
        yield "base.angvec2tr", lambda: base.angvec2tr(thu, v, **u)
        yield "SO3.AngVec", lambda: SO3.AngVec(thu, v, **u)
        yield "SE3.AngVec", lambda: SE3.AngVec(thu, v, **u)
        yield "UnitQuaternion.AngVec", lambda: UnitQuaternion.AngVec(thu, v, **u)
        if unit == "rad":
            yield "SO3.EulerVec", lambda: SO3.EulerVec(w)
            yield "UnitQuaternion.EulerVec", lambda: UnitQuaternion.EulerVec(w)
            yield "SO3.Exp", lambda: SO3.Exp(w)
            yield "SE3.Exp", lambda: SE3.Exp(np.r_[0, 0, 0, w])
            yield "base.trexp(3)", lambda: base.trexp(w)
            yield "base.trexp(6)", lambda: base.trexp(np.r_[0, 0, 0, w])
            yield "Twist3.exp", lambda: Twist3(np.r_[0, 0, 0, w]).exp()
            yield "base.q2r", lambda: base.q2r(uq)
            yield "UnitQuaternion(vec)", lambda: UnitQuaternion(uq)
            yield "UnitQuaternion(s,v)", lambda: UnitQuaternion(uq[0], uq[1:])
            # multi-valued forms: EVERY element of the result must be a unit quaternion
            # (all rows are multiples of the same quaternion, so that every element has the exact value of the case)
            yield "UnitQuaternion(Nx4 array)", lambda: UnitQuaternion(np.array([uq, uq, uq]))
            yield "UnitQuaternion(list of 4-vectors)", lambda: UnitQuaternion([uq, uq])
            yield "UnitQuaternion(Nx4 array of non-unit rows)", lambda: UnitQuaternion(np.array([3.0 * uq, 0.25 * uq]))
            yield "UnitQuaternion.SO3", lambda: UnitQuaternion(uq).SO3()
            yield "UnitQuaternion.R", lambda: UnitQuaternion(uq).R
            yield "base.rodrigues", lambda: base.rodrigues(w)
    elif fn == "transl":
        t = [float(c) for c in p["t"]]
        if unit != "rad":
            return
        yield "base.transl(packed)", lambda: base.transl(t)
        yield "base.transl(scalars)", lambda: base.transl(*t)
        yield "SE3(scalars)", lambda: SE3(*t)
        yield "SE3(packed)", lambda: SE3(t)
        yield "SE3.Tx*Ty*Tz", lambda: SE3.Tx(t[0]) * SE3.Ty(t[1]) * SE3.Tz(t[2])
        if all(float(c).is_integer() for c in t):
            # Python ints: the stored matrix is then of INTEGER dtype - a hazard for any in-place arithmetic later
            ti = [int(c) for c in t]
            yield "SE3(int scalars)", lambda: SE3(ti[0], ti[1], ti[2])
            yield "SE3(int list)", lambda: SE3(ti)
            yield "base.transl(int scalars)", lambda: base.transl(ti[0], ti[1], ti[2])
            if ti[2] == 0:
                yield "SE2(int x,y)", lambda: SE2(ti[0], ti[1])
        if t[2] == 0:
            yield "base.transl2", lambda: base.transl2(t[:2])
            yield "SE2(x,y)", lambda: SE2(t[0], t[1])
    elif fn == "rot+t":
        ax, th = p["ax"], ang(p["g"], unit)
        t = [float(c) for c in p["t"]]
        yield "base.trot%s(t=)" % ax, lambda: getattr(base, "trot" + ax)(th, t=t, **u)
        yield "SE3(t)*SE3.R" + ax, lambda: SE3(t) * getattr(SE3, "R" + ax)(th, **u)
        yield "base.rt2tr", lambda: base.rt2tr(getattr(base, "rot" + ax)(th, **u), t)
        if ax == "z" and t[2] == 0:
            yield "SE2(x,y,theta)", lambda: SE2(t[0], t[1], th, **u)
            yield "SE2(packed)", lambda: SE2([t[0], t[1], th], **u)
            yield "base.trot2(t=)", lambda: base.trot2(th, t=t[:2], **u)
            yield "base.xyt2tr", lambda: base.xyt2tr([t[0], t[1], th], **u)


PLANAR_HOM = {"base.trnorm2", "base.trot2", "base.transl2", "base.trot2(t=)", "base.xyt2tr", "base.trinterp2"}


def result_T4(label, v):
    if label in PLANAR_HOM:
        return [_planar(np.asarray(v, dtype=float))]
    return as_T4(v)


E = 1e-12
TAGS = {"0": 0.0, "e": E, "-e": -E, "pi/2": math.pi / 2, "-pi/2": -math.pi / 2, "pi": math.pi,
        "-pi": -math.pi, "pi/2+e": math.pi / 2 + E, "pi/2-e": math.pi / 2 - E,
        "-pi/2+e": -math.pi / 2 + E, "-pi/2-e": -math.pi / 2 - E, "pi-e": math.pi - E,
        "-pi+e": -math.pi + E, "mid": 0.7, "turns": 17 * 2 * math.pi + 0.3, "big": 1e3 + 0.1}
LENS = {"1e-9": 1e-9, "2e-7": 2e-7, "1e-3": 1e-3, "1": 1.0, "1e6": 1e6, "1+4e-7": 1.0 + 4e-7, "1-7e-7": 1.0 - 7e-7, "1+3e-9": 1.0 + 3e-9}
TMAG = {"0": 0.0, "1e-6": 1e-6, "1": 1.0, "1e6": 1e6}


def tag(a, unit):
    t = TAGS[a]
    return math.degrees(t) if unit == "deg" else t


def vdir(d, length):
    v = np.array(d, dtype=float)
    return v / np.linalg.norm(v) * length


def v_entry_points(case, unit="rad"):
    """entry points for the valuation-regime cases (no exact value known to the spec)"""
    fn, p = case["fn"], case["par"]
    u = {"unit": unit}
    if fn == "v-rot":
        c = {"fn": "rot", "par": {"ax": p["ax"], "g": None}}
        ax, th = p["ax"], tag(p["a"], unit)
        yield "base.rot" + ax, lambda: getattr(base, "rot" + ax)(th, **u)
        yield "base.trot" + ax, lambda: getattr(base, "trot" + ax)(th, **u)
        yield "SO3.R" + ax, lambda: getattr(SO3, "R" + ax)(th, **u)
        yield "SE3.R" + ax, lambda: getattr(SE3, "R" + ax)(th, **u)
        yield "UnitQuaternion.R" + ax, lambda: getattr(UnitQuaternion, "R" + ax)(th, **u)
        if ax == "z":
            yield "base.rot2", lambda: base.rot2(th, **u)
            yield "base.trot2", lambda: base.trot2(th, **u)
            yield "SO2", lambda: SO2(th, **u)
            yield "SE2", lambda: SE2(0, 0, th, **u)
        _ = c
    elif fn == "v-rpy":
        r, pt, y = tag(p["r"], unit), tag(p["p"], unit), tag(p["y"], unit)
        o = {"order": p["order"]}
        yield "base.rpy2r(scalars)", lambda: base.rpy2r(r, pt, y, **u, **o)
        yield "base.rpy2tr", lambda: base.rpy2tr([r, pt, y], **u, **o)
        yield "SO3.RPY(packed)", lambda: SO3.RPY([r, pt, y], **u, **o)
        yield "SE3.RPY", lambda: SE3.RPY([r, pt, y], **u, **o)
        yield "UnitQuaternion.RPY", lambda: UnitQuaternion.RPY([r, pt, y], **u, **o)
        other = [10.0, -20.0, 30.0] if unit == "deg" else [0.1, -0.2, 0.3]
        yield "SO3.RPY(Nx3)[1]", lambda: SO3.RPY(np.array([other, [r, pt, y]]), **u, **o)[1]
        yield "SE3.RPY(Nx3)[1]", lambda: SE3.RPY(np.array([other, [r, pt, y]]), **u, **o)[1]
        yield "SE3.RPY(list of triples)[1]", lambda: SE3.RPY([other, [r, pt, y]], **u, **o)[1]
    elif fn == "v-eul":
        a, b, c = tag(p["phi"], unit), tag(p["theta"], unit), tag(p["psi"], unit)
        yield "base.eul2r(scalars)", lambda: base.eul2r(a, b, c, **u)
        yield "base.eul2tr", lambda: base.eul2tr([a, b, c], **u)
        yield "SO3.Eul(packed)", lambda: SO3.Eul([a, b, c], **u)
        yield "SE3.Eul", lambda: SE3.Eul([a, b, c], **u)
        yield "UnitQuaternion.Eul", lambda: UnitQuaternion.Eul([a, b, c], **u)
        other = [10.0, -20.0, 30.0] if unit == "deg" else [0.1, -0.2, 0.3]
        yield "SO3.Eul(Nx3)[1]", lambda: SO3.Eul(np.array([other, [a, b, c]]), **u)[1]
        yield "SE3.Eul(Nx3)[1]", lambda: SE3.Eul(np.array([other, [a, b, c]]), **u)[1]
    elif fn == "v-angvec":
        th = tag(p["a"], unit)
        v = vdir(p["dir"], LENS[p["len"]])
        yield "base.angvec2r", lambda: base.angvec2r(th, v, **u)
        yield "base.angvec2tr", lambda: base.angvec2tr(th, v, **u)
        yield "SO3.AngVec", lambda: SO3.AngVec(th, v, **u)
        yield "SE3.AngVec", lambda: SE3.AngVec(th, v, **u)
        yield "UnitQuaternion.AngVec", lambda: UnitQuaternion.AngVec(th, v, **u)
        if unit == "rad":
            w = TAGS[p["a"]] * vdir(p["dir"], 1.0)
            yield "SO3.EulerVec", lambda: SO3.EulerVec(w)
            yield "UnitQuaternion.EulerVec", lambda: UnitQuaternion.EulerVec(w)
            yield "SO3.Exp", lambda: SO3.Exp(w)
            yield "SE3.Exp", lambda: SE3.Exp(np.r_[v, w])
            yield "base.trexp(3)", lambda: base.trexp(w)
            yield "base.trexp(6)", lambda: base.trexp(np.r_[v, w])
            yield "base.rodrigues", lambda: base.rodrigues(w)
    elif fn == "v-oa":
        if unit != "rad":
            return
        o, a = vdir(p["o"], LENS[p["lo"]]), vdir(p["a"], LENS[p["la"]])
        yield "base.oa2r", lambda: base.oa2r(o, a)
        yield "base.oa2tr", lambda: base.oa2tr(o, a)
        yield "SO3.OA", lambda: SO3.OA(o, a)
        yield "SE3.OA", lambda: SE3.OA(o, a)
        yield "UnitQuaternion.OA", lambda: UnitQuaternion.OA(o, a)
    elif fn == "v-pose":
        ax, th = p["ax"], tag(p["a"], unit)
        t = vdir(p["dir"], TMAG[p["tm"]]) if TMAG[p["tm"]] else np.zeros(3)
        yield "base.trot%s(t=)" % ax, lambda: getattr(base, "trot" + ax)(th, t=t, **u)
        yield "SE3(t)*SE3.R" + ax, lambda: SE3(t) * getattr(SE3, "R" + ax)(th, **u)
        yield "SE3(rt2tr)", lambda: SE3(base.rt2tr(getattr(base, "rot" + ax)(th, **u), t))
        if ax == "z":
            yield "SE2(x,y,theta)", lambda: SE2(t[0], t[1], th, **u)
            yield "base.trot2(t=)", lambda: base.trot2(th, t=t[:2], **u)


DT = {"1e-12": 1e-12, "1e-9": 1e-9, "1e-6": 1e-6, "1e-4": 1e-4, "1e-3": 1e-3, "1e-2": 1e-2, "0.05": 0.05,
      "0.5": 0.5, "2": 2.0, "pi-1e-6": math.pi - 1e-6}
ST = {"0": 0.0, "1e-12": 1e-12, "0.25": 0.25, "0.5": 0.5, "0.9": 0.9, "1-1e-12": 1 - 1e-12, "1": 1.0}


def _axis_rot(dirv, a):
    """rotation by a about dirv: conjugate an x rotation by a fixed generic frame built from
    elementary rotations (no library code)"""
    import gamma
    u = np.array(dirv, dtype=float)
    u = u / np.linalg.norm(u)
    # frame Q whose first column is u
    tmp = np.array([0.3, -0.5, 0.81])
    v = np.cross(u, tmp)
    v /= np.linalg.norm(v)
    w = np.cross(u, v)
    Q = np.column_stack([u, v, w])
    return Q @ gamma.rotx(a) @ Q.T


def interp_entry_points(case):
    """v-interp cases: (label, thunk) ; end points differ by a rotation of DT[d] about dir"""
    import gamma
    p = case["par"]
    d, s, ws = DT[p["d"]], ST[p["s"]], p["start"]
    e = p["entry"]
    R0 = gamma.rotz(0.4) @ gamma.roty(-0.7) @ gamma.rotx(1.1) if ws else np.eye(3)
    R1 = R0 @ _axis_rot(p["dir"], d)
    t0 = np.array([1.0, -2.0, 0.5]) if ws else np.zeros(3)
    t1 = np.array([-3.0, 0.25, 2.0])
    th0 = 0.4 if ws else 0.0
    th1 = th0 + d
    T0, T1 = base.rt2tr(R0, t0), base.rt2tr(R1, t1)
    P0 = np.array([[math.cos(th0), -math.sin(th0)], [math.sin(th0), math.cos(th0)]])
    P1 = np.array([[math.cos(th1), -math.sin(th1)], [math.sin(th1), math.cos(th1)]])
    H0, H1 = base.rt2tr(P0, t0[:2]), base.rt2tr(P1, t1[:2])
    if e == "SO3":
        yield "SO3.interp", (lambda: SO3(R1).interp(s, SO3(R0))) if ws else (lambda: SO3(R1).interp(s))
    elif e == "SE3":
        yield "SE3.interp", (lambda: SE3(T1).interp(s, SE3(T0))) if ws else (lambda: SE3(T1).interp(s))
    elif e == "SO2":
        yield "SO2.interp", (lambda: SO2(P1).interp(s, SO2(P0))) if ws else (lambda: SO2(P1).interp(s))
    elif e == "SE2":
        yield "SE2.interp", (lambda: SE2(H1).interp(s, SE2(H0))) if ws else (lambda: SE2(H1).interp(s))
    elif e == "UnitQuaternion":
        q0, q1 = UnitQuaternion(SO3(R0)), UnitQuaternion(SO3(R1))
        yield "UnitQuaternion.interp", (lambda: q0.interp(s, dest=q1)) if ws else (lambda: q1.interp(s))
        yield "UnitQuaternion.interp(shortest)", (lambda: q0.interp(s, dest=q1, shortest=True)) if ws \
            else (lambda: q1.interp(s, shortest=True))
        # the same end rotation held as the other quaternion of the double cover: for small d the two quaternions are
        # nearly (not exactly) opposite and the long arc is interpolated
        n1 = UnitQuaternion(-q1.vec)
        yield "UnitQuaternion.interp(dest=-q)", (lambda: q0.interp(s, dest=n1)) if ws else (lambda: n1.interp(s))
        yield "UnitQuaternion.interp(dest=-q,shortest)", (lambda: q0.interp(s, dest=n1, shortest=True)) if ws \
            else (lambda: n1.interp(s, shortest=True))
    elif e == "trinterp(R)":
        yield "base.trinterp(R)", lambda: base.trinterp(R0 if ws else None, R1, s)
    elif e == "trinterp(T)":
        yield "base.trinterp(T)", lambda: base.trinterp(T0 if ws else None, T1, s)
    elif e == "trinterp2(R)":
        yield "base.trinterp2(R)", lambda: base.trinterp2(P0 if ws else None, P1, s)
    elif e == "trinterp2(T)":
        yield "base.trinterp2", lambda: base.trinterp2(H0 if ws else None, H1, s)
    elif e == "slerp":
        qa, qb = base.r2q(R0), base.r2q(R1)
        yield "base.slerp", lambda: UnitQuaternion(base.slerp(qa, qb, s), norm=False, check=False)
        yield "base.slerp(shortest)", lambda: UnitQuaternion(base.slerp(qa, qb, s, shortest=True), norm=False,
                                                              check=False)
        yield "base.slerp(q0,-q1)", lambda: UnitQuaternion(base.slerp(qa, -qb, s), norm=False, check=False)


def norm_entry_points(case):
    """v-norm cases: a member spoiled by the named noise, then normalised through the named entry point"""
    import gamma
    from spatialmath import Quaternion
    p = case["par"]
    e, nz = p["entry"], p["noise"]
    R = _axis_rot(p["dir"], 0.7) @ gamma.rotz(0.4)
    t = np.array([1.0, -2.0, 0.5])
    th = 0.7

    def spoil(M, n):
        M = np.array(M, dtype=float, copy=True)
        B = M[:n, :n]
        if nz.startswith("round-"):
            B[:] = np.round(B, int(nz[-1]))
        elif nz == "entry+1e-3":
            B[0, 1] += 1e-3
        elif nz == "entry+1e-6":
            B[n - 1, 0] += 1e-6
        elif nz == "shear-1e-2":
            B[:, 1] += 1e-2 * B[:, n - 1]
        elif nz == "scale-1.001":
            B *= 1.001
        elif nz == "column-scale-1.01":
            B[:, 0] *= 1.01
        return M
    R2 = np.array([[math.cos(th), -math.sin(th)], [math.sin(th), math.cos(th)]])
    if e == "trnorm(R)":
        yield "base.trnorm(R)", lambda: base.trnorm(spoil(R, 3))
    elif e == "trnorm(T)":
        yield "base.trnorm(T)", lambda: base.trnorm(spoil(base.rt2tr(R, t), 3))
    elif e == "SO3.norm":
        yield "SO3.norm", lambda: SO3(spoil(R, 3), check=False).norm()
    elif e == "SE3.norm":
        yield "SE3.norm", lambda: SE3(spoil(base.rt2tr(R, t), 3), check=False).norm()
    elif e == "trnorm2(R)":
        yield "base.trnorm2(R)", lambda: base.trnorm2(spoil(R2, 2))
    elif e == "trnorm2(T)":
        yield "base.trnorm2", lambda: base.trnorm2(spoil(base.rt2tr(R2, t[:2]), 2))
    elif e == "SO2.norm":
        yield "SO2.norm", lambda: SO2(spoil(R2, 2), check=False).norm()
    elif e == "SE2.norm":
        yield "SE2.norm", lambda: SE2(spoil(base.rt2tr(R2, t[:2]), 2), check=False).norm()
    else:
        q = base.r2q(R)
        k = {"round-2": 1.0, "round-3": 1.0, "round-4": 1.0, "entry+1e-3": 1.0, "entry+1e-6": 1.0, "shear-1e-2": 1.0,
             "scale-1.001": 1.001, "column-scale-1.01": 1.01, "none": 1.0}[nz]
        qs = np.round(q, int(nz[-1])) if nz.startswith("round-") else q * k
        if nz.startswith("entry"):
            qs = q.copy()
            qs[1] += 1e-3 if nz.endswith("1e-3") else 1e-6
        if e == "UnitQuaternion.unit":
            yield "UnitQuaternion.unit", lambda: UnitQuaternion(qs, norm=False, check=False).unit()
        elif e == "Quaternion.unit":
            yield "Quaternion.unit", lambda: Quaternion(qs * 3.0).unit()
        else:
            yield "base.unit", lambda: UnitQuaternion(base.unit(qs * 0.2), norm=False, check=False)


def expected_T4(case):
    v = case["val"]
    return np.array(v["num"], dtype=float) / float(v["den"])


def angle_features(case):
    fn, p = case["fn"], case["par"]

    def cls(g):
        a, b = g
        if b == 0:
            return "0"
        if a == 0:
            return "pi" if b > 0 else "-pi"
        if abs(a) == abs(b):
            return "pi/2" if a * b > 0 else "-pi/2"
        return "generic"
    if fn in ("rot", "rot+t"):
        return "%s;%s" % (p["ax"], cls(p["g"]))
    if fn == "rpy":
        return "%s;%s" % (p["order"], "singular" if p["singular"] else "regular")
    if fn == "eul":
        return "singular" if p["singular"] else "regular"
    if fn == "angvec":
        q = p["q"]
        return "s=0(pi)" if q[0] == 0 else "generic"
    return "-"
