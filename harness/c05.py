"""C05 - angle-set and axis-angle extraction is a right inverse of construction.

Spec: ExactAngles.tla / Ctor.tla - the DOCUMENTED axis orders as exact products of elementary rotations
(OrderSanity and ValOK checked by TLC); TLC enumerates all triples of exact angles (quarter turns incl.
every singular configuration, Pythagorean angles) x orders and aliases, Euler triples, axis-angle pairs.
For every exact rotation R: (i) the constructors reproduce R (pins the convention independently of the
extractors), (ii) rebuilding from the extracted angles reproduces R to 1e-6, (iii) extracted angles are
in range, (iv) degrees = radians * 180/pi, through the base functions and the SO3 / SE3 / UnitQuaternion
methods, flip on/off.  Offsets of 1e-12 .. 1e-1 either side of each singular value are valuations whose
rotation is the documented product of elementary rotations built by the harness.
"""
import math
import random

import numpy as np

import common
from common import Judge, MachineryError, run_tlc
import gamma
import ctorlib as cl

PID = "C05"
TOL = 1e-6
PI = math.pi


def check(j, ok, site, feat, mode, detail, cid):
    if ok:
        j.ok(cid)
    else:
        j.fail("%s|%s|%s|%s" % (PID, site, feat, mode), detail, cid)


def guard(j, site, feat, detail, cid, fn):
    try:
        return fn()
    except Exception as ex:  # noqa: BLE001
        j.fail("%s|%s|%s|raised-%s" % (PID, site, feat, type(ex).__name__), detail, cid)
        return None


def build(order, y, p, r):
    """the documented product (statement of C05), from elementary rotations only"""
    o = {"vehicle": "zyx", "arm": "xyz", "camera": "yxz"}.get(order, order)
    if o == "zyx":
        return gamma.rotz(y) @ gamma.roty(p) @ gamma.rotx(r)
    if o == "xyz":
        return gamma.rotx(y) @ gamma.roty(p) @ gamma.rotz(r)
    if o == "yxz":
        return gamma.roty(y) @ gamma.rotx(p) @ gamma.rotz(r)
    raise ValueError(order)


def _second(a):
    """the angles of element 1 of a two-valued object (returned as 3xN or Nx3)"""
    a = np.asarray(a, dtype=float)
    if a.shape == (3, 2):
        return a[:, 1]
    if a.shape == (2, 3):
        return a[1]
    raise ValueError("shape %s for a two-valued object" % (a.shape,))


def rpy_routes(R, order, unit):
    import spatialmath.base as b
    from spatialmath import SO3, SE3, UnitQuaternion
    T = b.r2t(R)
    T[:3, 3] = [1.0, -2.0, 3.0]
    kw = {"unit": unit, "order": order}
    return {"base.tr2rpy(R)": lambda: b.tr2rpy(R, **kw), "base.tr2rpy(T)": lambda: b.tr2rpy(T, **kw),
            "SO3.rpy": lambda: SO3(R, check=False).rpy(**kw), "SE3.rpy": lambda: SE3(T, check=False).rpy(**kw),
            "UnitQuaternion.rpy": lambda: UnitQuaternion(SO3(R, check=False)).rpy(**kw),
            "UnitQuaternion(-q).rpy": lambda: UnitQuaternion(-UnitQuaternion(SO3(R, check=False)).vec).rpy(**kw),
            "SO3.rpy[2-valued]": lambda: _second(SO3([gamma.rotx(0.3), R], check=False).rpy(**kw)),
            "SE3.rpy[2-valued]": lambda: _second(SE3([b.transl(1, 2, 3), T], check=False).rpy(**kw)),
            "UnitQuaternion.rpy[2-valued]": lambda: _second(UnitQuaternion([b.r2q(gamma.rotx(0.3)), UnitQuaternion(SO3(R, check=False)).vec]).rpy(**kw))}


def eul_routes(R, flip, unit):
    import spatialmath.base as b
    from spatialmath import SO3, SE3, UnitQuaternion
    T = b.r2t(R)
    T[:3, 3] = [1.0, -2.0, 3.0]
    kw = {"unit": unit, "flip": flip}
    return {"base.tr2eul(R)": lambda: b.tr2eul(R, **kw), "base.tr2eul(T)": lambda: b.tr2eul(T, **kw),
            "SO3.eul": lambda: SO3(R, check=False).eul(**kw), "SE3.eul": lambda: SE3(T, check=False).eul(**kw),
            "UnitQuaternion.eul": lambda: UnitQuaternion(SO3(R, check=False)).eul(unit=unit),
            "UnitQuaternion(-q).eul": lambda: UnitQuaternion(-UnitQuaternion(SO3(R, check=False)).vec).eul(unit=unit),
            "SO3.eul[2-valued]": lambda: _second(SO3([gamma.rotx(0.3), R], check=False).eul(**kw)),
            "SE3.eul[2-valued]": lambda: _second(SE3([b.transl(1, 2, 3), T], check=False).eul(**kw))}


def judge_rpy(j, R, order, feat, detail):
    import spatialmath.base as b
    for unit in ("rad", "deg"):
        k = 180 / PI if unit == "deg" else 1.0
        for site, fn in rpy_routes(R, order, unit).items():
            cid = (site, order, feat, unit)
            a = guard(j, site, feat + ";" + unit, detail, cid, fn)
            if a is None:
                continue
            a = np.asarray(a, dtype=float).flatten()
            if a.shape != (3,) or not np.all(np.isfinite(a)):
                j.fail("%s|%s|%s;%s|bad-angles" % (PID, site, feat, unit), dict(detail, got=a.tolist()), cid)
                continue
            ar = a / k
            # rebuild through the library constructor AND through the documented product
            Rb = build(order, ar[2], ar[1], ar[0])
            Rl = guard(j, "base.rpy2r", feat + ";" + unit, detail, cid, lambda: b.rpy2r(a, unit=unit, order=order))
            ok = float(np.max(np.abs(Rb - R))) <= TOL and Rl is not None and float(np.max(np.abs(Rl - R))) <= TOL
            check(j, ok, site, feat + ";" + unit, "rebuild-differs", dict(detail, angles=a.tolist(), err=float(np.max(np.abs(Rb - R)))), cid)
            rng_ok = np.all(np.abs(ar) <= PI + 1e-9) and abs(ar[1]) <= PI / 2 + 1e-9
            check(j, bool(rng_ok), site, feat + ";" + unit, "angle-out-of-range", dict(detail, angles=a.tolist()), (site, "range", order, feat))


def judge_eul(j, R, feat, detail):
    import spatialmath.base as b
    for unit in ("rad", "deg"):
        k = 180 / PI if unit == "deg" else 1.0
        for flip in (False, True):
            for site, fn in eul_routes(R, flip, unit).items():
                if flip and site in ("UnitQuaternion.eul", "UnitQuaternion(-q).eul"):
                    continue
                cid = (site, flip, feat, unit)
                ff = "%s;flip=%s;%s" % (feat, flip, unit)
                a = guard(j, site, ff, detail, cid, fn)
                if a is None:
                    continue
                a = np.asarray(a, dtype=float).flatten()
                if a.shape != (3,) or not np.all(np.isfinite(a)):
                    j.fail("%s|%s|%s|bad-angles" % (PID, site, ff), dict(detail, got=a.tolist()), cid)
                    continue
                ar = a / k
                Rb = gamma.rotz(ar[0]) @ gamma.roty(ar[1]) @ gamma.rotz(ar[2])
                Rl = guard(j, "base.eul2r", ff, detail, cid, lambda: b.eul2r(a, unit=unit))
                ok = float(np.max(np.abs(Rb - R))) <= TOL and Rl is not None and float(np.max(np.abs(Rl - R))) <= TOL
                check(j, ok, site, ff, "rebuild-differs", dict(detail, angles=a.tolist(), err=float(np.max(np.abs(Rb - R)))), cid)
                check(j, bool(np.all(np.abs(ar) <= PI + 1e-9)), site, ff, "angle-out-of-range", dict(detail, angles=a.tolist()), (site, "range", flip))


def judge_angvec(j, R, feat, detail):
    import spatialmath.base as b
    from spatialmath import SO3, SE3, UnitQuaternion
    T = b.r2t(R)
    T[:3, 3] = [1.0, -2.0, 3.0]                  # a pose with a translation: the extraction reads the rotation only
    T0 = b.r2t(R)
    routes = {"base.tr2angvec(R)": lambda u: b.tr2angvec(R, unit=u), "base.tr2angvec(T)": lambda u: b.tr2angvec(T, unit=u),
              "base.tr2angvec(T,no-translation)": lambda u: b.tr2angvec(T0, unit=u),
              "SO3.angvec": lambda u: SO3(R, check=False).angvec(unit=u), "SE3.angvec": lambda u: SE3(T, check=False).angvec(unit=u),
              "UnitQuaternion.angvec": lambda u: UnitQuaternion(SO3(R, check=False)).angvec(unit=u),
              # the same rotation held as the OTHER quaternion of the double cover (negative scalar part)
              "UnitQuaternion(-q).angvec": lambda u: UnitQuaternion(-UnitQuaternion(SO3(R, check=False)).vec).angvec(unit=u)}
    for unit in ("rad", "deg"):
        k = 180 / PI if unit == "deg" else 1.0
        for site, fn in routes.items():
            cid = (site, feat, unit)
            ff = feat + ";" + unit
            r = guard(j, site, ff, detail, cid, lambda: fn(unit))
            if r is None:
                continue
            try:
                th, v = float(r[0]) / k, np.asarray(r[1], dtype=float).flatten()
            except Exception:  # noqa: BLE001
                j.fail("%s|%s|%s|bad-result" % (PID, site, ff), detail, cid)
                continue
            nv = float(np.linalg.norm(v))
            ok_range = -1e-12 <= th <= PI + 1e-9 and (abs(nv - 1) <= 1e-9 or (nv <= 1e-9 and th <= 1e-6))
            check(j, ok_range, site, ff, "angle-or-axis-out-of-range", dict(detail, theta=th, axis=v.tolist()), (site, "range", feat))
            if nv > 1e-9:
                Rl = guard(j, "base.angvec2r", ff, detail, cid, lambda: b.angvec2r(th, v))
                if Rl is not None:
                    check(j, float(np.max(np.abs(Rl - R))) <= TOL, site, ff, "rebuild-differs", dict(detail, theta=th, axis=v.tolist()), cid)
            else:
                check(j, float(np.max(np.abs(R - np.eye(3)))) <= TOL, site, ff, "zero-axis-for-non-identity", detail, cid)


def lattice(j, cases, thorough):
    n = 0
    for case in cases:
        fn = case["fn"]
        if case["val"]["den"] == 0 or fn not in ("rpy", "eul", "angvec", "rot"):
            continue
        n += 1
        R = cl.expected_T4(case)[:3, :3]
        feat = cl.angle_features(case)
        detail = {"kind": "lattice", "case": {"fn": fn, "par": case["par"]}}
        if fn == "rpy":
            judge_rpy(j, R, case["par"]["order"], feat, detail)
        elif fn == "eul":
            judge_eul(j, R, feat, detail)
        elif fn in ("angvec", "rot"):
            judge_angvec(j, R, feat, detail)
            if fn == "angvec" and (thorough or n % 3 == 0):
                for o in ("zyx", "xyz", "yxz"):
                    judge_rpy(j, R, o, "from-quaternion", detail)
                judge_eul(j, R, "from-quaternion", detail)
    return n


def offsets(j, rng, thorough):
    """either side of each singular value, 1e-12 .. 1e-1 away"""
    deltas = [0.0, 1e-12, 1e-10, 1e-8, 1e-6, 1e-4, 1e-2, 1e-1]
    others = [(0.3, -0.4), (2.5, 1.0), (-3.0, 3.1), (0.0, 0.0), (PI, -PI / 2)]
    for d in deltas:
        for sgn in (1, -1):
            for side in (1, -1):
                for (r0, y0) in (others if thorough else others[:3]):
                    p = sgn * PI / 2 + side * d
                    tagp = "pitch=%s%s%g" % ("+" if sgn > 0 else "-", "pi/2" + ("+" if side > 0 else "-"), d)
                    for order in ("zyx", "xyz", "yxz", "arm"):
                        # keep the pitch inside its range: beyond +-pi/2 the same rotation has another triple
                        R = build(order, y0, p, r0)
                        judge_rpy(j, R, order, "offset;" + tagp, {"kind": "offset", "order": order, "r": r0, "p": p, "y": y0})
                    for th0 in (0.0, PI):
                        th = th0 + side * d if th0 == 0.0 else th0 - abs(d) * (1 if side > 0 else -1)
                        R = gamma.rotz(r0) @ gamma.roty(th) @ gamma.rotz(y0)
                        judge_eul(j, R, "offset;theta=%s%+g" % ("0" if th0 == 0 else "pi", side * d), {"kind": "offset-eul", "phi": r0, "theta": th, "psi": y0})
                    # axis-angle near 0 and near pi
                    for th0 in (0.0, PI):
                        th = abs(th0 - d) if th0 == PI else d
                        Q = gamma.rotz(0.7) @ gamma.rotx(-1.1)
                        R = Q @ gamma.rotz(th) @ Q.T
                        judge_angvec(j, R, "offset;angle=%s-%g" % ("pi" if th0 else "0+", d), {"kind": "offset-angvec", "theta": th})


def planar(j):
    import spatialmath.base as b
    from spatialmath import SE2, SO2
    for th in (0.0, 0.3, PI / 2, -PI / 2, PI, -PI, 3.0, -3.1, 1e-12, PI - 1e-12):
        for t in ((0, 0), (1.5, -2), (1e6, 3e5)):
            H = gamma.real_T3(th, t)
            sc = max(1.0, abs(t[0]), abs(t[1]))
            for unit in ("rad", "deg"):
                k = 180 / PI if unit == "deg" else 1.0
                routes = {"base.tr2xyt": lambda: b.tr2xyt(H, unit=unit)}
                if unit == "rad":
                    routes["SE2.xyt"] = lambda: SE2(H, check=False).xyt()        # no unit parameter
                for site, fn in routes.items():
                    cid = (site, unit)
                    feat = "theta=%g;%s" % (th, unit)
                    a = guard(j, site, feat, {"H": H.tolist()}, cid, fn)
                    if a is None:
                        continue
                    a = np.asarray(a, dtype=float).flatten()
                    Hb = guard(j, "base.xyt2tr", feat, {"H": H.tolist()}, cid, lambda: b.xyt2tr(a, unit=unit))
                    ok = a.shape == (3,) and abs(a[2] / k) <= PI + 1e-9 and Hb is not None and float(np.max(np.abs(Hb - H))) <= TOL * sc
                    check(j, ok, site, feat, "rebuild-differs", {"H": H.tolist(), "xyt": a.tolist()}, cid)
                cid = ("SO2.theta", unit)
                a = guard(j, "SO2.theta", "theta=%g;%s" % (th, unit), {}, cid, lambda: SO2(H[:2, :2], check=False).theta(unit=unit))
                if a is not None:
                    ok = abs(float(a) / k) <= PI + 1e-9 and float(np.max(np.abs(gamma.rotz(float(a) / k)[:2, :2] - H[:2, :2]))) <= TOL
                    check(j, ok, "SO2.theta", "theta=%g;%s" % (th, unit), "rebuild-differs", {"theta": th, "got": float(a)}, cid)
                # the same extraction on objects holding TWO values (the second one is the rotation under test)
                H0 = gamma.real_T3(0.4, (2.0, 1.0))
                for site, fn in (("SO2.theta[2-valued]", lambda: SO2([H0[:2, :2], H[:2, :2]], check=False).theta(unit=unit)),
                                 ("SE2.theta[2-valued]", lambda: SE2([H0, H], check=False).theta(unit=unit))):
                    cid = (site, unit)
                    a2 = guard(j, site, "theta=%g;%s" % (th, unit), {}, cid, fn)
                    if a2 is not None:
                        a2 = np.asarray(a2, dtype=float).ravel()
                        ok = a2.shape == (2,) and abs(a2[0] / k - 0.4) <= 1e-9 and abs(a2[1] / k) <= PI + 1e-9 and \
                            float(np.max(np.abs(gamma.rotz(a2[1] / k)[:2, :2] - H[:2, :2]))) <= TOL
                        check(j, ok, site, "theta=%g;%s" % (th, unit), "rebuild-differs", {"theta": th, "got": a2.tolist()}, cid)
                if unit == "rad":
                    cid = ("SE2.xyt[2-valued]", unit)
                    a3 = guard(j, "SE2.xyt[2-valued]", "theta=%g" % th, {}, cid, lambda: SE2([H0, H], check=False).xyt())
                    if a3 is not None:
                        a3 = np.asarray(a3, dtype=float)
                        ok = a3.shape == (2, 3) and float(np.max(np.abs(b.xyt2tr(a3[1]) - H))) <= TOL * sc and float(np.max(np.abs(b.xyt2tr(a3[0]) - H0))) <= TOL
                        check(j, ok, "SE2.xyt[2-valued]", "theta=%g" % th, "rebuild-differs", {"theta": th, "got": a3.tolist()}, cid)


def wide_angle_constructors(j):
    """the axis-angle and axis-rotation constructors for angles BEYOND a half turn (up to several turns, both signs,
    both units): rotation by theta about the normalised axis, in every class"""
    import ctorlib
    import spatialmath.base as b
    from spatialmath import SO3, SE3, UnitQuaternion
    for th in (-9.0, -6.5, -4.0, -3.5, 3.3, 3.5, 4.0, 6.0, 6.5, 9.0, 13.0):
        for v in ([1, 0, 0], [0, 0, 2], [1, -2, 2], [0.3, 0.4, 1.2]):
            E = ctorlib._axis_rot(v, th)
            for unit in ("rad", "deg"):
                a = math.degrees(th) if unit == "deg" else th
                routes = {"base.angvec2r": lambda: b.angvec2r(a, v, unit=unit), "SO3.AngVec": lambda: SO3.AngVec(a, v, unit=unit).R,
                          "SE3.AngVec": lambda: SE3.AngVec(a, v, unit=unit).R,
                          "UnitQuaternion.AngVec": lambda: UnitQuaternion.AngVec(a, v, unit=unit).R}
                if v[1] == 0 and v[2] == 0:
                    routes.update({"UnitQuaternion.Rx": lambda: UnitQuaternion.Rx(a, unit=unit).R, "SO3.Rx": lambda: SO3.Rx(a, unit=unit).R})
                for site, fn in routes.items():
                    feat = "theta-beyond-pi;%s" % unit
                    cid = (site, "wide-angle", unit)
                    r = guard(j, site, feat, {"theta": th, "axis": v}, cid, lambda: np.asarray(fn(), dtype=float))
                    if r is not None:
                        check(j, r.shape == (3, 3) and float(np.max(np.abs(r - E))) <= TOL, site, feat,
                              "not-the-rotation-by-theta-about-the-axis", {"theta": th, "axis": v, "unit": unit}, cid)


def run(tier):
    j = Judge(PID)
    thorough = tier == "thorough"
    rng = random.Random(common.seed() + 5)
    rc = run_tlc("MC_Ctor", "Ctor_thorough" if thorough else "Ctor_quick", timeout=600)
    import c04
    # (i) constructors follow the documented orders (exact comparison)
    ctor_cases = [c for c in rc.json if c["val"]["den"] != 0 and c["fn"] in ("rpy", "eul", "angvec", "rot")]
    jj = Judge("C04")
    c04.constructors_agree(jj, ctor_cases)
    for key, details in jj.failures.items():
        parts = key.split("|")
        for dct in details:
            j.fail("%s|%s|%s|constructor-%s" % (PID, parts[1], parts[2], parts[3]), dct, ("ctor", parts[1]))
    for cidv in jj.nontrivial:
        j.ok(("ctor",) + tuple(cidv))
    n = lattice(j, rc.json, thorough)
    j.sample({"case": next({"fn": c["fn"], "par": c["par"]} for c in rc.json if c["fn"] == "rpy" and c["par"]["singular"])})
    lat = j.evaluations
    offsets(j, rng, thorough)
    planar(j)
    wide_angle_constructors(j)
    cov = {"states": rc.distinct, "transitions": rc.generated, "traces_validated_against_impl": n, "checker_cmd": rc.cmd,
           "lattice_exact": lat, "valuation": j.evaluations - lat,
           "rule": "case = (extraction entry point, order / flip, singular-or-regular class or offset tag, unit)"}
    return {"judge": j, "coverage": cov, "level": "model_checking", "assumptions": [
        "rotations off the exact angle domain are products of elementary rotations in the documented order, built by the harness",
        "at singular configurations any in-range triple that rebuilds R is accepted (the statement demands a right inverse)"]}


def replay(rp):
    for c in rp["cases"][:6]:
        print(c)
    return 0
