INIT Init
NEXT Next
CONSTANTS
  Leaves <- CubeFew
  OperandSeqs <- SeqsCube
  MaxLen = 4
  MaxDepth = 12
  Exps <- ExpsSmall
  RotOnly = TRUE
  Export = "hist"
INVARIANT AllValid
INVARIANT HistOut
CHECK_DEADLOCK FALSE
