INIT Init
NEXT Next
CONSTANTS
  Rep0 = "all"
  Convs <- NoConvs
  Starts <- IdentOnly
  Leaves <- Gens3
  Exps <- ExpsFull
  MaxDepth <- Unlimited
  TBound = 1
  MaxQN = 1000000
  MaxDen = 1000000
  Export = "edges"
VIEW View
ACTION_CONSTRAINT EdgeOut
INVARIANT C01_Closure
INVARIANT C02_Pair
INVARIANT C02_Triple
INVARIANT C02_Pow
INVARIANT C02_InvActs
INVARIANT C06_ActHom
INVARIANT CanonState
CHECK_DEADLOCK FALSE
