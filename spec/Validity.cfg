INIT Init
NEXT Next
CONSTANTS
  MaxItems = 3
ACTION_CONSTRAINT EdgeOut
CHECK_DEADLOCK FALSE
