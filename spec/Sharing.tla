------------------------------ MODULE Sharing ------------------------------
(***************************************************************************)
(* Value semantics of list-capable objects (C17, C10).                     *)
(*                                                                         *)
(* Several live objects, each a sequence of VALUE IDENTITIES.  Objects are *)
(* derived from one another (indexing, slicing, construction from other    *)
(* objects, append / extend / insert of another object) and then mutated   *)
(* through the documented list-mutation methods.  In the specification an  *)
(* object is a VALUE: mutating one object never changes another, however   *)
(* the two are related.  The implementation shares NumPy arrays between    *)
(* related objects, so this is exactly where a write-through can hide.     *)
(* Every behaviour (exhaustive to a small depth) is replayed with ALL      *)
(* objects compared after every step.                                      *)
(***************************************************************************)
EXTENDS Integers, Sequences, FiniteSets, TLC, Json

CONSTANTS NObj, MaxLen, MaxDepth

VARIABLES obj,      \* obj[i]: sequence of value ids, or <<-1>> for "not allocated"
          nxt,      \* next fresh value id
          dep, hist
vars == <<obj, nxt, dep, hist>>

None == << -1 >>
Ids == 1..NObj
Live(i) == obj[i] # None
Free == { i \in Ids : ~Live(i) }
Slot == CHOOSE i \in Free : \A k \in Free : i <= k

\* a list of two plain arrays owned by the CALLER (not a library object): constructors may be given it, nothing may
\* ever change it - no action of this module does, so it is a constant of the model
Ext == <<4, 5>>

Init ==
  /\ obj = [i \in Ids |-> IF i = 1 THEN <<1, 2>> ELSE IF i = 2 THEN <<3>> ELSE None]
  /\ nxt = 6
  /\ dep = 0
  /\ hist = <<>>

Do(call, new, fresh) ==
  /\ dep < MaxDepth
  /\ \A i \in Ids : new[i] = None \/ Len(new[i]) <= MaxLen
  /\ obj' = new
  /\ nxt' = nxt + fresh
  /\ dep' = dep + 1
  /\ hist' = Append(hist, [call |-> call, objs |-> new, ext |-> Ext])

Rev(s) == [i \in 1..Len(s) |-> s[Len(s) + 1 - i]]

\* ---- deriving one object from others (no object changes) -----------------------------------
GetFirst(i)   == Live(i) /\ Len(obj[i]) >= 1 /\ Free # {} /\
                 Do([op |-> "getitem", i |-> 0, src |-> i, dst |-> Slot], [obj EXCEPT ![Slot] = << obj[i][1] >>], 0)
GetLast(i)    == Live(i) /\ Len(obj[i]) >= 1 /\ Free # {} /\
                 Do([op |-> "getitem", i |-> -1, src |-> i, dst |-> Slot], [obj EXCEPT ![Slot] = << obj[i][Len(obj[i])] >>], 0)
SliceAll(i)   == Live(i) /\ Len(obj[i]) >= 1 /\ Free # {} /\
                 Do([op |-> "slice-all", src |-> i, dst |-> Slot], [obj EXCEPT ![Slot] = obj[i]], 0)
SliceRev(i)   == Live(i) /\ Len(obj[i]) >= 1 /\ Free # {} /\
                 Do([op |-> "slice-rev", src |-> i, dst |-> Slot], [obj EXCEPT ![Slot] = Rev(obj[i])], 0)
CopyCtor(i)   == Live(i) /\ Len(obj[i]) >= 1 /\ Free # {} /\
                 Do([op |-> "ctor-copy", src |-> i, dst |-> Slot], [obj EXCEPT ![Slot] = obj[i]], 0)
\* cls([x, y]) with single-valued x, y
ListCtor(i, k) == Live(i) /\ Live(k) /\ Len(obj[i]) = 1 /\ Len(obj[k]) = 1 /\ Free # {} /\
                 Do([op |-> "ctor-list", src |-> i, src2 |-> k, dst |-> Slot], [obj EXCEPT ![Slot] = obj[i] \o obj[k]], 0)
IterFirst(i)  == Live(i) /\ Len(obj[i]) >= 1 /\ Free # {} /\
                 Do([op |-> "iter-first", src |-> i, dst |-> Slot], [obj EXCEPT ![Slot] = << obj[i][1] >>], 0)

\* cls(L, check=chk) with L the caller's list of arrays; cls(X.A, check=FALSE) with the array (or list of arrays) that
\* the accessor A of another object returns
CtorExt(chk)  == Free # {} /\
                 Do([op |-> "ctor-ext", check |-> chk, dst |-> Slot], [obj EXCEPT ![Slot] = Ext], 0)
CtorA(i)      == Live(i) /\ Len(obj[i]) >= 1 /\ Free # {} /\
                 Do([op |-> "ctor-A", src |-> i, dst |-> Slot], [obj EXCEPT ![Slot] = obj[i]], 0)

\* Y = X.m() for a method that returns a NEW object with the same values (simplify, norm of valid members, unit of unit
\* quaternions): a new object, not the receiver under another name
SameValueMethods == {"simplify", "norm"}
SameValue(i, m) == Live(i) /\ Len(obj[i]) >= 1 /\ Free # {} /\
                   Do([op |-> "same-value-method", m |-> m, src |-> i, dst |-> Slot], [obj EXCEPT ![Slot] = obj[i]], 0)

\* ---- documented list mutations: ONLY the receiver changes ----------------------------------
SetFirst(i, k)  == Live(i) /\ Live(k) /\ i # k /\ Len(obj[i]) >= 1 /\ Len(obj[k]) = 1 /\
                   Do([op |-> "setitem", i |-> 0, tgt |-> i, arg |-> k], [obj EXCEPT ![i] = [@ EXCEPT ![1] = obj[k][1]]], 0)
SetLast(i, k)   == Live(i) /\ Live(k) /\ i # k /\ Len(obj[i]) >= 1 /\ Len(obj[k]) = 1 /\
                   Do([op |-> "setitem", i |-> -1, tgt |-> i, arg |-> k], [obj EXCEPT ![i] = [@ EXCEPT ![Len(@)] = obj[k][1]]], 0)
SetFresh(i)     == Live(i) /\ Len(obj[i]) >= 1 /\
                   Do([op |-> "setitem-fresh", i |-> 0, tgt |-> i, v |-> nxt], [obj EXCEPT ![i] = [@ EXCEPT ![1] = nxt]], 1)
AppendO(i, k)   == Live(i) /\ Live(k) /\ i # k /\ Len(obj[k]) = 1 /\
                   Do([op |-> "append", tgt |-> i, arg |-> k], [obj EXCEPT ![i] = Append(@, obj[k][1])], 0)
InsertO(i, k)   == Live(i) /\ Live(k) /\ i # k /\ Len(obj[k]) = 1 /\
                   Do([op |-> "insert", i |-> 0, tgt |-> i, arg |-> k], [obj EXCEPT ![i] = << obj[k][1] >> \o @], 0)
ExtendO(i, k)   == Live(i) /\ Live(k) /\ i # k /\ Len(obj[k]) >= 1 /\
                   Do([op |-> "extend", tgt |-> i, arg |-> k], [obj EXCEPT ![i] = @ \o obj[k]], 0)
PopLast(i)      == Live(i) /\ Len(obj[i]) >= 1 /\ Free # {} /\
                   Do([op |-> "pop", tgt |-> i, dst |-> Slot],
                      [obj EXCEPT ![i] = SubSeq(@, 1, Len(@) - 1), ![Slot] = << obj[i][Len(obj[i])] >>], 0)
ReverseO(i)     == Live(i) /\ Len(obj[i]) >= 2 /\ Do([op |-> "reverse", tgt |-> i], [obj EXCEPT ![i] = Rev(@)], 0)
DelFirst(i)     == Live(i) /\ Len(obj[i]) >= 1 /\ Do([op |-> "del", i |-> 0, tgt |-> i], [obj EXCEPT ![i] = Tail(@)], 0)
ClearO(i)       == Live(i) /\ Len(obj[i]) >= 1 /\ Do([op |-> "clear", tgt |-> i], [obj EXCEPT ![i] = << >>], 0)
Forget(i)       == Live(i) /\ Cardinality({k \in Ids : Live(k)}) >= 2 /\
                   Do([op |-> "forget", tgt |-> i], [obj EXCEPT ![i] = None], 0)

Next ==
  \/ \E i \in Ids : GetFirst(i) \/ GetLast(i) \/ SliceAll(i) \/ SliceRev(i) \/ CopyCtor(i) \/ IterFirst(i)
  \/ \E i \in Ids : \E k \in Ids : ListCtor(i, k)
  \/ \E chk \in BOOLEAN : CtorExt(chk)
  \/ \E i \in Ids : CtorA(i)
  \/ \E i \in Ids : \E m \in SameValueMethods : SameValue(i, m)
  \/ \E i \in Ids : \E k \in Ids : SetFirst(i, k) \/ SetLast(i, k) \/ AppendO(i, k) \/ InsertO(i, k) \/ ExtendO(i, k)
  \/ \E i \in Ids : SetFresh(i) \/ PopLast(i) \/ ReverseO(i) \/ DelFirst(i) \/ ClearO(i) \/ Forget(i)

Spec == Init /\ [][Next]_vars

\* ---- the frame condition of the model ------------------------------------------------------------
\* a step changes at most its target and its destination slot
Frame == [][ \A i \in Ids : (obj'[i] # obj[i]) =>
               LET c == hist'[Len(hist')].call IN
               (("tgt" \in DOMAIN c /\ c.tgt = i) \/ ("dst" \in DOMAIN c /\ c.dst = i)) ]_vars
TypeOK == \A i \in Ids : obj[i] = None \/ (\A k \in 1..Len(obj[i]) : obj[i][k] \in 1..(nxt - 1))

HistOut == IF dep = MaxDepth THEN PrintT(ToJson(hist)) ELSE TRUE
=============================================================================
