INIT Init
NEXT Next
CONSTANTS
  Rep0 = "all"
  Convs <- NoConvs
  Starts <- RatLeaves2
  Leaves <- RatLeaves2
  Exps <- ExpsSmall
  MaxDepth = 1
  TBound <- Unlimited
  MaxQN = 500
  MaxDen = 200
  Export = "edges"
ACTION_CONSTRAINT EdgeOut
INVARIANT C01_Closure
INVARIANT C02_Pair
INVARIANT C02_Triple
INVARIANT C02_Pow
INVARIANT C02_InvActs
INVARIANT C06_ActHom
CHECK_DEADLOCK FALSE
