-------------------------------- MODULE Screw --------------------------------
(***************************************************************************)
(* Chasles' screw form of a rigid motion over the exact domain (C03, C18): *)
(*                                                                         *)
(*   Screw(q, p, a) = T_p . Rot(q) . T_{a v} . T_{-p}      v = vec(q)      *)
(*                                                                         *)
(* a rotation by theta = 2 atan2(|v|, s) about the axis through the point  *)
(* p with direction v, followed by the translation a v along that axis     *)
(* (a = an / ad rational).  Its exponential coordinates are                *)
(*   w = theta v/|v|,   vlin = theta (p x v)/|v| + a v                     *)
(* which the harness forms from the integers below (one sqrt, one atan2);  *)
(* the exact matrix comes from here.  The exponential is DEFINED by this   *)
(* form; TLC checks that it has the geometric properties of a screw.       *)
(***************************************************************************)
EXTENDS ExactRigid, Json

CONSTANTS QS, PS, AS, GS,     \* rotations, axis points, axial translations <<an, ad>>, planar Gaussian angles
          QU, KS,             \* rotations and multipliers for the two-argument form exp(S, theta)
          QM, GM, PM          \* (few) rotations, planar angles and axis points for the multi-valued forms

ScrewM(q, p, an, ad) ==
  Compose(Compose(Compose(Trans(p, 1), Mk(QCanon(q), <<0,0,0>>, 1)), Trans(Scale3(an, << q[2], q[3], q[4] >>), ad)),
          Trans(Neg3(p), 1))

VARIABLES c, m
vars == <<c, m>>
Init == c = [k |-> "none"] /\ m = Hom(Ident)

Screw3(q, p, a) ==
  /\ c.k = "none"
  /\ << q[2], q[3], q[4] >> # <<0,0,0>>
  /\ c' = [k |-> "screw3", q |-> q, p |-> p, an |-> a[1], ad |-> a[2]]
  /\ m' = Hom(ScrewM(q, p, a[1], a[2]))

Translation(t) ==
  /\ c.k = "none"
  /\ c' = [k |-> "translation", t |-> t]
  /\ m' = Hom(Trans(t, 1))

\* planar: rotation by the Gaussian angle g about the point p (in the plane z = 0)
Screw2(g, p) ==
  /\ c.k = "none"
  /\ p[3] = 0
  /\ c' = [k |-> "screw2", g |-> g, p |-> p]
  /\ m' = Hom(ScrewM(<< g[1], 0, 0, g[2] >>, p, 0, 1))

\* the two-argument form: S is the UNIT twist of the zero-pitch screw (q, p) and theta = n * angle(q),
\* n possibly 0 or negative; by the one-parameter-subgroup law the result is the n-th power
UnitExp3(q, p, n) ==
  /\ c.k = "none"
  /\ << q[2], q[3], q[4] >> # <<0,0,0>>
  /\ c' = [k |-> "unit3", q |-> q, p |-> p, n |-> n]
  /\ m' = Hom(Pow(ScrewM(q, p, 0, 1), n))

UnitExp2(g, p, n) ==
  /\ c.k = "none"
  /\ p[3] = 0 /\ g[2] # 0
  /\ c' = [k |-> "unit2", g |-> g, p |-> p, n |-> n]
  /\ m' = Hom(Pow(ScrewM(<< g[1], 0, 0, g[2] >>, p, 0, 1), n))

\* the class-level forms on SEQUENCES: N twists given as an N x 6 (N x 3) array or a list, exponentiated value by
\* value; the logarithm (twist or matrix form) and the pose <-> twist conversions of an N-valued pose, value by value.
\* N = 3 is included on purpose (a 3 x 3 array of rotation vectors is ambiguous with an so(3) matrix; the documented
\* decider is the keyword so3=False)
Multi3(qs, p, a) ==
  /\ c.k = "none"
  /\ \A i \in 1..Len(qs) : << qs[i][2], qs[i][3], qs[i][4] >> # <<0,0,0>>
  /\ c' = [k |-> "multi3", qs |-> qs, p |-> p, an |-> a[1], ad |-> a[2]]
  /\ m' = [i \in 1..Len(qs) |-> Hom(ScrewM(qs[i], p, a[1], a[2]))]          \* one exact matrix per value
Multi2(gs, p) ==
  /\ c.k = "none"
  /\ p[3] = 0
  /\ c' = [k |-> "multi2", gs |-> gs, p |-> p]
  /\ m' = [i \in 1..Len(gs) |-> Hom(ScrewM(<< gs[i][1], 0, 0, gs[i][2] >>, p, 0, 1))]

\* a PRISMATIC unit twist (direction d of integer length len) exponentiated with theta = n len: the translation n d.
\* theta is a distance here (several multiples of pi are passed through unharmed)
UnitTrans(d, len, n) ==
  /\ c.k = "none"
  /\ Dot(d, d) = len * len
  /\ c' = [k |-> "unittrans", d |-> d, len |-> len, n |-> n]
  /\ m' = Hom(Trans(Scale3(n, d), 1))
PythDirs == { << <<3,4,0>>, 5 >>, << <<0,0,2>>, 2 >>, << <<2,-1,2>>, 3 >>, << <<-4,3,0>>, 5 >>, << <<1,0,0>>, 1 >> }

QSeqs == { <<a, b>> : a \in QM, b \in QM } \cup { <<a, b, cc>> : a \in QM, b \in QM, cc \in QM }
GSeqs == { <<a, b>> : a \in GM, b \in GM } \cup { <<a, b, cc>> : a \in GM, b \in GM, cc \in GM }

Next ==
  \/ \E dl \in PythDirs : \E n \in KS \cup {1, 7} : UnitTrans(dl[1], dl[2], n)
  \/ \E qs \in QSeqs : \E p \in PM : \E a \in AS : Multi3(qs, p, a)
  \/ \E gs \in GSeqs : \E p \in PM : Multi2(gs, p)
  \/ \E q \in QU : \E p \in PS : \E n \in KS : UnitExp3(q, p, n)
  \/ \E g \in GS : \E p \in PS : \E n \in KS : UnitExp2(g, p, n)
  \/ \E q \in QS : \E p \in PS : \E a \in AS : Screw3(q, p, a)
  \/ \E t \in PS : Translation(t)
  \/ \E g \in GS : \E p \in PS : Screw2(g, p)

\* ---- the defining properties of a screw, checked on every generated case -----------------------
AxisFixed ==
  \A q \in QS : \A p \in PS : << q[2], q[3], q[4] >> # <<0,0,0>> =>
    LET v == << q[2], q[3], q[4] >>  M0 == ScrewM(q, p, 0, 1) IN
    /\ \A k \in {-1, 0, 2} : Act(M0, [v |-> Add3(p, Scale3(k, v)), d |-> 1]) = [v |-> Add3(p, Scale3(k, v)), d |-> 1]
    /\ Rot(M0) = Mk(QCanon(q), <<0,0,0>>, 1)
AxialShift ==
  \A q \in QS : \A p \in PS : \A a \in AS : << q[2], q[3], q[4] >> # <<0,0,0>> =>
    LET v == << q[2], q[3], q[4] >>  M == ScrewM(q, p, a[1], a[2])
        img == Act(M, [v |-> p, d |-> 1]) IN
    \* p moves to p + (an/ad) v
    Scale3(a[2], img.v) = Scale3(img.d, Add3(Scale3(a[2], p), Scale3(a[1], v)))
ValidAll == \A q \in QS : \A p \in PS : \A a \in AS :
              << q[2], q[3], q[4] >> # <<0,0,0>> => Valid(ScrewM(q, p, a[1], a[2]))

\* one-parameter subgroup: exp(S, (j+k) theta) = exp(S, j theta) exp(S, k theta); exp(S, 0) = identity
Subgroup == \A q \in QU : \A p \in PS : << q[2], q[3], q[4] >> # <<0,0,0>> =>
              LET M == ScrewM(q, p, 0, 1) IN
              /\ Canon(Pow(M, 0)) = Canon(Ident)
              /\ \A i, k \in KS : (i + k) \in KS => Canon(Compose(Pow(M, i), Pow(M, k))) = Canon(Pow(M, i + k))

EdgeOut == PrintT(ToJson([c |-> c', m |-> m']))
=============================================================================
