INIT HistInit
NEXT HistNext
CONSTANTS
  KeepHist = FALSE
  MaxObjs = 3
  MaxLenH = 2
  MaxSteps = 4
  HeapClasses <- HC3small
INVARIANT TypeOK
PROPERTY C17_Frame
PROPERTY C17_OnlyMutators
PROPERTY RaiseFrame
CHECK_DEADLOCK FALSE
