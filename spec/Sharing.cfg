SPECIFICATION Spec
CONSTANTS
  NObj = 4
  MaxLen = 3
  MaxDepth = 3
INVARIANT TypeOK
INVARIANT HistOut
PROPERTY Frame
CHECK_DEADLOCK FALSE
