------------------------------- MODULE MC_Seq -------------------------------
EXTENDS SeqMachine
Rx90 == Mk(<<1,1,0,0>>, <<0,0,0>>, 1)
Ry90 == Mk(<<1,0,1,0>>, <<0,0,0>>, 1)
Rz90 == Mk(<<1,0,0,1>>, <<0,0,0>>, 1)
\* cube rotations with integer translations: closed under the group operations, denominators stay 1
CubeFew == { Mk(<<1,1,0,0>>, <<1,0,0>>, 1), Mk(<<1,0,1,0>>, <<0,-1,2>>, 1), Mk(<<1,0,0,1>>, <<0,0,0>>, 1),
             Mk(<<1,1,1,1>>, <<1,-1,0>>, 1), Mk(<<0,1,1,0>>, <<2,0,1>>, 1), Mk(<<1,0,0,0>>, <<3,-2,1>>, 1),
             Mk(<<0,0,0,1>>, <<0,1,0>>, 1) }
PlanarFew == { Mk(<<1,0,0,1>>, <<1,0,0>>, 1), Mk(<<1,0,0,-1>>, <<0,2,0>>, 1), Mk(<<0,0,0,1>>, <<1,2,0>>, 1),
               Mk(<<1,0,0,0>>, <<3,-2,0>>, 1), Mk(<<1,0,0,1>>, <<0,0,0>>, 1) }
Three == { Mk(<<1,1,0,0>>, <<1,0,0>>, 1), Mk(<<1,0,0,1>>, <<0,0,0>>, 1), Mk(<<1,0,0,0>>, <<3,-2,1>>, 1) }
\* operand sequences: every single leaf, every pair of the first four leaves, and rotating windows of length 3 and 4
Seqs(S) == LET few == CHOOSE T \in SUBSET S : Cardinality(T) = 4
               ord == CHOOSE f \in [1..Cardinality(S) -> S] : \A i, k \in 1..Cardinality(S) : i # k => f[i] # f[k]
               n   == Cardinality(S)
           IN  { <<g>> : g \in S } \cup { <<a, b>> : a \in few, b \in few }
               \cup { << ord[i], ord[(i % n) + 1], ord[((i + 2) % n) + 1] >> : i \in 1..n }
               \cup { << ord[i], ord[((i + 1) % n) + 1], ord[((i + 3) % n) + 1], ord[i] >> : i \in 1..n }
SeqsCube == Seqs(CubeFew)
SeqsPlanar == Seqs(PlanarFew)
SeqsThree == { <<g>> : g \in Three } \cup { <<a, b>> : a \in Three, b \in Three }
ExpsSmall == {-2, -1, 0, 1, 2, 3}
ExpsTwo == {-1, 2}
=============================================================================
