----------------------------- MODULE ExactRigid -----------------------------
(***************************************************************************)
(* Exact rigid motions of space (and, as the subgroup fixing the z axis,   *)
(* of the plane) over the integers.                                        *)
(*                                                                         *)
(*   rotation   q = <<s,x,y,z>> in Z^4 \ {0}  denotes  RotNum(q) / N(q)    *)
(*   motion     m = [q |-> q, t |-> <<a,b,c>>, d |-> d]   x |-> R x + t/d  *)
(*                                                                         *)
(* Composition is the Hamilton product (exact, closed), inversion is       *)
(* conjugation.  q and k*q (k # 0, in particular -q) denote the same       *)
(* rotation; Canon picks one representative so that "same motion" is       *)
(* equality of TLA+ values.  No reals, no square roots.                    *)
(***************************************************************************)
EXTENDS Integers, Sequences, FiniteSets, TLC

Abs(x) == IF x < 0 THEN -x ELSE x
RECURSIVE Gcd(_, _)
Gcd(a, b) == IF b = 0 THEN Abs(a) ELSE Gcd(Abs(b), Abs(a) % Abs(b))
Gcd3(v) == Gcd(Gcd(v[1], v[2]), v[3])
Gcd4(v) == Gcd(Gcd(v[1], v[2]), Gcd(v[3], v[4]))

\* ---- 3-vectors and 3x3 matrices (tuples of rows) ---------------------------
Dot(a, b)   == a[1]*b[1] + a[2]*b[2] + a[3]*b[3]
Cross(a, b) == << a[2]*b[3] - a[3]*b[2], a[3]*b[1] - a[1]*b[3], a[1]*b[2] - a[2]*b[1] >>
Add3(a, b)  == << a[1]+b[1], a[2]+b[2], a[3]+b[3] >>
Sub3(a, b)  == << a[1]-b[1], a[2]-b[2], a[3]-b[3] >>
Scale3(k, a) == << k*a[1], k*a[2], k*a[3] >>
Neg3(a)     == Scale3(-1, a)
Div3(a, k)  == << a[1] \div k, a[2] \div k, a[3] \div k >>      \* exact division only

MatVec(M, v) == << Dot(M[1], v), Dot(M[2], v), Dot(M[3], v) >>
Col(M, j)    == << M[1][j], M[2][j], M[3][j] >>
Transpose(M) == << Col(M, 1), Col(M, 2), Col(M, 3) >>
MatMul(A, B) == [i \in 1..3 |-> [j \in 1..3 |-> Dot(A[i], Col(B, j))]]
ScaleM(k, M) == [i \in 1..3 |-> Scale3(k, M[i])]
Ident3       == << <<1,0,0>>, <<0,1,0>>, <<0,0,1>> >>
Det3(M)      == Dot(M[1], Cross(M[2], M[3]))

\* ---- integer quaternions -----------------------------------------------------
QMul(p, q) == << p[1]*q[1] - p[2]*q[2] - p[3]*q[3] - p[4]*q[4],
                 p[1]*q[2] + p[2]*q[1] + p[3]*q[4] - p[4]*q[3],
                 p[1]*q[3] - p[2]*q[4] + p[3]*q[1] + p[4]*q[2],
                 p[1]*q[4] + p[2]*q[3] - p[3]*q[2] + p[4]*q[1] >>
QConj(q)   == << q[1], -q[2], -q[3], -q[4] >>
QN(q)      == q[1]*q[1] + q[2]*q[2] + q[3]*q[3] + q[4]*q[4]
QOne       == <<1, 0, 0, 0>>

\* numerator of the rotation matrix: R = RotNum(q) / QN(q)
RotNum(q) ==
  LET s == q[1]  x == q[2]  y == q[3]  z == q[4] IN
  << << s*s + x*x - y*y - z*z, 2*(x*y - s*z),         2*(x*z + s*y) >>,
     << 2*(x*y + s*z),         s*s - x*x + y*y - z*z, 2*(y*z - s*x) >>,
     << 2*(x*z - s*y),         2*(y*z + s*x),         s*s - x*x - y*y + z*z >> >>

\* projective canonical form: primitive, first non-zero component positive
QCanon(q) ==
  LET g == Gcd4(q)
      p == << q[1] \div g, q[2] \div g, q[3] \div g, q[4] \div g >>
      sgn == IF p[1] # 0 THEN p[1] ELSE IF p[2] # 0 THEN p[2] ELSE IF p[3] # 0 THEN p[3] ELSE p[4]
  IN IF sgn < 0 THEN << -p[1], -p[2], -p[3], -p[4] >> ELSE p

\* ---- rigid motions -----------------------------------------------------------
Mk(q, t, d) == [q |-> q, t |-> t, d |-> d]

Canon(m) ==
  LET g0 == Gcd(Gcd3(m.t), m.d)
      g  == IF g0 = 0 THEN 1 ELSE g0
      sg == IF m.d < 0 THEN -1 ELSE 1
  IN Mk(QCanon(m.q), Div3(Scale3(sg, m.t), g), (sg * m.d) \div g)

Ident == Mk(QOne, <<0,0,0>>, 1)

\* a o b :  x |-> Ra (Rb x + tb/db) + ta/da
Compose(a, b) ==
  LET na == QN(a.q) IN
  Canon(Mk(QMul(a.q, b.q),
           Add3(Scale3(na * b.d, a.t), Scale3(a.d, MatVec(RotNum(a.q), b.t))),
           a.d * b.d * na))

\* inverse :  x |-> Ra' x - Ra' ta/da
Inv(a) ==
  Canon(Mk(QConj(a.q), Neg3(MatVec(RotNum(QConj(a.q)), a.t)), a.d * QN(a.q)))

Div(a, b) == Compose(a, Inv(b))

RECURSIVE PowNat(_, _)
PowNat(a, n) == IF n = 0 THEN Ident ELSE Compose(PowNat(a, n - 1), a)
Pow(a, n) == IF n >= 0 THEN PowNat(a, n) ELSE PowNat(Inv(a), -n)

RECURSIVE Prod(_)
Prod(s) == IF Len(s) = 0 THEN Ident ELSE Compose(Prod(SubSeq(s, 1, Len(s) - 1)), s[Len(s)])

Rot(m)   == Mk(QCanon(m.q), <<0,0,0>>, 1)          \* the rotation part as a motion
Trans(t, d) == Canon(Mk(QOne, t, d))                \* pure translation

\* action on a rational point p = [v |-> int3, d |-> den]:  R p + t
Act(m, p) ==
  LET n == QN(m.q)
      num == Add3(Scale3(m.d, MatVec(RotNum(m.q), p.v)), Scale3(n * p.d, m.t))
      den == n * m.d * p.d
      g0  == Gcd(Gcd3(num), den)
      g   == IF g0 = 0 THEN 1 ELSE g0
  IN [v |-> Div3(num, g), d |-> den \div g]

\* homogeneous matrix over a common denominator: T = num / den  (what the harness consumes)
Hom(m) ==
  LET n == QN(m.q)  R == RotNum(m.q) IN
  [num |-> << << m.d*R[1][1], m.d*R[1][2], m.d*R[1][3], n*m.t[1] >>,
              << m.d*R[2][1], m.d*R[2][2], m.d*R[2][3], n*m.t[2] >>,
              << m.d*R[3][1], m.d*R[3][2], m.d*R[3][3], n*m.t[3] >>,
              << 0, 0, 0, n*m.d >> >>,
   den |-> n * m.d,
   q   |-> m.q, qn |-> n]

\* ---- validity (C01) and the group laws (C02) as predicates on the exact model --------
Valid(m) ==
  LET R == RotNum(m.q)  n == QN(m.q) IN
  /\ n > 0 /\ m.d > 0
  /\ MatMul(R, Transpose(R)) = ScaleM(n * n, Ident3)      \* orthogonal (after scaling)
  /\ Det3(R) = n * n * n                                  \* proper

Planar(m) == m.q[2] = 0 /\ m.q[3] = 0 /\ m.t[3] = 0       \* SE(2) as a subgroup of SE(3)

LawsPair(a, b) ==
  /\ Compose(a, Ident) = Canon(a) /\ Compose(Ident, a) = Canon(a)
  /\ Compose(a, Inv(a)) = Ident /\ Compose(Inv(a), a) = Ident
  /\ Inv(Compose(a, b)) = Compose(Inv(b), Inv(a))
  /\ Div(a, b) = Compose(a, Inv(b))
  /\ Rot(Compose(a, b)) = Compose(Rot(a), Rot(b))          \* SE(3) -> SO(3) is a homomorphism

LawsTriple(a, b, c) == Compose(Compose(a, b), c) = Compose(a, Compose(b, c))

LawsPow(a, n) ==
  /\ Pow(a, 0) = Ident
  /\ (n >= 0 => Pow(a, n + 1) = Compose(Pow(a, n), a))
  /\ Pow(a, -n) = Inv(Pow(a, n))

\* ---- the lattices -----------------------------------------------------------
Box(k) == { q \in ((-k)..k) \X ((-k)..k) \X ((-k)..k) \X ((-k)..k) : q # <<0,0,0,0>> }
\* rotation group of the cube: 24 projective classes of the -1..1 box whose RotNum/N is integral
CubeQ == { QCanon(q) : q \in { p \in Box(1) : QN(p) \in {1, 2, 4} } }
\* rational rotations of the -k..k box, one representative per rotation
RatQ(k) == { QCanon(q) : q \in Box(k) }
T3(k) == ((-k)..k) \X ((-k)..k) \X ((-k)..k)
=============================================================================
