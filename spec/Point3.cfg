INIT Init
NEXT Next
CONSTANTS
  PoseSeq <- P3
  PSeq <- Pts3
  Forms <- FormsAll
  MaxN = 7
  MaxK = 5
ACTION_CONSTRAINT EdgeOut
INVARIANT OutOK
CHECK_DEADLOCK FALSE
