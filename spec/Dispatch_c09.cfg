INIT Init
NEXT Next
CONSTANTS
  Unary = TRUE
  Lens <- Lens05
  OpSet <- C09Ops
  LeftKinds <- C09Left
  RightKinds <- C09Right
ACTION_CONSTRAINT EdgeOut
INVARIANT OutcomeOK
CHECK_DEADLOCK FALSE
