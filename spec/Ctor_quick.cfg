INIT Init
NEXT Next
CONSTANTS
  VTags1 <- VT1
  VTags3 <- VT3s
  VLens <- VL
  VTrans <- VTr
  Ang1 <- AllAng
  Ang3 <- FewAng
  QSet <- Q2
  TSet <- TFew
ACTION_CONSTRAINT EdgeOut
INVARIANT ValOK
CHECK_DEADLOCK FALSE
