INIT Init
NEXT Next
INVARIANT Final
POSTCONDITION TraceDone
CHECK_DEADLOCK FALSE
