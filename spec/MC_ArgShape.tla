----------------------------- MODULE MC_ArgShape -----------------------------
EXTENDS ArgShape
ASSUME ThGetIs
ASSUME ThIsGet
ASSUME ThForms
ASSUME ThGetMatrix
ASSUME ThAssertIs
ASSUME ThVerify
=============================================================================
