INIT HistInit
NEXT HistNext
CONSTANTS
  KeepHist = TRUE
  MaxObjs = 7
  MaxLenH = 5
  MaxSteps = 25
  HeapClasses <- HCAll
INVARIANT TypeOK
INVARIANT HistOut
CHECK_DEADLOCK FALSE
