--------------------------- MODULE DispatchTable ---------------------------
(***************************************************************************)
(* The documented operator table of spatialmath (C08) and the length rule  *)
(* of vectorised operators (C09), as a state machine.                      *)
(*                                                                         *)
(* An operand is [c |-> kind, n |-> number of values].  Kinds are the 16   *)
(* public classes plus the foreign operand kinds Int, Float, Vec (an       *)
(* array-like vector/matrix of points that conforms to the left operand),  *)
(* and BadArr (an array that conforms to nothing).                         *)
(*                                                                         *)
(* Doc(op, L, R) is transcribed from the docstring tables of               *)
(* SMPose.__mul__/__truediv__/__add__/__sub__/__eq__, Quaternion,          *)
(* UnitQuaternion, Twist3/Twist2.__mul__, SpatialVector.__add__/__sub__/   *)
(* __rmul__, SpatialInertia, Plucker, DualQuaternion and from the          *)
(* statement of C08.  Outcome kinds:                                       *)
(*   "obj"(cls)  an object of class cls        "array"  plain ndarray(s)   *)
(*   "bool"      bool / list of bool           "scalar" a number           *)
(*   "raise"     must raise                    "unspec" not judged         *)
(***************************************************************************)
EXTENDS Integers, Sequences, FiniteSets, TLC, Json

Pose2   == {"SO2", "SE2"}
Pose3   == {"SO3", "SE3"}
Pose    == Pose2 \cup Pose3
Quats   == {"Quaternion", "UnitQuaternion"}
Twists  == {"Twist2", "Twist3"}
SVec    == {"SpatialVelocity", "SpatialAcceleration", "SpatialForce", "SpatialMomentum"}
DQuats  == {"DualQuaternion", "UnitDualQuaternion"}
Classes == Pose \cup Quats \cup Twists \cup SVec \cup {"Plucker", "SpatialInertia"} \cup DQuats
Scalars == {"Int", "Float"}
\* "PtsMat": a d x 4 array of column points conforming to the left operand; "SelfMat": an array of the very shape of the
\* left operand's own matrix (2x2 / 3x3 / 4x4)
Foreign == Scalars \cup {"Vec", "BadArr", "PtsMat", "SelfMat"}
Kinds   == Classes \cup Foreign

ArithOps == {"*", "/", "+", "-", "**", "@"}
CmpOps   == {"==", "!="}
LineOps  == {"^", "|"}
Ops      == ArithOps \cup CmpOps \cup LineOps

\* classes with list behaviour whose operators are vectorised (C09)
ListOps == Pose \cup Quats \cup Twists

ObjR(c) == [k |-> "obj", cls |-> c]
ArrR    == [k |-> "array"]
BoolR   == [k |-> "bool"]
ScalR   == [k |-> "scalar"]
RaiseR  == [k |-> "raise"]
Unspec  == [k |-> "unspec"]

\* ---------------------------------------------------------------------------
\* object (op) object
DocObjObj(op, L, R) ==
  CASE op = "*" ->
         ( CASE L \in Pose /\ R = L                                  -> ObjR(L)
             [] L \in Quats /\ R \in Quats ->
                  IF L = "UnitQuaternion" /\ R = "UnitQuaternion" THEN ObjR("UnitQuaternion")
                  ELSE ObjR("Quaternion")
             [] L \in Twists /\ R = L                                -> ObjR(L)
             [] L = "Twist3" /\ R = "SE3"                            -> ObjR("SE3")
             [] L = "Twist2" /\ R = "SE2"                            -> ObjR("SE2")
             [] L = "SE3" /\ R = "Plucker"                           -> ObjR("Plucker")
             [] L = "Plucker" /\ R = "Plucker"                       -> ScalR
             [] L \in {"SE3", "Twist3"} /\ R \in SVec                -> ObjR(R)
             [] L = "SpatialInertia" /\ R = "SpatialAcceleration"    -> ObjR("SpatialForce")
             [] L = "SpatialInertia" /\ R = "SpatialVelocity"        -> ObjR("SpatialMomentum")
             [] L = "SpatialAcceleration" /\ R = "SpatialInertia"    -> ObjR("SpatialForce")
             [] L = "SpatialVelocity" /\ R = "SpatialInertia"        -> ObjR("SpatialMomentum")
             [] L \in DQuats /\ R \in DQuats ->
                  IF L = R THEN ObjR(L) ELSE Unspec      \* mixed unit / non-unit: not documented
             [] OTHER -> RaiseR )
    [] op = "/" ->
         ( CASE L \in Pose /\ R = L                                  -> ObjR(L)
             [] L = "UnitQuaternion" /\ R = "UnitQuaternion"         -> ObjR("UnitQuaternion")
             [] OTHER -> RaiseR )
    [] op \in {"+", "-"} ->
         ( CASE L \in Pose /\ R = L                                  -> ArrR
             [] L \in Quats /\ R \in Quats                           -> ObjR("Quaternion")
             [] L \in SVec /\ R = L                                  -> ObjR(L)
             [] L = "SpatialInertia" /\ R = L /\ op = "+"            -> ObjR(L)
             [] L = "DualQuaternion" /\ R = L                        -> ObjR(L)
             [] L \in DQuats /\ R \in DQuats                         -> Unspec
             [] OTHER -> RaiseR )
    [] op = "**" -> RaiseR
    [] op = "@" ->
         ( CASE L = "SpatialVelocity" /\ R = "SpatialVelocity"       -> ObjR("SpatialAcceleration")
             [] L = "SpatialVelocity" /\ R \in {"SpatialForce", "SpatialMomentum"}
                                                                     -> ObjR("SpatialForce")
             [] OTHER -> RaiseR )
    [] op \in CmpOps ->
         ( CASE L \in (Pose \cup Quats \cup Twists \cup {"Plucker"}) /\ R = L -> BoolR
             [] OTHER -> Unspec )       \* C08 only speaks about operands of one class
    [] op \in LineOps ->
         ( CASE L = "Plucker" /\ R = "Plucker"                       -> BoolR
             [] OTHER -> Unspec )

\* object (op) scalar / array, scalar (op) object
DocObjForeign(op, L, R) ==
  CASE R \in Scalars ->
         ( CASE op \in {"*", "/", "+", "-"} /\ L \in Pose            -> ArrR
             [] op = "*" /\ L \in Quats                              -> ObjR("Quaternion")
             [] op = "/" /\ L = "UnitQuaternion"                     -> ObjR("Quaternion")
             [] op = "*" /\ L \in Twists                             -> ObjR(L)
             [] op = "**" /\ R = "Int" /\ L \in (Pose \cup Quats)    -> ObjR(L)
             [] OTHER -> Unspec )
    [] R = "Vec" ->
         ( CASE op = "*" /\ L \in (Pose \cup {"UnitQuaternion", "UnitDualQuaternion"}) -> ArrR
             \* "dq * p transforms the point p by the UNIT dual quaternion dq": for the general class the pair is
             \* not defined, whatever value the object holds
             [] op = "*" /\ L = "DualQuaternion"                      -> RaiseR
             [] OTHER -> Unspec )
    \* the tables of / say "any other input combination results in a ValueError": pose / array is such a combination;
    \* a pose or unit quaternion times a matrix of points is decided for single-valued left operands only (C06), so the
    \* cell is left open here - but NO arithmetic cell, decided or not, may return None (checked by the harness)
    [] R \in {"PtsMat", "SelfMat"} ->
         ( CASE op = "/" /\ L \in Pose                               -> RaiseR
             [] OTHER -> Unspec )
    [] OTHER -> Unspec

DocForeignObj(op, L, R) ==
  CASE L \in Scalars ->
         ( CASE op \in {"*", "+", "-"} /\ R \in Pose                 -> ArrR
             [] op = "*" /\ R \in Quats                              -> ObjR("Quaternion")
             [] op = "*" /\ R \in Twists                             -> ObjR(R)
             [] OTHER -> Unspec )
    [] OTHER -> Unspec

Doc(op, L, R) ==
  IF L \in Classes /\ R \in Classes THEN DocObjObj(op, L, R)
  ELSE IF L \in Classes THEN DocObjForeign(op, L, R)
  ELSE IF R \in Classes THEN DocForeignObj(op, L, R)
  ELSE Unspec

\* ---------------------------------------------------------------------------
\* C09: length rule of vectorised operators
Err == -1
BinLen(m, n) == IF m = n THEN m ELSE IF m = 1 THEN n ELSE IF n = 1 THEN m ELSE Err
Pick(i, m)   == IF m = 1 THEN 1 ELSE i          \* which element of an m-valued operand feeds result i

\* does the operator apply element-wise to sequences for this cell?
Vectorised(op, L, R) ==
  /\ L \in ListOps
  /\ (R \in ListOps \/ R \in Foreign)
  /\ Doc(op, L, R).k \in {"obj", "array", "bool"}

\* the outcome of  l op r  for operands holding m and n values (n = 1 for foreign operands)
Outcome(op, L, m, R, n) ==
  LET dd == Doc(op, L, R) IN
  IF dd.k \in {"raise", "unspec"} THEN [doc |-> dd, len |-> 0, picks |-> <<>>]
  ELSE IF m = 0 \/ n = 0 THEN [doc |-> Unspec, len |-> 0, picks |-> <<>>]   \* empty operands: not judged
  ELSE IF Vectorised(op, L, R) THEN
         LET k == BinLen(m, n) IN
         IF k = Err THEN [doc |-> [k |-> "raise", e |-> "ValueError"], len |-> 0, picks |-> <<>>]
         ELSE [doc |-> dd, len |-> k, picks |-> [i \in 1..k |-> <<Pick(i, m), Pick(i, n)>>]]
  ELSE IF m = 1 /\ n = 1 THEN [doc |-> dd, len |-> 1, picks |-> << <<1, 1>> >>]
  ELSE [doc |-> Unspec, len |-> 0, picks |-> <<>>]      \* multi-valued operands of non-vectorised cells

\* ---- per-value (unary) methods named by C09: M values in, M results out, result i from value i
\* ("->X" is the conversion of every value to class X; judged where the library documents or
\* implements it for sequences: UnitQuaternion(X) "if len(X) > 1 ... same length", SE2.SE3())
PerValue(c) ==
  CASE c = "SO2"            -> {"inv", "R", "theta", "log", "det", "norm"}
    [] c = "SE2"            -> {"inv", "R", "t", "theta", "xyt", "log", "det", "norm", "->SE3"}
    [] c = "SO3"            -> {"inv", "R", "rpy", "eul", "log", "det", "norm", "->UnitQuaternion"}
    [] c = "SE3"            -> {"inv", "R", "t", "rpy", "eul", "log", "det", "norm", "->UnitQuaternion"}
    [] c = "Quaternion"     -> {"conj", "norm", "log"}
    [] c = "UnitQuaternion" -> {"inv", "conj", "norm", "R", "rpy", "eul", "log"}
    \* (exp / conversion to a pose of a multi-valued twist work value by value since fix 83566cd; line() maps over the values)
    [] c = "Twist2"         -> {"inv", "exp", "->SE2"}
    [] c = "Twist3"         -> {"inv", "exp", "line", "->SE3"}
    [] OTHER                -> {}

\* explored and reported, not judged (not named by the statement)
PerValueExtra(c) ==
  CASE c = "SO3"  -> {"angvec"}
    [] c = "SE3"  -> {"angvec", "->Twist3"}
    [] c = "UnitQuaternion" -> {"angvec", "->SO3", "->SE3"}
    [] c = "SO2"  -> {"->SE2"}
    [] c = "SE2"  -> {"->Twist2"}
    [] c = "Quaternion"     -> {"unit", "s", "v", "vec", "exp"}
    [] c = "Twist3"         -> {"v", "w", "theta", "pitch", "pole", "unit", "S", "se3", "isunit", "isprismatic"}
    [] c = "Twist2"         -> {"v", "w", "unit", "S", "se2", "isunit", "isprismatic"}
    [] OTHER                -> {}

MapOutcome(judged, m) ==
  IF m = 0 THEN [doc |-> Unspec, len |-> 0, picks |-> <<>>]
  ELSE [doc |-> IF judged THEN [k |-> "map"] ELSE Unspec, len |-> m, picks |-> [i \in 1..m |-> <<i, i>>]]

\* option variants of the per-value methods: the multi-valued code path must honour them too
Opts(f) ==
  CASE f = "rpy"   -> {"", "deg", "xyz", "yxz", "xyz+deg"}
    [] f = "eul"   -> {"", "deg", "flip"}
    [] f = "theta" -> {"", "deg"}
    [] f = "xyt"   -> {"", "deg"}
    [] f = "log"   -> {"", "twist"}
    [] OTHER       -> {""}
AllOpts == {"", "deg", "xyz", "yxz", "xyz+deg", "flip", "twist"}

UnaryNames == UNION {PerValue(c) \cup PerValueExtra(c) : c \in ListOps}
=============================================================================
