----------------------------- MODULE SeqMachine -----------------------------
(***************************************************************************)
(* Multi-valued pose objects as a state machine over the exact domain.     *)
(*                                                                         *)
(* One live object holds a SEQUENCE xs of exact rigid motions (ExactRigid). *)
(* It is transformed by the public operations that exist on sequences:     *)
(*                                                                         *)
(*   group layer   xs * Y, Y * xs, xs / Y (Y single- or equal-length),     *)
(*                 xs.inv(), xs ** n, xs.prod()                             *)
(*   list layer    append, insert, pop, del, x[i] = g, reverse, extend,    *)
(*                 x = x[i], x = x[slice]                                   *)
(*                                                                         *)
(* so that a behaviour interleaves the dispatch rule (C09: broadcasting,   *)
(* element i from element i), list semantics (C10) and the group values    *)
(* themselves (C01, C02) - every value of the object is known EXACTLY      *)
(* after every step and is compared with the implementation's.             *)
(*                                                                         *)
(* The same machine serves SE3, SO3, UnitQuaternion and (on planar leaves) *)
(* SE2, SO2: rotation-only classes see Rot(g) of every leaf.               *)
(***************************************************************************)
EXTENDS ExactRigid, Json

CONSTANTS Leaves,       \* operand values
          OperandSeqs,  \* operand sequences of the binary operators and of extend (sequences of leaves)
          MaxLen,       \* longest sequence held
          MaxDepth,     \* operations per behaviour
          Exps,         \* exponents
          RotOnly,      \* TRUE: the object is of a rotation-only class
          Export        \* "hist" | "edges" | "none"

VARIABLES xs, dep, last, hist,
          cls           \* the kind of call chosen for the next step ("none": not yet chosen).  Choosing the kind first
                        \* makes TLC's simulator (uniform over successor states) uniform over KINDS of call rather
                        \* than over the much larger parameter space of the binary operators.
vars == <<xs, dep, last, hist, cls>>

L(g) == IF RotOnly THEN Rot(g) ELSE Canon(g)
Homs(s) == [i \in 1..Len(s) |-> Hom(s[i])]

\* ---- the dispatch rule (DispatchTable.BinLen / Pick restated on values) ---------------------------
BLen(m, n) == IF m = n THEN m ELSE IF m = 1 THEN n ELSE IF n = 1 THEN m ELSE 0      \* 0: must be rejected
Pk(i, m)   == IF m = 1 THEN 1 ELSE i
Bin(F(_, _), a, b) == [i \in 1..BLen(Len(a), Len(b)) |-> Canon(F(a[Pk(i, Len(a))], b[Pk(i, Len(b))]))]
Map(F(_), a)       == [i \in 1..Len(a) |-> Canon(F(a[i]))]
RECURSIVE ProdSeq(_)
ProdSeq(s) == IF Len(s) = 0 THEN Ident ELSE Compose(ProdSeq(SubSeq(s, 1, Len(s) - 1)), s[Len(s)])

Small(s) == \A i \in 1..Len(s) : QN(s[i].q) <= 4 /\ s[i].d <= 4 /\ \A k \in 1..3 : Abs(s[i].t[k]) <= 60 * s[i].d

Init ==
  /\ xs \in {<<L(g)>> : g \in Leaves}
  /\ dep = 0
  /\ last = [op |-> "init"]
  /\ cls = "none"
  /\ hist = IF Export = "hist" THEN << [call |-> [op |-> "init"], post |-> Homs(xs)] >> ELSE <<>>

Kinds == {"mulr", "mull", "divr", "extend", "inv", "prod", "reverse", "slicerev", "pow", "append", "insert", "setitem",
          "pop", "getitem", "slice", "peek-inv", "peek-prod", "peek-divl"}
Choose(k) == cls = "none" /\ dep < MaxDepth /\ cls' = k /\ UNCHANGED <<xs, dep, last, hist>>

\* a chosen kind may have no enabled call in the current state (e.g. inv of an empty object): the choice is withdrawn
Unchoose == cls # "none" /\ cls' = "none" /\ UNCHANGED <<xs, dep, last, hist>>

Step(call, new) ==
  /\ cls = call.op /\ cls' = "none"
  /\ dep < MaxDepth
  /\ Len(new) <= MaxLen
  /\ Small(new)
  /\ xs' = new
  /\ dep' = dep + 1
  /\ last' = call
  /\ hist' = IF Export = "hist" THEN Append(hist, [call |-> call, post |-> Homs(new)]) ELSE hist

\* a rejected call: the object is unchanged (the harness checks that the implementation raises)
Reject(call) ==
  /\ cls = call.op /\ cls' = "none"
  /\ dep < MaxDepth
  /\ xs' = xs
  /\ dep' = dep + 1
  /\ last' = call
  /\ hist' = IF Export = "hist" THEN Append(hist, [call |-> call, post |-> Homs(xs)]) ELSE hist

Operands == { [i \in 1..Len(s) |-> L(s[i])] : s \in OperandSeqs }

\* ---- group layer ---------------------------------------------------------------------------------
MulR(ys) == IF Len(xs) >= 1 /\ BLen(Len(xs), Len(ys)) > 0
            THEN Step([op |-> "mulr", ys |-> Homs(ys)], Bin(Compose, xs, ys))
            ELSE Len(xs) >= 1 /\ Reject([op |-> "mulr", ys |-> Homs(ys), raises |-> TRUE])
MulL(ys) == IF Len(xs) >= 1 /\ BLen(Len(ys), Len(xs)) > 0
            THEN Step([op |-> "mull", ys |-> Homs(ys)], Bin(Compose, ys, xs))
            ELSE Len(xs) >= 1 /\ Reject([op |-> "mull", ys |-> Homs(ys), raises |-> TRUE])
DivR(ys) == IF Len(xs) >= 1 /\ BLen(Len(xs), Len(ys)) > 0
            THEN Step([op |-> "divr", ys |-> Homs(ys)], Bin(Div, xs, ys))
            ELSE Len(xs) >= 1 /\ Reject([op |-> "divr", ys |-> Homs(ys), raises |-> TRUE])
InvAll   == Len(xs) >= 1 /\ Step([op |-> "inv"], Map(Inv, xs))
PowAll(n) == Len(xs) >= 1 /\ Step([op |-> "pow", n |-> n], [i \in 1..Len(xs) |-> Canon(Pow(xs[i], n))])
ProdAll  == Len(xs) >= 1 /\ Step([op |-> "prod"], << Canon(ProdSeq(xs)) >>)

\* ---- observations: a non-mutating call whose RESULT is looked at while the live object stays what it is ----------
\* (x.inv(), x.prod(), g / x evaluated and discarded: the next one must reflect the values the object holds THEN,
\* whatever was computed from it before)
PeekInv     == Len(xs) >= 1 /\ Step([op |-> "peek-inv", val |-> Homs(Map(Inv, xs))], xs)
PeekProd    == Len(xs) >= 1 /\ Step([op |-> "peek-prod", val |-> Homs(<< Canon(ProdSeq(xs)) >>)], xs)
PeekDivL(g) == Len(xs) >= 1 /\ Step([op |-> "peek-divl", g |-> Hom(g), val |-> Homs(Bin(Div, << g >>, xs))], xs)

\* ---- list layer (indices as Python writes them: 0-based, negative from the end) ---------------------
PyIdx(i, n) == IF i < 0 THEN i + n + 1 ELSE i + 1         \* 1-based position of Python index i, if in range
InRange(i, n) == -n <= i /\ i < n
Ins(s, k, g) == SubSeq(s, 1, k - 1) \o <<g>> \o SubSeq(s, k, Len(s))                 \* before position k
Del(s, k)    == SubSeq(s, 1, k - 1) \o SubSeq(s, k + 1, Len(s))
Clamp(i, n)  == IF i < 0 THEN (IF i + n < 0 THEN 0 ELSE i + n) ELSE (IF i > n THEN n ELSE i)
Rev(s)       == [i \in 1..Len(s) |-> s[Len(s) + 1 - i]]

AppendE(g)    == Step([op |-> "append", g |-> Hom(g)], Append(xs, g))
InsertE(i, g) == Step([op |-> "insert", i |-> i, g |-> Hom(g)], Ins(xs, Clamp(i, Len(xs)) + 1, g))
PopE(i)       == IF InRange(i, Len(xs))
                 THEN Step([op |-> "pop", i |-> i, res |-> Hom(xs[PyIdx(i, Len(xs))])], Del(xs, PyIdx(i, Len(xs))))
                 ELSE Reject([op |-> "pop", i |-> i, raises |-> TRUE])
SetE(i, g)    == IF InRange(i, Len(xs))
                 THEN Step([op |-> "setitem", i |-> i, g |-> Hom(g)], [xs EXCEPT ![PyIdx(i, Len(xs))] = g])
                 ELSE Reject([op |-> "setitem", i |-> i, g |-> Hom(g), raises |-> TRUE])
GetE(i)       == IF InRange(i, Len(xs))
                 THEN Step([op |-> "getitem", i |-> i], << xs[PyIdx(i, Len(xs))] >>)
                 ELSE Reject([op |-> "getitem", i |-> i, raises |-> TRUE])
ReverseS      == Step([op |-> "reverse"], Rev(xs))
ExtendS(ys)   == Step([op |-> "extend", ys |-> Homs(ys)], xs \o ys)
\* x = x[a:b] and x = x[::-1] keep at least one value (an empty pose object is not an operand)
SliceS(a, b)  == LET lo == Clamp(a, Len(xs))  hi == Clamp(b, Len(xs)) IN
                 lo < hi /\ Step([op |-> "slice", a |-> a, b |-> b], SubSeq(xs, lo + 1, hi))
SliceRev      == Len(xs) >= 1 /\ Step([op |-> "slicerev"], Rev(xs))

Idx == -(MaxLen + 1)..(MaxLen + 1)

Next ==
  \/ \E k \in Kinds : Choose(k)
  \/ Unchoose
  \/ \E ys \in Operands : MulR(ys) \/ MulL(ys) \/ DivR(ys) \/ ExtendS(ys)
  \/ InvAll \/ ProdAll \/ ReverseS \/ SliceRev \/ PeekInv \/ PeekProd
  \/ \E g \in Leaves : PeekDivL(L(g))
  \/ \E n \in Exps : PowAll(n)
  \/ \E g \in Leaves : AppendE(L(g))
  \/ \E g \in Leaves : \E i \in Idx : InsertE(i, L(g)) \/ SetE(i, L(g))
  \/ \E i \in Idx : PopE(i) \/ GetE(i)
  \/ \E a \in Idx : \E b \in Idx : SliceS(a, b)

Spec == Init /\ [][Next]_vars

\* ---- properties of the model ----------------------------------------------------------------------
AllValid == \A i \in 1..Len(xs) : Valid(xs[i]) /\ xs[i] = Canon(xs[i]) /\ (RotOnly => xs[i] = Rot(xs[i]))
\* C09 on the model: the length rule, and element i of a product depends on element i (or the single one) only
RealStep == cls # "none" /\ cls' = "none" /\ dep' = dep + 1
LenRule == [][ RealStep /\ last'.op \in {"mulr", "mull", "divr"} /\ ~("raises" \in DOMAIN last') =>
                 Len(xs') = (IF Len(xs) = 1 THEN Len(last'.ys) ELSE Len(xs)) ]_vars
RejectKeeps == [][ RealStep /\ "raises" \in DOMAIN last' => xs' = xs ]_vars
\* list mutators change exactly one position / keep the order of the rest
AppendFrame == [][ RealStep /\ last'.op = "append" => SubSeq(xs', 1, Len(xs)) = xs /\ Len(xs') = Len(xs) + 1 ]_vars
PopFrame    == [][ RealStep /\ last'.op = "pop" /\ ~("raises" \in DOMAIN last') => Len(xs') = Len(xs) - 1 ]_vars
InvInvolution == \A i \in 1..Len(xs) : Canon(Inv(Inv(xs[i]))) = xs[i]
ProdIsFold == Len(xs) = 2 => Canon(ProdSeq(xs)) = Canon(Compose(xs[1], xs[2]))

EdgeOut == IF Export = "edges" /\ cls # "none" THEN PrintT(ToJson([pre |-> Homs(xs), call |-> last', post |-> Homs(xs')])) ELSE TRUE
HistOut == IF Export = "hist" /\ dep = MaxDepth /\ cls = "none" THEN PrintT(ToJson(hist)) ELSE TRUE
=============================================================================
