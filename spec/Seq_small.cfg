INIT Init
NEXT Next
CONSTANTS
  Leaves <- Three
  OperandSeqs <- SeqsThree
  MaxLen = 2
  MaxDepth = 2
  Exps <- ExpsTwo
  RotOnly = FALSE
  Export = "none"
INVARIANT AllValid
INVARIANT InvInvolution
INVARIANT ProdIsFold
PROPERTY LenRule
PROPERTY RejectKeeps
PROPERTY AppendFrame
PROPERTY PopFrame
CHECK_DEADLOCK FALSE
