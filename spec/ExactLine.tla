------------------------------ MODULE ExactLine ------------------------------
(***************************************************************************)
(* Pluecker lines over the integers (C19).  A line is [v |-> moment,       *)
(* w |-> direction] with the library's convention  v = w x P  for any      *)
(* point P of the line, w = P - Q for the line built from P and Q.         *)
(* Every statement of C19 is polynomial / rational in the defining data;   *)
(* incidence, parallelism and equality are decided division-free.          *)
(* Rationals are [n |-> numerator(s), d |-> denominator].                  *)
(***************************************************************************)
EXTENDS ExactRigid, Json

Line(v, w)     == [v |-> v, w |-> w]
LinePQ(P, Q)   == Line(Cross(Sub3(P, Q), P), Sub3(P, Q))
LinePD(P, D)   == Line(Cross(D, P), D)
\* planes as <<a, b, c, d>> meaning a x + b y + c z + d = 0
PlaneN(pl)     == << pl[1], pl[2], pl[3] >>
PlanePN(p, n)  == << n[1], n[2], n[3], -Dot(n, p) >>
LinePlanes(p1, p2) == Line(Sub3(Scale3(p2[4], PlaneN(p1)), Scale3(p1[4], PlaneN(p2))), Cross(PlaneN(p1), PlaneN(p2)))
OnPlane(pl, x) == Dot(PlaneN(pl), x) + pl[4] = 0

Contains(L, x) == Cross(L.w, x) = L.v                      \* x on L  <=>  w x x = v
Constraint(L)  == Dot(L.v, L.w) = 0
Parallel(L, M) == Cross(L.w, M.w) = <<0, 0, 0>>
Recip(L, M)    == Dot(L.w, M.v) + Dot(M.w, L.v)            \* reciprocal product (unnormalised)
Meets(L, M)    == ~Parallel(L, M) /\ Recip(L, M) = 0
\* same oriented line under positive rescaling of the direction
SameLine(L, M) == \E k \in 1..6 : \E j \in 1..6 :
                     Scale3(k, L.w) = Scale3(j, M.w) /\ Scale3(k, L.v) = Scale3(j, M.v)

\* principal point pp = v x w / (w.w) ;  foot of the perpendicular from x:  pp + ((x - pp).w / w.w) w
PP(L)          == [n |-> Cross(L.v, L.w), d |-> Dot(L.w, L.w)]
\* closest point to x, over the denominator (w.w):  numerator = v x w + (x.w) w      (pp.w = 0)
Foot(L, x)     == [n |-> Add3(Cross(L.v, L.w), Scale3(Dot(x, L.w), L.w)), d |-> Dot(L.w, L.w)]
\* squared distance from x to L: |w x x - v|^2 / (w.w)
Dist2Point(L, x) == LET r == Sub3(Cross(L.w, x), L.v) IN [n |-> Dot(r, r), d |-> Dot(L.w, L.w)]
\* line parameter of the foot times |w| :  (x - pp).w = x.w
LamTimesNorm(L, x) == Dot(x, L.w)
\* squared distance between two lines
Dist2Lines(L, M) ==
  IF Parallel(L, M)
  THEN LET P == PP(L)                         \* a point of L (rational): distance from it to M
           \* |M.w x P - M.v|^2 / (M.w.M.w) with P = P.n / P.d
           r == Sub3(Cross(M.w, P.n), Scale3(P.d, M.v))
       IN [n |-> Dot(r, r), d |-> P.d * P.d * Dot(M.w, M.w)]
  ELSE LET c == Cross(L.w, M.w) IN [n |-> Recip(L, M) * Recip(L, M), d |-> Dot(c, c)]
\* intersection with a plane:  p = (v x n - d w) / (w.n)
HitPlane(L, pl) == [n |-> Sub3(Cross(L.v, PlaneN(pl)), Scale3(pl[4], L.w)), d |-> Dot(L.w, PlaneN(pl))]
\* rigid motion applied to a line = the line through the transformed points (over the motion's denominators)
ActInt(m, P)   == Act(m, [v |-> P, d |-> 1])            \* rational point [v, d]

\* ---- theorems on integer boxes ------------------------------------------------------------
PtsBox == T3(1)
ThConstraint == \A P \in PtsBox : \A Q \in PtsBox : P # Q => Constraint(LinePQ(P, Q))
ThContainsDef == \A P \in PtsBox : \A Q \in PtsBox : P # Q =>
                    LET L == LinePQ(P, Q) IN Contains(L, P) /\ Contains(L, Q) /\ Contains(L, Add3(P, Sub3(P, Q)))
ThPPonLine   == \A P \in PtsBox : \A Q \in PtsBox : P # Q =>
                    LET L == LinePQ(P, Q)  pp == PP(L) IN
                    /\ Cross(L.w, pp.n) = Scale3(pp.d, L.v)               \* pp is on the line
                    /\ Dot(pp.n, L.w) = 0                                 \* and is the foot of the perpendicular from 0
ThFoot       == \A P \in PtsBox : \A Q \in PtsBox : \A x \in {<<2,-1,3>>, <<0,0,0>>, <<1,1,1>>} : P # Q =>
                    LET L == LinePQ(P, Q)  f == Foot(L, x) IN
                    /\ Cross(L.w, f.n) = Scale3(f.d, L.v)                                  \* on the line
                    /\ Dot(Sub3(Scale3(f.d, x), f.n), L.w) = 0                             \* x - foot is orthogonal to w
ThPlanesLine == \A n1 \in {<<1,0,0>>, <<1,1,0>>, <<1,2,-1>>} : \A n2 \in {<<0,1,0>>, <<0,1,1>>, <<2,0,1>>} :
                    \A p \in {<<1,2,3>>, <<0,0,0>>} :
                    LET pl1 == PlanePN(p, n1)  pl2 == PlanePN(Add3(p, <<1,-1,2>>), n2)  L == LinePlanes(pl1, pl2) IN
                    /\ Constraint(L)
                    /\ (L.w # <<0,0,0>> =>
                          LET pp == PP(L) IN                       \* the principal point lies on both planes
                          Dot(PlaneN(pl1), pp.n) + pl1[4] * pp.d = 0 /\ Dot(PlaneN(pl2), pp.n) + pl2[4] * pp.d = 0)
ThHitPlane   == \A P \in PtsBox : \A Q \in PtsBox : \A pl \in {<<0,0,1,-2>>, <<1,1,1,0>>, <<1,-2,0,3>>} : P # Q =>
                    LET L == LinePQ(P, Q)  h == HitPlane(L, pl) IN
                    h.d # 0 => /\ Cross(L.w, h.n) = Scale3(h.d, L.v)                       \* on the line
                               /\ Dot(PlaneN(pl), h.n) + pl[4] * h.d = 0                   \* on the plane
=============================================================================
