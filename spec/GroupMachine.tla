---------------------------- MODULE GroupMachine ----------------------------
(***************************************************************************)
(* The group layer of spatialmath as a state machine over the exact        *)
(* domain of ExactRigid: an accumulator `acc` (the value of a pose         *)
(* expression) is transformed by the public group operations               *)
(*   X * G,  G * X,  X / G,  X.inv(),  X ** n                              *)
(* with operands G drawn from a constant set of leaves.  A behaviour is an *)
(* expression tree evaluated left to right; `hist` records it for replay.  *)
(* The same machine serves SO3, SE3, UnitQuaternion, Twist3 (all of SE(3)  *)
(* or its rotation part) and, on planar leaves, SO2, SE2, Twist2.          *)
(***************************************************************************)
EXTENDS ExactRigid, Json

CONSTANTS Starts,        \* initial values of the accumulator
          Leaves,        \* operands
          Exps,          \* exponents for **
          MaxDepth,      \* -1: unbounded (lattice closure), else number of operations
          TBound,        \* -1: no bound, else |t_i| <= TBound * d  (keeps the lattice finite)
          MaxQN, MaxDen, \* size bounds that keep 32-bit arithmetic exact
          Export,        \* "edges" | "hist" | "none"
          Rep0,          \* initial representation ("all": representation-agnostic behaviour, replayed in every class)
          Convs          \* enabled conversions, a set of <<from, to>> pairs

VARIABLES acc, dep, last, hist, rep
vars == <<acc, dep, last, hist, rep>>

\* representations (classes) of a motion; those in RotOnlyReps carry no translation
Reps3 == {"SO3", "SE3", "UnitQuaternion", "Twist3", "UnitDualQuaternion"}
Reps2 == {"SO2", "SE2", "Twist2"}
RotOnlyReps == {"SO3", "UnitQuaternion", "SO2"}
\* every conversion the library offers between representations of the same motion (C04)
AllConvs == { <<"SO3", "UnitQuaternion">>, <<"UnitQuaternion", "SO3">>, <<"SO3", "SE3">>, <<"SE3", "SO3">>,
              <<"UnitQuaternion", "SE3">>, <<"SE3", "UnitQuaternion">>, <<"SE3", "Twist3">>, <<"Twist3", "SE3">>,
              <<"SE3", "UnitDualQuaternion">>, <<"UnitDualQuaternion", "SE3">>,
              <<"SO2", "SE2">>, <<"SE2", "SO2">>, <<"SE2", "Twist2">>, <<"Twist2", "SE2">>, <<"SE2", "SE3">> }
\* operations each representation offers
HasDiv(r) == r \in {"all", "SO3", "SE3", "UnitQuaternion", "SO2", "SE2"}
HasPow(r) == r \in {"all", "SO3", "SE3", "UnitQuaternion", "SO2", "SE2"}
HasInv(r) == r # "UnitDualQuaternion"

InBounds(m) ==
  /\ QN(m.q) <= MaxQN /\ m.d <= MaxDen
  /\ \A i \in 1..3 : Abs(m.t[i]) <= 8 * m.d
  /\ (TBound >= 0 => \A i \in 1..3 : Abs(m.t[i]) <= TBound * m.d)

Init ==
  /\ acc \in Starts
  /\ dep = 0
  /\ last = [op |-> "init"]
  /\ rep = Rep0
  /\ (Rep0 \in RotOnlyReps => acc = Rot(acc))
  /\ (Rep0 \in Reps2 => Planar(acc))
  /\ hist = IF Export = "hist" THEN << [call |-> [op |-> "init"], post |-> Hom(acc), rep |-> Rep0] >> ELSE <<>>

\* the value an operand g takes in representation r (rotation-only classes drop the translation)
InRep(r, g) == IF r \in RotOnlyReps THEN Rot(g) ELSE g

StepR(call, new, r) ==
  /\ (MaxDepth >= 0 => dep < MaxDepth)
  /\ InBounds(new)
  /\ rep' = r
  /\ acc' = new
  /\ dep' = IF MaxDepth >= 0 THEN dep + 1 ELSE 0
  /\ last' = call
  /\ hist' = IF Export = "hist" THEN Append(hist, [call |-> call, post |-> Hom(new), rep |-> r]) ELSE hist

Step(call, new) == StepR(call, new, rep)

OperandOK(g) == rep \in Reps2 => Planar(g)
MulR(g) == OperandOK(g) /\ Step([op |-> "mulr", g |-> Hom(InRep(rep, g))], Compose(acc, InRep(rep, g)))   \* acc * g
MulL(g) == OperandOK(g) /\ Step([op |-> "mull", g |-> Hom(InRep(rep, g))], Compose(InRep(rep, g), acc))   \* g * acc
DivR(g) == OperandOK(g) /\ HasDiv(rep) /\ Step([op |-> "divr", g |-> Hom(InRep(rep, g))], Div(acc, InRep(rep, g)))
InvA    == HasInv(rep) /\ Step([op |-> "inv"], Inv(acc))
PowA(n) == HasPow(rep) /\ Step([op |-> "pow", n |-> n], Pow(acc, n))

\* conversion to another representation of the same motion: the abstract value is unchanged
\* (C04), except that a rotation-only class forgets the translation
Conv(c) ==
  /\ c \in Convs /\ c[1] = rep
  /\ (c[2] \in Reps2 => Planar(acc))
  /\ StepR([op |-> "conv", from |-> c[1], to |-> c[2]], InRep(c[2], acc), c[2])

\* powers are taken only where 32-bit integer arithmetic stays exact
PowOK(n) == acc.d <= 4 /\ (QN(acc.q) <= 4 \/ (Abs(n) <= 3 /\ QN(acc.q) <= 7))

Next ==
  \/ \E g \in Leaves : MulR(g)
  \/ \E g \in Leaves : MulL(g)
  \/ \E g \in Leaves : DivR(g)
  \/ InvA
  \/ \E n \in Exps : PowOK(n) /\ PowA(n)
  \/ \E c \in AllConvs : Conv(c)

Spec == Init /\ [][Next]_vars

\* ---- properties of the exact model (the oracle is itself checked) ----------------
C01_Closure == Valid(acc)
\* LawDepth: laws are evaluated on states of depth <= LawDepth (deeper values are still replayed,
\* but their triple products would leave the exact 32-bit range); -1 = everywhere
LawHere     == MaxDepth < 0 \/ dep = 0
C02_Pair    == LawHere => \A g \in Leaves : LawsPair(acc, g)
C02_Triple  == LawHere => \A g \in Leaves : \A h \in Leaves : LawsTriple(acc, g, h)
C02_Pow     == LawHere => \A n \in Exps : (n >= 0 /\ PowOK(n) /\ PowOK(n + 1)) => LawsPow(acc, n)
\* structured inverse = matrix inverse:  Hom(Inv m) * Hom(m) = den * den' * I  (first column shown
\* by the rotation law, translation by Act)
C02_InvActs == LawHere => \A g \in Leaves : Act(Inv(acc), Act(acc, [v |-> g.t, d |-> g.d])) = [v |-> Canon(g).t, d |-> Canon(g).d]
C06_ActHom  == LawHere => \A g \in Leaves : \A h \in Leaves :
                 Act(Compose(acc, g), [v |-> h.t, d |-> h.d]) = Act(acc, Act(g, [v |-> h.t, d |-> h.d]))
CanonState  == acc = Canon(acc)
\* C04 on the model: conversion never changes the motion beyond forgetting what the class cannot hold
C04_ConvKeeps == [][ last'.op = "conv" => acc' = InRep(rep', acc) ]_vars
C04_RepShape  == /\ (rep \in RotOnlyReps => acc = Rot(acc))
                 /\ (rep \in Reps2 => Planar(acc))

View == <<acc, rep>>

EdgeOut ==
  IF Export = "edges"
  THEN PrintT(ToJson([pre |-> Hom(acc), call |-> last', post |-> Hom(acc'), rep |-> rep, rep2 |-> rep']))
  ELSE TRUE

HistOut ==
  IF Export = "hist" /\ dep = MaxDepth THEN PrintT(ToJson(hist)) ELSE TRUE
=============================================================================
