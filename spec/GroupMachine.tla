---------------------------- MODULE GroupMachine ----------------------------
(***************************************************************************)
(* The group layer of spatialmath as a state machine over the exact        *)
(* domain of ExactRigid: an accumulator `acc` (the value of a pose         *)
(* expression) is transformed by the public group operations               *)
(*   X * G,  G * X,  X / G,  X.inv(),  X ** n                              *)
(* with operands G drawn from a constant set of leaves.  A behaviour is an *)
(* expression tree evaluated left to right; `hist` records it for replay.  *)
(* The same machine serves SO3, SE3, UnitQuaternion, Twist3 (all of SE(3)  *)
(* or its rotation part) and, on planar leaves, SO2, SE2, Twist2.          *)
(***************************************************************************)
EXTENDS ExactRigid, Json

CONSTANTS Starts,        \* initial values of the accumulator
          Leaves,        \* operands
          Exps,          \* exponents for **
          MaxDepth,      \* -1: unbounded (lattice closure), else number of operations
          TBound,        \* -1: no bound, else |t_i| <= TBound * d  (keeps the lattice finite)
          MaxQN, MaxDen, \* size bounds that keep 32-bit arithmetic exact
          Export         \* "edges" | "hist" | "none"

VARIABLES acc, dep, last, hist
vars == <<acc, dep, last, hist>>

InBounds(m) ==
  /\ QN(m.q) <= MaxQN /\ m.d <= MaxDen
  /\ \A i \in 1..3 : Abs(m.t[i]) <= 8 * m.d
  /\ (TBound >= 0 => \A i \in 1..3 : Abs(m.t[i]) <= TBound * m.d)

Init ==
  /\ acc \in Starts
  /\ dep = 0
  /\ last = [op |-> "init"]
  /\ hist = IF Export = "hist" THEN << [call |-> [op |-> "init"], post |-> Hom(acc)] >> ELSE <<>>

Step(call, new) ==
  /\ (MaxDepth >= 0 => dep < MaxDepth)
  /\ InBounds(new)
  /\ acc' = new
  /\ dep' = IF MaxDepth >= 0 THEN dep + 1 ELSE 0
  /\ last' = call
  /\ hist' = IF Export = "hist" THEN Append(hist, [call |-> call, post |-> Hom(new)]) ELSE hist

MulR(g) == Step([op |-> "mulr", g |-> Hom(g)], Compose(acc, g))     \* acc * g
MulL(g) == Step([op |-> "mull", g |-> Hom(g)], Compose(g, acc))     \* g * acc
DivR(g) == Step([op |-> "divr", g |-> Hom(g)], Div(acc, g))         \* acc / g
InvA    == Step([op |-> "inv"], Inv(acc))
PowA(n) == Step([op |-> "pow", n |-> n], Pow(acc, n))

\* powers are taken only where 32-bit integer arithmetic stays exact
PowOK(n) == acc.d <= 4 /\ (QN(acc.q) <= 4 \/ (Abs(n) <= 3 /\ QN(acc.q) <= 7))

Next ==
  \/ \E g \in Leaves : MulR(g)
  \/ \E g \in Leaves : MulL(g)
  \/ \E g \in Leaves : DivR(g)
  \/ InvA
  \/ \E n \in Exps : PowOK(n) /\ PowA(n)

Spec == Init /\ [][Next]_vars

\* ---- properties of the exact model (the oracle is itself checked) ----------------
C01_Closure == Valid(acc)
\* LawDepth: laws are evaluated on states of depth <= LawDepth (deeper values are still replayed,
\* but their triple products would leave the exact 32-bit range); -1 = everywhere
LawHere     == MaxDepth < 0 \/ dep = 0
C02_Pair    == LawHere => \A g \in Leaves : LawsPair(acc, g)
C02_Triple  == LawHere => \A g \in Leaves : \A h \in Leaves : LawsTriple(acc, g, h)
C02_Pow     == LawHere => \A n \in Exps : (n >= 0 /\ PowOK(n) /\ PowOK(n + 1)) => LawsPow(acc, n)
\* structured inverse = matrix inverse:  Hom(Inv m) * Hom(m) = den * den' * I  (first column shown
\* by the rotation law, translation by Act)
C02_InvActs == LawHere => \A g \in Leaves : Act(Inv(acc), Act(acc, [v |-> g.t, d |-> g.d])) = [v |-> Canon(g).t, d |-> Canon(g).d]
C06_ActHom  == LawHere => \A g \in Leaves : \A h \in Leaves :
                 Act(Compose(acc, g), [v |-> h.t, d |-> h.d]) = Act(acc, Act(g, [v |-> h.t, d |-> h.d]))
CanonState  == acc = Canon(acc)

View == acc

EdgeOut ==
  IF Export = "edges"
  THEN PrintT(ToJson([pre |-> Hom(acc), call |-> last', post |-> Hom(acc')]))
  ELSE TRUE

HistOut ==
  IF Export = "hist" /\ dep = MaxDepth THEN PrintT(ToJson(hist)) ELSE TRUE
=============================================================================
