------------------------------ MODULE LineCases ------------------------------
(***************************************************************************)
(* Case generator for C19: one construction / query per behaviour, with    *)
(* the exact answers of ExactLine.  Line pairs are CONSTRUCTED in general, *)
(* parallel, intersecting and coincident position, so the ground truth is  *)
(* known by construction and re-derived by the division-free predicates.   *)
(***************************************************************************)
EXTENDS ExactLine

CONSTANTS Pts, Dirs, Motions, Planes, Xs

VARIABLES c, ans
vars == <<c, ans>>
Init == c = [k |-> "none"] /\ ans = [k |-> "none"]
Do(cc, aa) == c.k = "none" /\ c' = cc /\ ans' = aa

LineAns(L) == [v |-> L.v, w |-> L.w, pp |-> PP(L)]

CaseLine(P, Q, x, j) ==
  /\ P # Q
  /\ LET L == LinePQ(P, Q) IN
     Do([k |-> "line", P |-> P, Q |-> Q, x |-> x, j |-> j],
        [line |-> LineAns(L),
         pointj |-> [n |-> Add3(PP(L).n, Scale3(j * Dot(L.w, L.w), L.w)), d |-> Dot(L.w, L.w)],   \* point(j |w|)
         foot |-> Foot(L, x), dist2 |-> Dist2Point(L, x), lamn |-> LamTimesNorm(L, x),
         xon |-> Contains(L, x)])

CasePointDir(P, D) ==
  Do([k |-> "pointdir", P |-> P, D |-> D], [line |-> LineAns(LinePD(P, D))])

CasePlanes(p1, p2) ==
  /\ Cross(PlaneN(p1), PlaneN(p2)) # <<0,0,0>>
  /\ Do([k |-> "planes", p1 |-> p1, p2 |-> p2], [line |-> LineAns(LinePlanes(p1, p2))])

CaseTransform(m, P, Q) ==
  /\ P # Q
  /\ Do([k |-> "transform", m |-> Hom(m), P |-> P, Q |-> Q],
        [TP |-> ActInt(m, P), TQ |-> ActInt(m, Q), Rw |-> ActInt(Rot(m), Sub3(P, Q))])

\* pairs of lines in constructed position
CasePair(kind, P, Q, R, a, b) ==
  /\ P # Q
  /\ LET w  == Sub3(P, Q)
         L1 == LinePQ(P, Q)
         L2 == CASE kind = "general"      -> LinePQ(R, Add3(R, <<a, b, 1>>))
                 [] kind = "parallel"     -> LinePQ(Add3(R, Scale3(a, w)), R)                  \* direction a w through R
                 [] kind = "intersecting" -> LinePQ(Add3(P, Scale3(a, w)), R)                  \* through a point of L1 and R
                 [] kind = "coincident"   -> LinePQ(Add3(P, Scale3(a + b, w)), Add3(P, Scale3(b, w)))   \* direction a w, a > 0
                 [] kind = "reversed"     -> LinePQ(Add3(P, Scale3(b, w)), Add3(P, Scale3(a + b, w)))   \* same points, direction -a w
     IN /\ a # 0
        /\ L2.w # <<0,0,0>>
        /\ (kind = "general"      => ~Parallel(L1, L2) /\ Recip(L1, L2) # 0)
        /\ (kind = "parallel"     => ~Contains(L1, R))
        /\ (kind = "intersecting" => ~Contains(L1, R))
        /\ (kind \in {"coincident", "reversed"} => a > 0)
        /\ Do([k |-> "pair", kind |-> kind, L1 |-> [P |-> P, Q |-> Q],
               L2 |-> [v |-> L2.v, w |-> L2.w], X |-> Add3(P, Scale3(a, w))],
              [parallel |-> Parallel(L1, L2), meets |-> Meets(L1, L2), same |-> SameLine(L1, L2),
               dist2 |-> Dist2Lines(L1, L2), recip |-> Recip(L1, L2)])

\* a NEARLY parallel pair: L1 through P, Q with direction w = P - Q; L2 through R with direction K w + e where e is
\* orthogonal to w and non-zero.  For EVERY K >= 1 the pair is not parallel, the common normal is w x e and the lines
\* meet exactly when (R - P) . (w x e) = 0 (theorem ThNear below, checked for several K); so the answers can be stated
\* without the huge K (2^10 .. 2^24, i.e. angles down to 1e-8) that the harness uses for the direction w + e / K.
NearL2(P, Q, x, R, K) == LinePD(R, Add3(Scale3(K, Sub3(P, Q)), Cross(Sub3(P, Q), x)))
CaseNear(P, Q, x, R, kexp) ==
  /\ P # Q
  /\ LET w == Sub3(P, Q)  e == Cross(w, x)  n == Cross(w, e) IN
     /\ e # <<0,0,0>>
     /\ Do([k |-> "near", P |-> P, Q |-> Q, e |-> e, R |-> R, kexp |-> kexp],
           [parallel |-> FALSE, meets |-> (Dot(Sub3(R, P), n) = 0), n |-> n])

ThNear == \A P \in Pts : \A Q \in Pts : \A x \in Dirs : \A R \in Pts : \A K \in {1, 2, 3, 8} :
  (P # Q /\ Cross(Sub3(P, Q), x) # <<0,0,0>>) =>
    LET w == Sub3(P, Q)  e == Cross(w, x)  n == Cross(w, e)  L1 == LinePQ(P, Q)  L2 == NearL2(P, Q, x, R, K) IN
    /\ ~Parallel(L1, L2)
    /\ Cross(L1.w, L2.w) = n
    /\ (Meets(L1, L2) <=> Dot(Sub3(R, P), n) = 0)

CaseHit(P, Q, pl) ==
  /\ P # Q
  /\ LET L == LinePQ(P, Q)  h == HitPlane(L, pl) IN
     /\ h.d # 0
     /\ Do([k |-> "hit", P |-> P, Q |-> Q, pl |-> pl], [p |-> h])

CasePlanePts(p, n, q1, q2) ==
  /\ Cross(Sub3(q1, p), Sub3(q2, p)) # <<0,0,0>>
  /\ Do([k |-> "plane", p |-> p, n |-> n, q1 |-> q1, q2 |-> q2],
        [pn |-> PlanePN(p, n), n3 |-> Cross(Sub3(q1, p), Sub3(q2, p))])

Next ==
  \/ \E P \in Pts : \E Q \in Pts : \E x \in Xs : \E j \in {-2, 0, 1, 3} : CaseLine(P, Q, x, j)
  \/ \E P \in Pts : \E D \in Dirs : CasePointDir(P, D)
  \/ \E p1 \in Planes : \E p2 \in Planes : CasePlanes(p1, p2)
  \/ \E m \in Motions : \E P \in Pts : \E Q \in Pts : CaseTransform(m, P, Q)
  \/ \E kind \in {"general", "parallel", "intersecting", "coincident", "reversed"} : \E P \in Pts : \E Q \in Pts : \E R \in Pts :
        \E a \in {-2, 3} : \E b \in {2} : CasePair(kind, P, Q, R, a, b)
  \/ \E P \in Pts : \E Q \in Pts : \E x \in Dirs : \E R \in Pts : \E kexp \in {10, 16, 22, 24} : CaseNear(P, Q, x, R, kexp)
  \/ \E P \in Pts : \E Q \in Pts : \E pl \in Planes : CaseHit(P, Q, pl)
  \/ \E p \in Pts : \E n \in Dirs : \E q1 \in Xs : \E q2 \in Pts : CasePlanePts(p, n, q1, q2)

\* consistency of the constructions with the division-free predicates
PairSanity ==
  c.k = "pair" =>
    /\ (c.kind = "parallel"     => ans.parallel /\ ~ans.meets /\ ~ans.same /\ ans.dist2.n > 0)
    /\ (c.kind = "intersecting" => ~ans.parallel /\ ans.meets /\ ans.dist2.n = 0)
    /\ (c.kind = "coincident"   => ans.parallel /\ ans.same /\ ans.dist2.n = 0)
    \* the same set of points with the OPPOSITE orientation is a different (oriented) line
    /\ (c.kind = "reversed"     => ans.parallel /\ ~ans.same /\ ans.dist2.n = 0)
    /\ (c.kind = "general"      => ~ans.parallel /\ ~ans.meets /\ ans.dist2.n > 0)

EdgeOut == PrintT(ToJson([c |-> c', ans |-> ans']))
=============================================================================
