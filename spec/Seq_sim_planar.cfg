INIT Init
NEXT Next
CONSTANTS
  Leaves <- PlanarFew
  OperandSeqs <- SeqsPlanar
  MaxLen = 4
  MaxDepth = 12
  Exps <- ExpsSmall
  RotOnly = FALSE
  Export = "hist"
INVARIANT AllValid
INVARIANT HistOut
CHECK_DEADLOCK FALSE
