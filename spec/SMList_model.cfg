INIT Init
NEXT Next
CONSTANTS
  StartLens <- Len0to4
  MaxDepth = 4
  MaxLen = 40
  Idx <- IdxFull
  SlStart <- SlSmallA
  SlStop <- SlSmallB
  SlStep <- StepSmall
  ExtK <- K0to3
  Export = "none"
VIEW View
INVARIANT TypeOK
INVARIANT NoDuplicates
INVARIANT OnlyKnownIds
INVARIANT SliceSanity
PROPERTY FailedUnchanged
PROPERTY ReadOnlyUnchanged
PROPERTY LenDelta
CHECK_DEADLOCK FALSE
