----------------------------- MODULE MC_SMList -----------------------------
EXTENDS SMList
IdxFull   == -7..7
SlFull    == (-7..7) \cup {None}
StepFull  == {-3, -2, -1, 1, 2, 3, None}
IdxSmall  == {-7, -2, -1, 0, 1, 7}
SlSmallA  == {None, 1, -2}
SlSmallB  == {None, -1, 2}
StepSmall == {None, -1, 2}
IdxSim    == -4..4
SlSim     == {None, -3, -1, 0, 1, 2, 5}
StepSim   == {None, -2, -1, 1, 2}
Len0to12  == 0..12
Len0to4   == 0..4
Len0to3   == 0..3
K0to3     == 0..3
K02       == {0, 1, 2}
=============================================================================
