----------------------------- MODULE ExactSpatial -----------------------------
(***************************************************************************)
(* Featherstone's spatial algebra over the integers (C20).  Spatial         *)
(* vectors are 6-tuples (linear part, angular part) as in the library.      *)
(***************************************************************************)
EXTENDS ExactLie, Json, IOUtils

Lin(s) == << s[1], s[2], s[3] >>
Ang(s) == << s[4], s[5], s[6] >>
V6Add(a, b) == [i \in 1..6 |-> a[i] + b[i]]
V6Sub(a, b) == [i \in 1..6 |-> a[i] - b[i]]
V6Neg(a)    == [i \in 1..6 |-> -a[i]]
Dot6(a, b)  == DotN(a, b)

\* motion cross product matrix  crm(v) = [[skew(w), skew(v)], [0, skew(w)]] ; force: crf(v) = -crm(v)'
Crm(s) == adS(s)
Crf(s) == MScale(-1, MT(Crm(s)))
CrossMotion(v, m) == MVec(Crm(v), m)
CrossForce(v, f)  == MVec(Crf(v), f)

\* spatial inertia of mass m, centre of mass c, rotational inertia J (3x3, about the centre of mass):
\*   [[m 1, m C'], [m C, J + m C C']]   with C = skew(c)
Inertia(m, c, J) ==
  LET C == Skew3(c) IN
  Block(ScaleM(m, Ident3), ScaleM(m, Transpose(C)), ScaleM(m, C), MAdd(J, ScaleM(m, MatMul(C, Transpose(C)))))

\* ---- theorems ----------------------------------------------------------------------------
ThDuality == \A v \in Basis6 : \A f \in Basis6 : \A m \in Basis6 :
               Dot6(CrossForce(v, f), m) = -Dot6(f, CrossMotion(v, m))                 \* trilinear: basis suffices
ThCrmSelf == \A v \in Basis6 : CrossMotion(v, v) = [i \in 1..6 |-> 0]                   \* v x v = 0
SymJ == { << <<2,0,0>>, <<0,3,0>>, <<0,0,4>> >>, << <<2,1,0>>, <<1,3,-1>>, <<0,-1,4>> >>, << <<5,-2,1>>, <<-2,6,0>>, <<1,0,7>> >> }
ThInertiaSym == \A m \in 1..3 : \A c \in T3(1) : \A J \in SymJ : MT(Inertia(m, c, J)) = Inertia(m, c, J)
\* parallel axis: the lower-right block is J + m (|c|^2 1 - c c')
ThParallelAxis == \A m \in 1..3 : \A c \in T3(2) : \A J \in SymJ :
               LET I6 == Inertia(m, c, J)
                   cc == [i \in 1..3 |-> [k \in 1..3 |-> (IF i = k THEN Dot(c, c) ELSE 0) - c[i] * c[k]]]
               IN [i \in 1..3 |-> [k \in 1..3 |-> I6[i + 3][k + 3]]] = MAdd(J, ScaleM(m, cc))
SymJChoice == << <<2,1,0>>, <<1,3,-1>>, <<0,-1,4>> >>
\* momentum of a body translating with velocity v (no rotation): linear momentum m v
ThMomentum == \A m \in 1..3 : \A c \in T3(1) : \A v \in Basis3 :
               Lin(MVec(Inertia(m, c, SymJChoice), << v[1], v[2], v[3], 0, 0, 0 >>)) = Scale3(m, v)

\* ---- judge of recorded events ------------------------------------------------------------
Log == ndJsonDeserialize(IOEnv.TRACE)
VARIABLES l, bad
FlatM(M) == LET RECURSIVE F(_)
                F(i) == IF i > Len(M) THEN << >> ELSE M[i] \o F(i + 1)
            IN F(1)
Unflat3(v) == [i \in 1..3 |-> [j \in 1..3 |-> v[(i - 1) * 3 + j]]]
Unflat6(v) == [i \in 1..6 |-> [j \in 1..6 |-> v[(i - 1) * 6 + j]]]
Mot(e) == Mk(e.q, e.t, e.d)
Expected(e) ==
  CASE e.fn = "add"      -> V6Add(e.a, e.b)
    [] e.fn = "sub"      -> V6Sub(e.a, e.b)
    [] e.fn = "neg"      -> V6Neg(e.a)
    \* objects holding N values (flattened N x 6): element-wise, value k of the result from value k of the operands -
    \* N = 6 included (a 6 x 6 block of values must not be read as a 6 x N matrix of columns)
    [] e.fn = "addn"     -> [i \in 1..Len(e.a) |-> e.a[i] + e.b[i]]
    [] e.fn = "subn"     -> [i \in 1..Len(e.a) |-> e.a[i] - e.b[i]]
    [] e.fn = "negn"     -> [i \in 1..Len(e.a) |-> -e.a[i]]
    [] e.fn = "crm"      -> CrossMotion(e.a, e.b)
    [] e.fn = "crf"      -> CrossForce(e.a, e.b)
    \* v x (K v + d) = v x d  (bilinear, v x v = 0): operands that are NEARLY equal - the harness passes K v + d with a
    \* large K, which 32-bit arithmetic here need not represent
    [] e.fn = "crm_near" -> CrossMotion(e.a, e.d)
    [] e.fn = "inertia"  -> FlatM(Inertia(e.m, e.c, Unflat3(e.J)))
    [] e.fn = "inertia_add" -> FlatM(MAdd(Inertia(e.m, e.c, Unflat3(e.J)), Inertia(e.m2, e.c2, Unflat3(e.J2))))
    [] e.fn = "inertia_mul" -> MVec(Inertia(e.m, e.c, Unflat3(e.J)), e.a)
    [] e.fn = "se3_motion"  -> MVec(AdNum(Mot(e)), e.a)                  \* times AdDen
    [] e.fn = "se3_force"   -> MVec(MT(AdNum(Mot(e))), e.a)              \* times AdDen
    [] OTHER -> << >>
Init == l = 1 /\ bad = <<>>
Next == /\ l <= Len(Log)
        /\ bad' = IF Log[l].res = Expected(Log[l]) THEN bad ELSE Append(bad, l)
        /\ l' = l + 1
Final == l <= Len(Log) \/ JsonSerialize(IOEnv.VERDICT, [lines |-> Len(Log), rejected |-> bad])
TraceDone == TLCGet("stats").diameter - 1 = Len(Log)
=============================================================================
