----------------------------- MODULE MC_ExactLie -----------------------------
EXTENDS ExactLie
VARIABLE x
Init == x = 0
Next == x' = x
Lat == { Mk(q, t, 1) : q \in CubeQ, t \in {<<0,0,0>>, <<1,0,0>>, <<0,1,-1>>, <<1,2,3>>} }
Rat == { Mk(<<2,1,0,0>>, <<1,0,0>>, 1), Mk(<<2,0,1,0>>, <<0,-1,2>>, 1), Mk(<<2,1,1,0>>, <<1,1,1>>, 2),
         Mk(<<1,1,1,0>>, <<0,2,-1>>, 1), Mk(<<2,1,-1,1>>, <<-2,0,1>>, 1), Mk(<<3,1,0,0>>, <<0,0,1>>, 1),
         Mk(<<1,2,2,0>>, <<0,0,0>>, 1) }
Plan == { Mk(q, t, d) : q \in { <<1,0,0,0>>, <<1,0,0,1>>, <<0,0,0,1>>, <<1,0,0,-1>>, <<2,0,0,1>>, <<3,0,0,-1>>, <<3,0,0,2>> },
                        t \in { <<0,0,0>>, <<1,0,0>>, <<0,-2,0>>, <<3,1,0>> }, d \in {1, 2} }
ASSUME \A m \in Plan : Planar(m)
ASSUME ThAd2Hom(Plan)
ASSUME ThAd2Inv(Plan)
ASSUME ThAd2Vee(Plan)
ASSUME ThAd2Embed(Plan)
ASSUME ThSkewCross
ASSUME ThVexSkew
ASSUME ThSkewSym
ASSUME ThAdHom(Lat)
ASSUME ThAdHom(Rat)
ASSUME ThAdInv(Lat \cup Rat)
ASSUME ThAdVee(Lat \cup Rat)
ASSUME ThDelta
ASSUME ThAdOrder4
=============================================================================
