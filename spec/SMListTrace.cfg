INIT TraceInit
NEXT TraceNext
CONSTANTS
  StartLens = {0}
  MaxDepth = 100000000
  MaxLen = 1000
  Idx = {0}
  SlStart = {0}
  SlStop = {0}
  SlStep = {1}
  ExtK = {0}
  Export = "none"
POSTCONDITION TraceDone
INVARIANT Final
CHECK_DEADLOCK FALSE
