------------------------------- MODULE LieTrace -------------------------------
(***************************************************************************)
(* TLC as judge of recorded events of the Lie-algebra maps, adjoint,       *)
(* Jacobian and differential-motion functions (C13), executed on integer   *)
(* vectors and on lattice / rational rigid motions [q, t, d].              *)
(***************************************************************************)
EXTENDS ExactLie, Json, IOUtils

Log == ndJsonDeserialize(IOEnv.TRACE)
VARIABLES l, bad
vars == <<l, bad>>

FlatM(M) == LET RECURSIVE F(_)
                F(i) == IF i > Len(M) THEN << >> ELSE M[i] \o F(i + 1)
            IN F(1)
Unflat(v, n) == [i \in 1..n |-> [j \in 1..n |-> v[(i - 1) * n + j]]]
Mot(e) == Mk(e.q, e.t, e.d)

\* the magnitude n of a twist (v, w): the length of w, or of v when w is null; positive, checked here, not trusted
TwMag3(a, n) == LET v == <<a[1], a[2], a[3]>>  w == <<a[4], a[5], a[6]>>
                IN n > 0 /\ n * n = (IF w = <<0, 0, 0>> THEN DotN(v, v) ELSE DotN(w, w))
TwMag2(a, n) == n > 0 /\ n * n = (IF a[3] = 0 THEN a[1] * a[1] + a[2] * a[2] ELSE a[3] * a[3])

QuarterWrap(k) == CASE k % 4 = 0 -> << 0 >> [] k % 4 = 1 -> << 1 >> [] k % 4 = 3 -> << -1 >> [] OTHER -> << >>

Expected(e) ==
  CASE e.fn = "skew3"    -> FlatM(Skew3(e.a))
    [] e.fn = "skew1"    -> FlatM(Skew1(e.a[1]))
    [] e.fn = "vex3"     -> Vex3(Unflat(e.a, 3))
    [] e.fn = "vex1"     -> << Vex1(Unflat(e.a, 2)) >>
    [] e.fn = "skewa6"   -> FlatM(SkewA6(e.a))
    [] e.fn = "skewa3"   -> FlatM(SkewA3(e.a))
    [] e.fn = "vexa6"    -> VexA6(Unflat(e.a, 4))
    [] e.fn = "vexa3"    -> VexA3(Unflat(e.a, 3))
    [] e.fn = "cross"    -> Cross(e.a, e.b)
    [] e.fn = "ad"       -> FlatM(adS(e.a))
    [] e.fn = "Ad"       -> FlatM(AdNum(Mot(e)))                       \* times AdDen = N d
    [] e.fn = "Ad2"      -> IF Planar(Mot(e)) THEN FlatM(Ad2Num(Mot(e))) ELSE << >>    \* times AdDen = N d
    [] e.fn = "jac"      -> FlatM(JacNum(Mot(e)))                      \* times N
    [] e.fn = "jac_same" -> LET m == Mot(e)  mi == Inv(m)  k == (QN(m.q) * QN(m.q) * m.d) \div AdDen(mi)
                            IN FlatM(MScale(k, AdNum(mi)))             \* times N^2 d
    [] e.fn = "delta2tr" -> FlatM(Delta2Tr(e.a))
    [] e.fn = "tr2delta" -> Tr2DeltaNum(Unflat(e.a, 4), 1)
    \* vector helpers on vectors of length 1, 3, 6 whose norm e.n is an integer (checked here, not trusted)
    [] e.fn = "normsq"   -> << DotN(e.a, e.a) >>
    [] e.fn = "norm"     -> IF e.n >= 0 /\ e.n * e.n = DotN(e.a, e.a) THEN << e.n >> ELSE << >>
    [] e.fn = "unitvec"  -> IF e.n > 0 /\ e.n * e.n = DotN(e.a, e.a) THEN e.a ELSE << >>       \* times |a|
    [] e.fn = "unitvec_norm" -> IF e.n > 0 /\ e.n * e.n = DotN(e.a, e.a) THEN e.a \o << e.n >> ELSE << >>
    \* unit twists: e.a = e.n * (unit twist), e.n the magnitude: |w|, or |v| when the rotational part is null
    [] e.fn = "unittwist"       -> IF TwMag3(e.a, e.n) THEN e.a ELSE << >>
    [] e.fn = "unittwist_norm"  -> IF TwMag3(e.a, e.n) THEN e.a \o << e.n >> ELSE << >>
    [] e.fn = "unittwist2"      -> IF TwMag2(e.a, e.n) THEN e.a ELSE << >>
    [] e.fn = "unittwist2_norm" -> IF TwMag2(e.a, e.n) THEN e.a \o << e.n >> ELSE << >>
    \* angle wrapping on multiples of a quarter turn: e.k quarter turns (minus e.m quarter turns) wrapped to
    \* [-pi, pi), in quarter turns; half-turn differences (the end of the interval) are not given
    [] e.fn = "angdiff1" -> QuarterWrap(e.k)
    [] e.fn = "angdiff2" -> QuarterWrap(e.k - e.m)
    [] OTHER             -> << >>

Init == l = 1 /\ bad = <<>>
Next ==
  /\ l <= Len(Log)
  /\ bad' = IF Log[l].res = Expected(Log[l]) THEN bad ELSE Append(bad, l)
  /\ l' = l + 1
Final == l <= Len(Log) \/ JsonSerialize(IOEnv.VERDICT, [lines |-> Len(Log), rejected |-> bad])
TraceDone == TLCGet("stats").diameter - 1 = Len(Log)
=============================================================================
