INIT Init
NEXT Next
CONSTANTS
  Rep0 = "all"
  Convs <- NoConvs
  Starts <- RatLeaves2
  Leaves <- RatLeaves2
  Exps <- ExpsSmall
  MaxDepth = 5
  TBound <- Unlimited
  MaxQN = 500
  MaxDen = 200
  Export = "hist"
INVARIANT C01_Closure
INVARIANT HistOut
CHECK_DEADLOCK FALSE
