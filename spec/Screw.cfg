INIT Init
NEXT Next
CONSTANTS
  QS <- Q2
  PS <- PFew
  AS <- AFew
  GS <- GFew
  QU <- Q1
  KS <- KFew
  QM <- QMulti
  GM <- GMulti
  PM <- PMulti
ACTION_CONSTRAINT EdgeOut
CHECK_DEADLOCK FALSE
