INIT Init
NEXT Next
CONSTANTS
  QS <- Q2
  PS <- PFew
  AS <- AFew
  GS <- GFew
ACTION_CONSTRAINT EdgeOut
CHECK_DEADLOCK FALSE
