---------------------------- MODULE PointAction ----------------------------
(***************************************************************************)
(* C06: applying a pose to points is the rigid motion p |-> R p + t.       *)
(*                                                                         *)
(* One action per call form of  pose * points :                            *)
(*   OneToMany(m, N, form)  a single pose applied to N points supplied in  *)
(*                          container form `form`  -> N result columns     *)
(*   ManyToOne(k, p)        an object holding k poses applied to one point *)
(*                          -> one column per pose value                   *)
(* The expected columns are computed exactly (ExactRigid!Act).  The laws   *)
(* (XY)p = X(Yp), X^-1 (X p) = p, preservation of distances and of         *)
(* orientation are invariants of the exact model.                          *)
(***************************************************************************)
EXTENDS ExactRigid, Json

CONSTANTS PoseSeq,   \* a sequence of motions
          PSeq,      \* a sequence of integer points (at least 7)
          Forms,     \* container forms of a single point
          MaxN, MaxK

VARIABLES call, out, outR      \* outR: the same points under the rotation part only (R p)
vars == <<call, out, outR>>

Pt(v) == [v |-> v, d |-> 1]
Init == call = [op |-> "none"] /\ out = <<>> /\ outR = <<>>

Poses == { PoseSeq[i] : i \in DOMAIN PoseSeq }
NP == Len(PoseSeq)
PoseAt(i) == PoseSeq[((i - 1) % NP) + 1]
PointAt(i) == PSeq[((i - 1) % Len(PSeq)) + 1]

\* et: element type of the supplied points - Python floats / float64, or Python ints / an INTEGER array (the points
\* are integers; the result is real)
OneToMany(i, N, off, form, et) ==
  /\ call.op = "none"
  /\ (form # "matrix" => N = 1)
  /\ LET m == PoseAt(i) IN
     /\ call' = [op |-> "one-to-many", pose |-> Hom(m), pts |-> [j \in 1..N |-> PointAt(off + j)], form |-> form, et |-> et]
     /\ out'  = [j \in 1..N |-> Act(m, Pt(PointAt(off + j)))]
     /\ outR' = [j \in 1..N |-> Act(Rot(m), Pt(PointAt(off + j)))]

ManyToOne(i, k, off, form) ==
  /\ call.op = "none"
  /\ form # "matrix"
  /\ call' = [op |-> "many-to-one", poses |-> [j \in 1..k |-> Hom(PoseAt(i + j - 1))], pts |-> << PointAt(off + 1) >>, form |-> form]
  /\ out'  = [j \in 1..k |-> Act(PoseAt(i + j - 1), Pt(PointAt(off + 1)))]
  /\ outR' = [j \in 1..k |-> Act(Rot(PoseAt(i + j - 1)), Pt(PointAt(off + 1)))]

\* the laws of the statement as call forms: (X*Y)*p, X*(Y*p) and X.inv()*(X*p), each through every route
ComposeApply(i, k, off, mode) ==
  /\ call.op = "none"
  /\ LET a == PoseAt(i)  b == PoseAt(k)  p == Pt(PointAt(off + 1)) IN
     /\ call' = [op |-> "compose", mode |-> mode, a |-> Hom(a), b |-> Hom(b), pts |-> << PointAt(off + 1) >>, form |-> "array"]
     /\ out'  = << IF mode = "Xinv(Xp)" THEN p ELSE Act(Compose(a, b), p) >>
     /\ outR' = << IF mode = "Xinv(Xp)" THEN p ELSE Act(Rot(Compose(a, b)), p) >>

\* X.inv() * (X * p) == p with a MULTI-valued X: value j of X.inv() applied to column j of X * p gives p back
ManyInvApply(i, k, off) ==
  /\ call.op = "none"
  /\ call' = [op |-> "many-inv", poses |-> [j \in 1..k |-> Hom(PoseAt(i + j - 1))], pts |-> << PointAt(off + 1) >>, form |-> "array"]
  /\ out'  = [j \in 1..k |-> Pt(PointAt(off + 1))]
  /\ outR' = [j \in 1..k |-> Pt(PointAt(off + 1))]

\* valuation case (no exact value): a rotation by a TINY angle, or within a tiny angle of a half turn (angle tag), about an axis, applied to a point through every route;
\* the expected point is Rodrigues' formula evaluated by the harness from the elementary cos / sin
TinyTags == {"1e-9", "1e-8", "1e-7", "4e-7", "1e-6", "1e-5", "2pi-1e-7", "pi-1e-9", "pi-1e-7", "pi-1e-5", "pi"}
\* (the tags near pi exercise the other end of the quaternion conversion: scalar part close to 0)
TinyAxes == { <<1,0,0>>, <<0,1,0>>, <<0,0,1>>, <<1,2,2>>, <<2,-3,6>> }
TinyRot(tag, ax, off) ==
  /\ call.op = "none"
  /\ call' = [op |-> "tiny-rotation", tag |-> tag, axis |-> ax, pts |-> << PointAt(off + 1) >>, form |-> "array"]
  /\ out'  = << >>
  /\ outR' = << >>

Next ==
  \/ \E i \in 1..NP : \E k \in 2..MaxK : \E off \in 0..1 : ManyInvApply(i, k, off)
  \/ \E tag \in TinyTags : \E ax \in TinyAxes : \E off \in 0..2 : TinyRot(tag, ax, off)
  \/ \E i \in 1..NP : \E k \in 1..NP : \E off \in 0..1 : \E mode \in {"(XY)p", "X(Yp)", "Xinv(Xp)"} :
        ComposeApply(i, k, off, mode)
  \/ \E i \in 1..NP : \E N \in 1..MaxN : \E off \in 0..2 : \E f \in Forms \cup {"matrix"} : \E et \in {"float", "int"} : OneToMany(i, N, off, f, et)
  \/ \E i \in 1..NP : \E k \in 2..MaxK : \E off \in 0..2 : \E f \in Forms : ManyToOne(i, k, off, f)

Spec == Init /\ [][Next]_vars

\* ---- laws of the exact model -----------------------------------------------------------
RSub(p, q) == [v |-> Sub3(Scale3(q.d, p.v), Scale3(p.d, q.v)), d |-> p.d * q.d]     \* p - q
\* squared distance as a rational <<num, den>> in lowest terms
Dist2(p, q) == LET w == RSub(p, q)  n == Dot(w.v, w.v)  dd == w.d * w.d  g == Gcd(n, dd)
               IN  << n \div g, dd \div g >>
Laws ==
  \A m \in Poses : \A g \in Poses : \A i \in 1..3 : \A k \in 1..3 :
    LET p == Pt(PSeq[i])  q == Pt(PSeq[k + 3]) IN
    /\ Act(Compose(m, g), p) = Act(m, Act(g, p))                       \* (XY)p = X(Yp)
    /\ Act(Inv(m), Act(m, p)) = p                                      \* X^-1 (X p) = p
    /\ Dist2(Act(m, p), Act(m, q)) = Dist2(p, q)                       \* distances preserved

OutOK == \A j \in DOMAIN out : out[j].d > 0

\* orientation (handedness) is preserved: the triple product of three transformed difference vectors
\* keeps its sign - checked on the rotation part, whose numerator has determinant N^3 > 0 (Valid)
Handed == \A m \in Poses : Valid(m)

EdgeOut == PrintT(ToJson([call |-> call', out |-> out', outR |-> outR']))
=============================================================================
