------------------------------ MODULE QuatTrace ------------------------------
(***************************************************************************)
(* TLC as the judge of recorded pure-function events (C12): the library's  *)
(* quaternion / dual-quaternion functions and operators are executed on    *)
(* integer arguments (exact in binary64), results are logged as integers   *)
(* (the harness keeps the rounding residual), and each event is accepted   *)
(* iff it equals the value of the corresponding ExactQuat operator.        *)
(***************************************************************************)
EXTENDS ExactQuat, Json, IOUtils

Log == ndJsonDeserialize(IOEnv.TRACE)
VARIABLES l, bad
vars == <<l, bad>>

Flat4(M) == M[1] \o M[2] \o M[3] \o M[4]
DQ8(v) == DQ(SubSeq(v, 1, 4), SubSeq(v, 5, 8))
Unit8(k) == [i \in 1..8 |-> IF i = k THEN 1 ELSE 0]

Expected(e) ==
  CASE e.fn = "qqmul"      -> QMul(e.a, e.b)
    [] e.fn = "conj"       -> QConj(e.a)
    [] e.fn = "inner"      -> << QInner(e.a, e.b) >>
    [] e.fn = "norm2"      -> << QN(e.a) >>
    [] e.fn = "qpow"       -> QPow(e.a, e.n)
    [] e.fn = "matrix"     -> Flat4(QMatrix(e.a))
    [] e.fn = "matvec"     -> Mat4Vec(QMatrix(e.a), e.b)
    [] e.fn = "add"        -> QAdd(e.a, e.b)
    [] e.fn = "sub"        -> QSub(e.a, e.b)
    [] e.fn = "neg"        -> QNeg(e.a)
    [] e.fn = "scale"      -> QScale(e.n, e.a)
    [] e.fn = "pure"       -> QPure(e.a)
    [] e.fn = "rate_world2" -> RateWorld2(e.a, e.b)
    [] e.fn = "rate_body2"  -> RateBody2(e.a, e.b)
    [] e.fn = "qvmul_n"    -> QVec(QMul(QMul(e.a, QPure(e.b)), QConj(e.a)))      \* N(q) * (q v q*)/N(q)
    [] e.fn = "vvmul_n"    -> QVec(QMul(e.a, e.b))
    [] e.fn = "dqmul"      -> DQVec(DQMul(DQ8(e.a), DQ8(e.b)))
    [] e.fn = "dqadd"      -> DQVec(DQAdd(DQ8(e.a), DQ8(e.b)))
    [] e.fn = "dqsub"      -> DQVec(DQSub(DQ8(e.a), DQ8(e.b)))
    [] e.fn = "dqconj"     -> DQVec(DQConj(DQ8(e.a)))
    [] e.fn = "dqmatvec"   -> DQMatVec(DQ8(e.a), e.b)
    [] e.fn = "dqnorm2"    -> DQNorm2(DQ8(e.a))
    \* product of the UNIT dual quaternions of two rigid motions (q1, t1, d1), (q2, t2, d2), logged as
    \* K * real part and 2 K * dual part with K = d1 d2 sqrt(N(q1) N(q2))
    \* unit dual quaternion U of the motion (q1, t1, d1) times a GENERAL dual quaternion B (integer 8-vector), logged as
    \* 2 d1 sqrt(N(q1)) times the product:  [2 a.r B.r , 2 a.r B.d + a.d B.r]  with a = DQFromRigid2(motion)
    [] e.fn = "udq_dq_mul" -> LET a == DQFromRigid2(Mk(e.q1, e.t1, e.d1))  B == DQ8(e.b)
                              IN  Scale4(2, QMul(a.r, B.r)) \o QAdd(Scale4(2, QMul(a.r, B.d)), QMul(a.d, B.r))
    [] e.fn = "udqmul"     -> LET a == DQFromRigid2(Mk(e.q1, e.t1, e.d1))  b == DQFromRigid2(Mk(e.q2, e.t2, e.d2))
                              IN  QMul(a.r, b.r) \o QAdd(QMul(a.r, b.d), QMul(a.d, b.r))
    \* the conjugate of the unit dual quaternion of a rigid motion conjugates BOTH parts (it stays the plain dual
    \* quaternion conjugate); logged as sqrt(N(q1)) d1 times the real part and twice that times the dual part
    [] e.fn = "udqconj"    -> LET a == DQFromRigid2(Mk(e.q1, e.t1, e.d1)) IN QConj(a.r) \o QConj(a.d)
    [] OTHER               -> << >>

\* the 3-vector form stands for the quaternion with non-negative scalar part: when the scalar part of
\* the product is negative, the vector part of either q1 q2 or -(q1 q2) is consistent with the product
Accepts(e) ==
  \/ e.res = Expected(e)
  \/ (e.fn = "vvmul_n" /\ QMul(e.a, e.b)[1] < 0 /\ e.res = Neg3(Expected(e)))
  \* a unit dual quaternion and its negative are the same motion: the WHOLE 8-vector may change sign, never one half
  \/ (e.fn \in {"udqmul", "udqconj"} /\ e.res = [i \in 1..8 |-> -Expected(e)[i]])

Init == l = 1 /\ bad = <<>>
Next ==
  /\ l <= Len(Log)
  /\ bad' = IF Accepts(Log[l]) THEN bad ELSE Append(bad, l)
  /\ l' = l + 1

Final == l <= Len(Log) \/ JsonSerialize(IOEnv.VERDICT, [lines |-> Len(Log), rejected |-> bad])
TraceDone == TLCGet("stats").diameter - 1 = Len(Log)
=============================================================================
