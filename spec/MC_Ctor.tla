------------------------------- MODULE MC_Ctor -------------------------------
EXTENDS Ctor
AllAng   == Quarter \cup Pyth
SomeAng  == Quarter \cup { <<2,1>>, <<3,-1>> }
FewAng   == { <<1,0>>, <<1,1>>, <<0,1>>, <<1,-1>>, <<2,1>> }
Q2       == RatQ(2)
Q1       == RatQ(1)
TFew     == { <<0,0,0>>, <<1,2,3>>, <<-1,0,2>> }
VT1 == {"0", "e", "-e", "pi/2", "-pi/2", "pi", "-pi", "pi/2+e", "pi/2-e", "-pi/2+e", "-pi/2-e", "pi-e", "-pi+e",
        "mid", "turns", "big"}
VT3 == {"0", "pi/2", "-pi/2", "pi", "pi/2-e", "mid", "turns"}
VT3s == {"0", "pi/2", "pi/2-e", "mid"}
VL  == {"1e-9", "2e-7", "1e-3", "1", "1e6", "1+4e-7", "1-7e-7", "1+3e-9"}     \* incl. lengths that are ALMOST one
VTr == {"0", "1e-6", "1", "1e6"}
NoAng == {}
NoQ == {}
NoT == {}
ASSUME OrderSanity
=============================================================================
