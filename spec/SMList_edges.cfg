INIT Init
NEXT Next
CONSTANTS
  StartLens <- Len0to12
  MaxDepth = 1
  MaxLen = 40
  Idx <- IdxFull
  SlStart <- SlFull
  SlStop <- SlFull
  SlStep <- StepFull
  ExtK <- K0to3
  Export = "edges"
ACTION_CONSTRAINT EdgeOut
INVARIANT TypeOK
INVARIANT NoDuplicates
INVARIANT OnlyKnownIds
PROPERTY FailedUnchanged
PROPERTY ReadOnlyUnchanged
PROPERTY LenDelta
CHECK_DEADLOCK FALSE
