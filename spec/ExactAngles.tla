----------------------------- MODULE ExactAngles -----------------------------
(***************************************************************************)
(* Exact angle sets.  An exact angle is a Gaussian integer g = <<a, b>>    *)
(* (not both zero) denoting  theta = 2 atan2(b, a):  the rotation by theta *)
(* about a coordinate axis e is the integer quaternion a + b e.            *)
(*   <<1,0>> 0    <<1,1>> 90    <<0,1>> 180    <<1,-1>> -90   <<0,-1>> -180 *)
(*   <<2,1>> 53.13 (cos 3/5, sin 4/5)   <<3,1>> 36.87   <<3,2>> 67.38 ...   *)
(* The constructors follow the DOCUMENTED axis orders (statement of C05):  *)
(*   zyx: Rz(yaw) Ry(pitch) Rx(roll)     xyz: Rx(yaw) Ry(pitch) Rz(roll)   *)
(*   yxz: Ry(yaw) Rx(pitch) Rz(roll)     Euler: Rz(phi) Ry(theta) Rz(psi)  *)
(***************************************************************************)
EXTENDS ExactRigid

AxisQ(ax, g) ==
  CASE ax = "x" -> << g[1], g[2], 0, 0 >>
    [] ax = "y" -> << g[1], 0, g[2], 0 >>
    [] ax = "z" -> << g[1], 0, 0, g[2] >>

RotQ(q)        == Mk(QCanon(q), <<0,0,0>>, 1)
RotAbout(ax, g) == RotQ(AxisQ(ax, g))

Orders  == {"zyx", "xyz", "yxz"}
Alias(o) == CASE o = "vehicle" -> "zyx" [] o = "arm" -> "xyz" [] o = "camera" -> "yxz" [] OTHER -> o
OrderNames == Orders \cup {"vehicle", "arm", "camera"}

RPYQ(order, r, p, y) ==
  LET o == Alias(order) IN
  CASE o = "zyx" -> QMul(QMul(AxisQ("z", y), AxisQ("y", p)), AxisQ("x", r))
    [] o = "xyz" -> QMul(QMul(AxisQ("x", y), AxisQ("y", p)), AxisQ("z", r))
    [] o = "yxz" -> QMul(QMul(AxisQ("y", y), AxisQ("x", p)), AxisQ("z", r))

EulQ(phi, theta, psi) == QMul(QMul(AxisQ("z", phi), AxisQ("y", theta)), AxisQ("z", psi))

\* two-vector frame from orthonormal integer o, a: columns (o x a, o, a)
OAMat(o, a) == Transpose(<< Cross(o, a), o, a >>)

\* angle classes of a Gaussian angle (used for singular configurations and finding keys)
QuarterTurns(g) ==           \* number of quarter turns if the angle is a multiple of 90 degrees, else 99
  CASE g[2] = 0 /\ g[1] > 0 -> 0
    [] g[1] = g[2] /\ g[1] > 0 -> 1
    [] g[1] = 0 /\ g[2] > 0 -> 2
    [] g[1] = -g[2] /\ g[1] > 0 -> -1
    [] g[1] = 0 /\ g[2] < 0 -> -2
    [] OTHER -> 99

\* RPY singular iff pitch = +-90 degrees; Euler singular iff theta = 0 or 180
RPYSingular(p)  == QuarterTurns(p) \in {1, -1}
EulSingular(th) == QuarterTurns(th) \in {0, 2, -2}

Quarter == { <<1,0>>, <<1,1>>, <<0,1>>, <<1,-1>>, <<0,-1>> }
Pyth    == { <<2,1>>, <<3,1>>, <<1,2>>, <<2,-1>>, <<3,2>>, <<1,3>>, <<3,-1>> }
SignedAxes == { <<1,0,0>>, <<-1,0,0>>, <<0,1,0>>, <<0,-1,0>>, <<0,0,1>>, <<0,0,-1>> }
=============================================================================
