------------------------------- MODULE SMList -------------------------------
(***************************************************************************)
(* The list layer of spatialmath objects (SMUserList) as a state machine.  *)
(*                                                                         *)
(* An object of a list-capable class C is abstracted to the sequence `xs`  *)
(* of the *identities* of the element values it holds.  Element ids are    *)
(* natural numbers; the conformance harness maps id k to a distinguishable *)
(* member of C (e.g. SE3(k,0,0), Rz(0.1 k)) and back.                      *)
(*                                                                         *)
(* Each public list operation is one action.  Every action sets            *)
(*   res  = outcome of the call:                                           *)
(*          [k |-> "obj",  v |-> ids]  a NEW object of the same class C    *)
(*          [k |-> "objs", v |-> ids]  a Python list of single-valued C's  *)
(*          [k |-> "none"]             returns None                        *)
(*          [k |-> "raise", e |-> "IndexError" | "Any"]                    *)
(*   last = the call (name + parameters), exported to the replay harness.  *)
(* A call that raises leaves `xs` unchanged (FailedUnchanged).             *)
(***************************************************************************)
EXTENDS PyList, TLC, Json, FiniteSets

CONSTANTS
  StartLens,      \* set of initial lengths
  MaxDepth,       \* number of operations per behaviour
  MaxLen,         \* state constraint on Len(xs)
  Idx,            \* index alphabet
  SlStart, SlStop, SlStep,   \* slice alphabets (may contain None)
  ExtK,           \* lengths of the argument of extend
  Export          \* "edges" | "hist" | "none"

VARIABLES xs, nextId, res, last, d, hist
vars == <<xs, nextId, res, last, d, hist>>

ArgKinds == {"single", "multi", "wrong"}

Fresh(k) == [j \in 1..k |-> nextId + j - 1]

Obj(v)    == [k |-> "obj", v |-> v]
Objs(v)   == [k |-> "objs", v |-> v]
NoneRes   == [k |-> "none"]
Raise(e)  == [k |-> "raise", e |-> e]

Init ==
  /\ \E n \in StartLens :
        /\ xs = [j \in 1..n |-> j]
        /\ hist = IF Export = "hist"
                  THEN << [call |-> [op |-> "init"], res |-> NoneRes, post |-> [j \in 1..n |-> j], nid |-> 100] >>
                  ELSE <<>>
  /\ nextId = 100
  /\ res = NoneRes
  /\ last = [op |-> "init"]
  /\ d = 0

\* common tail of every action
Step(call, newxs, newres, used) ==
  /\ d < MaxDepth
  /\ xs' = newxs
  /\ res' = newres
  /\ last' = call
  /\ nextId' = nextId + used
  /\ d' = d + 1
  /\ hist' = IF Export = "hist"
             THEN Append(hist, [call |-> call, res |-> newres, post |-> newxs, nid |-> nextId])
             ELSE hist

Failed(call, e) == Step(call, xs, Raise(e), 0)

\* ---- read-only ---------------------------------------------------------
GetItem(i) ==
  LET call == [op |-> "getitem", i |-> i] IN
  IF InRange(i, Len(xs)) THEN Step(call, xs, Obj(<<GetAt(xs, i)>>), 0)
  ELSE Failed(call, "IndexError")

GetSlice(st, sp, sk) ==
  Step([op |-> "slice", st |-> st, sp |-> sp, sk |-> sk], xs, Obj(Slice(xs, st, sp, sk)), 0)

Iterate == Step([op |-> "iter"], xs, Objs(xs), 0)
\* two iterations over the SAME object alive at once: a nested loop (for a in x: for b in x) yields every ordered
\* pair, zip(x, x) the diagonal; the result lists a1, b1, a2, b2, ... - iterations are independent of one another
NestedPairs(s) == [k \in 1..(2 * Len(s) * Len(s)) |->
                     LET p == (k - 1) \div 2  i == (p \div Len(s)) + 1  jj == (p % Len(s)) + 1
                     IN  IF k % 2 = 1 THEN s[i] ELSE s[jj]]
ZipPairs(s)    == [k \in 1..(2 * Len(s)) |-> s[((k - 1) \div 2) + 1]]
IterateNested == Step([op |-> "iter2"], xs, Objs(NestedPairs(xs)), 0)
IterateZip    == Step([op |-> "iterzip"], xs, Objs(ZipPairs(xs)), 0)

LenOp == Step([op |-> "len"], xs, [k |-> "int", v |-> Len(xs)], 0)

CopyCtor == Step([op |-> "copy"], xs, Obj(xs), 0)      \* C(x): new object, same values

\* ---- mutators ----------------------------------------------------------
\* The ...V actions take the *values* carried by the argument object explicitly (a sequence of
\* ids); the model instantiates them with fresh ids, the trace specification with logged ones.
AppendV(kind, a, used) ==
  LET call == [op |-> "append", kind |-> kind] IN
  IF kind = "single" THEN Step(call, xs \o a, NoneRes, used)
  ELSE Failed(call, "Any")
DoAppend(kind) == AppendV(kind, Fresh(1), 1)

ExtendV(a, used) ==        \* argument: same-class object holding Len(a) values
  Step([op |-> "extend", n |-> Len(a)], xs \o a, NoneRes, used)
DoExtend(k) == ExtendV(Fresh(k), k)

\* extend() by something that is not an object of the receiver's class: an object of another class holding values, an
\* EMPTY object of another class (nothing to iterate over - the class still differs), a Python list that contains an
\* object of another class after a good one.  All must raise and leave the receiver unchanged.
WrongArgs == {"object", "empty-object", "list-mixed"}
ExtendWrong(w) == Failed([op |-> "extend_wrong", what |-> w], "Any")

InsertV(i, kind, a, used) ==
  LET call == [op |-> "insert", i |-> i, kind |-> kind] IN
  IF kind = "single" THEN Step(call, InsertAt(xs, i, a[1]), NoneRes, used)
  ELSE Failed(call, "Any")
DoInsert(i, kind) == InsertV(i, kind, Fresh(1), 1)

DoPop(i) ==
  LET call == [op |-> "pop", i |-> i] IN
  IF InRange(i, Len(xs)) THEN Step(call, RemoveAt(xs, i), Obj(<<GetAt(xs, i)>>), 0)
  ELSE Failed(call, "IndexError")

PopDefault ==
  LET call == [op |-> "pop0"] IN
  IF Len(xs) > 0 THEN Step(call, RemoveAt(xs, -1), Obj(<<GetAt(xs, -1)>>), 0)
  ELSE Failed(call, "IndexError")

DoDel(i) ==
  LET call == [op |-> "del", i |-> i] IN
  IF InRange(i, Len(xs)) THEN Step(call, RemoveAt(xs, i), NoneRes, 0)
  ELSE Failed(call, "IndexError")

SetItemV(i, kind, a, used) ==
  LET call == [op |-> "setitem", i |-> i, kind |-> kind] IN
  IF kind # "single" THEN Failed(call, "Any")
  ELSE IF InRange(i, Len(xs)) THEN Step(call, SetAt(xs, i, a[1]), NoneRes, used)
  ELSE Failed(call, "IndexError")
DoSetItem(i, kind) == SetItemV(i, kind, Fresh(1), 1)

DoReverse == Step([op |-> "reverse"], Reverse(xs), NoneRes, 0)
DoClear   == Step([op |-> "clear"], <<>>, NoneRes, 0)

Next ==
  \/ \E i \in Idx : GetItem(i)
  \/ \E st \in SlStart : \E sp \in SlStop : \E sk \in SlStep : GetSlice(st, sp, sk)
  \/ Iterate
  \/ IterateNested
  \/ IterateZip
  \/ LenOp
  \/ CopyCtor
  \/ \E kind \in ArgKinds : DoAppend(kind)
  \/ \E k \in ExtK : DoExtend(k)
  \/ \E w \in WrongArgs : ExtendWrong(w)
  \/ \E i \in Idx : \E kind \in ArgKinds : DoInsert(i, kind)
  \/ \E i \in Idx : DoPop(i)
  \/ PopDefault
  \/ \E i \in Idx : DoDel(i)
  \/ \E i \in Idx : \E kind \in ArgKinds : DoSetItem(i, kind)
  \/ DoReverse
  \/ DoClear

Spec == Init /\ [][Next]_vars

\* ---- what TLC checks on the model --------------------------------------
Elems(s) == {s[k] : k \in 1..Len(s)}

TypeOK == /\ xs \in Seq(Nat) /\ nextId \in Nat /\ d \in 0..MaxDepth

\* fresh ids are never reused: every id occurs at most once
NoDuplicates == Cardinality(Elems(xs)) = Len(xs)

\* the object never holds anything that was not put in
OnlyKnownIds == \A k \in 1..Len(xs) : xs[k] < nextId

\* C10: a failing call leaves the object unchanged; IndexError only from index ops
FailedUnchanged == [][res'.k = "raise" => xs' = xs]_vars

ReadOnlyUnchanged ==
  [][last'.op \in {"getitem", "slice", "iter", "iter2", "iterzip", "len", "copy"} => xs' = xs]_vars

\* sanity of the slice transcription: reversing slice = Reverse, full slice = identity,
\* slice length = number of positions, all positions in range
SliceSanity ==
  /\ Slice(xs, None, None, -1) = Reverse(xs)
  /\ Slice(xs, None, None, None) = xs
  /\ \A st \in SlStart : \A sp \in SlStop : \A sk \in SlStep :
       LET p == SlicePos(st, sp, sk, Len(xs)) IN
         \A k \in 1..Len(p) : p[k] >= 0 /\ p[k] < Len(xs)

\* mutators change the length by the documented amount
LenDelta ==
  [][ LET o == last'.op IN
      res'.k # "raise" =>
        /\ (o \in {"append", "insert"} => Len(xs') = Len(xs) + 1)
        /\ (o = "extend" => Len(xs') = Len(xs) + last'.n)
        /\ (o \in {"pop", "pop0", "del"} => Len(xs') = Len(xs) - 1)
        /\ (o \in {"setitem", "reverse"} => Len(xs') = Len(xs))
        /\ (o = "clear" => Len(xs') = 0) ]_vars

Bound == Len(xs) <= MaxLen

\* ---- export to the conformance harness ----------------------------------
EdgeOut ==
  IF Export = "edges"
  THEN PrintT(ToJson([pre |-> xs, call |-> last', res |-> res', post |-> xs', nid |-> nextId]))
  ELSE TRUE

HistOut ==
  IF Export = "hist" /\ d = MaxDepth
  THEN PrintT(ToJson(hist))
  ELSE TRUE

View == <<xs, nextId, d>>
=============================================================================
