------------------------------ MODULE ArgShape ------------------------------
(***************************************************************************)
(* The argument-shape algebra of spatialmath.base.argcheck, transcribed    *)
(* from the documentation of isvector / getvector / ismatrix / getmatrix / *)
(* assertmatrix / verifymatrix / isnumberlist / isvectorlist.              *)
(*                                                                         *)
(* Every other module of the library funnels its arguments through these   *)
(* functions, so their case analysis (argument kind x requested length or  *)
(* shape pattern x output form) is the root of "argument forms are         *)
(* interchangeable" (C15).  An ABSTRACT ARGUMENT is a descriptor (kind and *)
(* sizes); the operators below give, for each call, the descriptor of the  *)
(* documented result, the documented exception, or "unspec" where the      *)
(* documentation is silent.  TLC enumerates every call; each one becomes   *)
(* one execution of the real function (harness/argshape.py).               *)
(***************************************************************************)
EXTENDS Integers, Sequences, FiniteSets, TLC, Json

Lens == 0..6
Dims == 1..4

\* ---- abstract arguments ---------------------------------------------------------------------
Scalar    == [k |-> "scalar"]
Seqs      == {[k |-> f, n |-> n] : f \in {"list", "tuple", "array1"}, n \in Lens}
Arr2      == {[k |-> "array2", r |-> r, c |-> c] : r \in Dims, c \in Dims}       \* rows (1,n) and columns (n,1) among them
Others    == {[k |-> "none"], [k |-> "str"], [k |-> "complex2", r |-> 2, c |-> 2], [k |-> "listofstr", n |-> 2]}
Args      == {Scalar} \cup Seqs \cup Arr2 \cup Others

IsSeq(a)  == a.k \in {"list", "tuple", "array1"}
IsNd(a)   == a.k \in {"array1", "array2", "complex2"}
NumEl(a)  == CASE a.k = "scalar" -> 1
               [] IsSeq(a)       -> a.n
               [] a.k = "array2" -> a.r * a.c
               [] OTHER          -> -1
\* an ndarray that the documentation calls a vector: (N,), (1,N) or (N,1) with N > 0
NdVector(a) == (a.k = "array1" /\ a.n > 0) \/ (a.k = "array2" /\ (a.r = 1 \/ a.c = 1))

Val(d)    == [k |-> "value", v |-> d]
Raise(e)  == [k |-> "raise", e |-> e]
Unspec    == [k |-> "unspec"]
Bool(b)   == Val([k |-> "bool", b |-> b])

\* ---- isvector(v, dim) : dim = -1 stands for None --------------------------------------------
IsVector(a, dim) ==
  CASE a.k = "scalar"              -> Bool(dim = -1 \/ dim = 1)
    [] a.k \in {"list", "tuple"}   -> IF a.n = 0 THEN Unspec          \* an empty list: the documentation is silent
                                      ELSE Bool(dim = -1 \/ a.n = dim)
    [] a.k = "array1"              -> IF a.n = 0 THEN Unspec ELSE Bool(dim = -1 \/ a.n = dim)
    [] a.k = "array2"              -> Bool((a.r = 1 \/ a.c = 1) /\ (dim = -1 \/ a.r * a.c = dim))
    [] a.k = "listofstr"           -> Bool(FALSE)
    [] a.k \in {"none", "str"}     -> Bool(FALSE)
    [] OTHER                       -> Unspec                          \* complex arrays: "real vector", not decided here

\* ---- getvector(v, dim, out) -----------------------------------------------------------------
Outs == {"array", "list", "sequence", "row", "col", "bogus"}
OutForm(a, n, out) ==
  CASE out = "array"    -> Val([k |-> "array1", n |-> n])
    [] out = "list"     -> Val([k |-> "list", n |-> n])
    [] out = "sequence" -> Val([k |-> IF a.k = "tuple" THEN "tuple" ELSE "list", n |-> n])   \* a list or tuple as given
    [] out = "row"      -> Val([k |-> "array2", r |-> 1, c |-> n])
    [] out = "col"      -> Val([k |-> "array2", r |-> n, c |-> 1])
    [] OTHER            -> Raise("ValueError")
GetVector(a, dim, out) ==
  CASE a.k = "scalar" ->
         IF dim = -1 \/ dim = 1 THEN OutForm([k |-> "list"], 1, out) ELSE Raise("ValueError")
    [] IsSeq(a) ->
         IF dim # -1 /\ a.n # dim THEN Raise("ValueError")
         ELSE IF a.n = 0 /\ dim = -1 THEN Unspec
         ELSE OutForm(a, a.n, out)
    [] a.k = "array2" ->
         IF a.r = 1 \/ a.c = 1
         THEN IF dim # -1 /\ a.r * a.c # dim THEN Raise("ValueError") ELSE OutForm(a, a.r * a.c, out)
         ELSE IF dim # -1 THEN Raise("ValueError")      \* a general 2-D array is not a vector of any given length
         ELSE Unspec                                     \* ... with no length requested: the documentation is silent
    [] a.k \in {"none", "str"} -> Raise("TypeError")
    [] OTHER -> Unspec

\* ---- matrix functions: a shape pattern is <<r, c>> with 0 for None ---------------------------
Wild   == {0} \cup Dims
Shapes == Wild \X Wild
Fits(a, s) == (s[1] = 0 \/ s[1] = a.r) /\ (s[2] = 0 \/ s[2] = a.c)

IsMatrix(a, s) ==
  CASE a.k = "array2"   -> Bool(Fits(a, s))
    [] a.k = "complex2" -> Bool(FALSE)
    [] a.k = "array1"   -> Bool(FALSE)                 \* one-dimensional: not a 2-D matrix
    [] OTHER            -> Bool(FALSE)                 \* not a NumPy array

AssertMatrix(a, s) ==
  CASE a.k = "array2"   -> IF Fits(a, s) THEN Val([k |-> "nothing"]) ELSE Raise("ValueError")
    [] a.k = "complex2" -> Raise("TypeError")
    [] a.k = "array1"   -> Raise("ValueError")
    [] OTHER            -> Raise("TypeError")

\* verifymatrix: exact shape, no wildcards
VerifyMatrix(a, s) ==
  CASE a.k = "array2"   -> IF s[1] = a.r /\ s[2] = a.c THEN Val([k |-> "nothing"]) ELSE Raise("ValueError")
    [] a.k = "array1"   -> Raise("ValueError")
    [] a.k = "complex2" -> Unspec
    [] OTHER            -> Raise("TypeError")

Divides(d, n) == d > 0 /\ n % d = 0
GetMatrix(a, s) ==
  CASE a.k = "array2" -> IF Fits(a, s) THEN Val(a) ELSE Raise("ValueError")
    [] a.k = "scalar" \/ (IsSeq(a) /\ a.n > 0) ->
         LET n == NumEl(a) IN
         IF s[1] # 0 /\ s[2] # 0 THEN (IF n = s[1] * s[2] THEN Val([k |-> "array2", r |-> s[1], c |-> s[2]]) ELSE Raise("ValueError"))
         ELSE IF s[1] # 0 THEN (IF Divides(s[1], n) THEN Val([k |-> "array2", r |-> s[1], c |-> n \div s[1]]) ELSE Raise("ValueError"))
         ELSE IF s[2] # 0 THEN (IF Divides(s[2], n) THEN Val([k |-> "array2", r |-> n \div s[2], c |-> s[2]]) ELSE Raise("ValueError"))
         ELSE Val([k |-> "array2", r |-> 1, c |-> n])
    [] a.k \in {"none", "str"} -> Raise("TypeError")
    [] OTHER -> Unspec

\* ---- list predicates --------------------------------------------------------------------------
IsNumberList(a) ==
  CASE a.k \in {"list", "tuple"} -> Bool(a.n > 0)
    [] a.k = "listofstr"         -> Bool(FALSE)
    [] OTHER                     -> Bool(FALSE)
\* x: a list / tuple of m one-dimensional arrays of length len (or of m tuples), asked for n
VecLists == {[k |-> f, m |-> m, len |-> l, el |-> el] : f \in {"list", "tuple"}, m \in 1..3, l \in 1..4, el \in {"array1", "tuple"}}
IsVectorList(x, n) == Bool(x.el = "array1" /\ x.len = n)

\* ---- the machine: one call per behaviour -------------------------------------------------------
VARIABLES call, expect
vars == <<call, expect>>
Init == call = [fn |-> "none"] /\ expect = Unspec
DimsArg == {-1} \cup Lens
Do(c, e) == call.fn = "none" /\ call' = c /\ expect' = e
Next ==
  \/ \E a \in Args : \E d \in DimsArg : Do([fn |-> "isvector", a |-> a, dim |-> d], IsVector(a, d))
  \/ \E a \in Args : \E d \in DimsArg : \E o \in Outs : Do([fn |-> "getvector", a |-> a, dim |-> d, out |-> o], GetVector(a, d, o))
  \/ \E a \in Args : \E s \in Shapes : Do([fn |-> "ismatrix", a |-> a, s |-> s], IsMatrix(a, s))
  \/ \E a \in Args : \E s \in Shapes : Do([fn |-> "assertmatrix", a |-> a, s |-> s], AssertMatrix(a, s))
  \/ \E a \in Args : \E s \in Dims \X Dims : Do([fn |-> "verifymatrix", a |-> a, s |-> s], VerifyMatrix(a, s))
  \/ \E a \in Args : \E s \in Shapes : Do([fn |-> "getmatrix", a |-> a, s |-> s], GetMatrix(a, s))
  \/ \E a \in Args : Do([fn |-> "isnumberlist", a |-> a], IsNumberList(a))
  \/ \E x \in VecLists : \E n \in 1..4 : Do([fn |-> "isvectorlist", a |-> x, n |-> n], IsVectorList(x, n))
Spec == Init /\ [][Next]_vars

\* ---- theorems about the algebra (checked by TLC at start-up) --------------------------------
\* a value accepted by getvector with a length is a vector of that length for isvector, and conversely
ThGetIs == \A a \in Args : \A d \in Lens :
             LET g == GetVector(a, d, "array")  i == IsVector(a, d) IN
             (g.k = "value" /\ i.k = "value") => i.v.b
ThIsGet == \A a \in Args : \A d \in Lens :
             LET g == GetVector(a, d, "array")  i == IsVector(a, d) IN
             (i.k = "value" /\ i.v.b) => g.k = "value"
\* every output form holds the same number of elements
ThForms == \A a \in Args : \A d \in DimsArg : \A o \in Outs \ {"bogus"} :
             LET g == GetVector(a, d, o)  g0 == GetVector(a, d, "array") IN
             (g.k = "value") <=> (g0.k = "value")
\* getmatrix returns a matrix that ismatrix accepts for the same pattern, with the argument's number of elements
ThGetMatrix == \A a \in Args : \A s \in Shapes :
             LET g == GetMatrix(a, s) IN
             g.k = "value" => (IsMatrix(g.v, s).v.b /\ g.v.r * g.v.c = NumEl(a))
\* assertmatrix raises exactly where ismatrix says no
ThAssertIs == \A a \in Args : \A s \in Shapes : (AssertMatrix(a, s).k = "value") <=> IsMatrix(a, s).v.b
\* verifymatrix agrees with assertmatrix on patterns without wildcards
ThVerify == \A a \in Args : \A s \in Dims \X Dims :
             VerifyMatrix(a, s).k # "unspec" => (VerifyMatrix(a, s).k = AssertMatrix(a, s).k)

EdgeOut == PrintT(ToJson([call |-> call', expect |-> expect']))
=============================================================================
