INIT Init
NEXT Next
CONSTANTS
  Pts <- PtSet
  Dirs <- DirSet
  Motions <- MotSet
  Planes <- PlaneSet
  Xs <- XSet
ACTION_CONSTRAINT EdgeOut
INVARIANT PairSanity
CHECK_DEADLOCK FALSE
