------------------------------ MODULE Normalise ------------------------------
(***************************************************************************)
(* Normalisation (C14) on the exact domain: what is preserved is a         *)
(* DIRECTION, and directions of integer data are exact.                    *)
(*  - matrix normalisation of M = [n o a] keeps the direction of the       *)
(*    approach axis a, makes the new normal parallel to o x a and the new  *)
(*    orientation axis parallel to a x (o x a) (so it stays in the plane   *)
(*    of o and a); the translation is untouched;                           *)
(*  - vector / quaternion normalisation keeps the direction;               *)
(*  - a unit twist has unit rotational part, or, if irrotational, unit     *)
(*    translational part;                                                  *)
(*  - angle wrapping on multiples of 90 degrees is arithmetic modulo 4.    *)
(***************************************************************************)
EXTENDS ExactRigid, Json

CONSTANTS Rots, Noises, Ks, Vecs, Twists, QuarterRange

VARIABLES c, ans
vars == <<c, ans>>
Init == c = [k |-> "none"] /\ ans = [k |-> "none"]
Do(cc, aa) == c.k = "none" /\ c' = cc /\ ans' = aa

\* integer matrix K R + E for a cube-group rotation R (integer entries) and an integer noise matrix E:
\* the real matrix is (K R + E)/K, ie. R perturbed by noise of size |E|/K
Perturbed(q, E, K) == LET R == RotNum(q)  n == QN(q) IN
                      [i \in 1..3 |-> [jj \in 1..3 |-> K * (R[i][jj] \div n) + E[i][jj]]]

Prim(v) == LET g == Gcd3(v) IN IF g = 0 THEN v ELSE Div3(v, g)          \* primitive direction

MatCase(q, E, K, t) ==
  LET M == Perturbed(q, E, K)
      o == Col(M, 2)  a == Col(M, 3)
      nn == Prim(Cross(o, a)) IN
  /\ nn # <<0, 0, 0>>
  /\ Do([k |-> "matrix", M |-> M, K |-> K, t |-> t, noise |-> (E # << <<0,0,0>>, <<0,0,0>>, <<0,0,0>> >>)],
        [n |-> nn, o |-> Prim(Cross(a, nn)), a |-> a])

VecCase(v) == v # <<0,0,0>> /\ Do([k |-> "vector", v |-> v], [dir |-> v, n2 |-> Dot(v, v)])

TwistCase(s) ==
  LET v == << s[1], s[2], s[3] >>  w == << s[4], s[5], s[6] >> IN
  /\ (v # <<0,0,0>> \/ w # <<0,0,0>>)
  \* tot2: squared Euclidean norm of the whole 6-vector - NOT the norm a unit twist is normalised by; the harness
  \* also presents the twist scaled so that THIS norm is 1 (and so that the proper norm is 1: already a unit twist)
  /\ Do([k |-> "twist", s |-> s], [by |-> IF w # <<0,0,0>> THEN "w" ELSE "v", n2 |-> IF w # <<0,0,0>> THEN Dot(w, w) ELSE Dot(v, v),
                                   tot2 |-> Dot(v, v) + Dot(w, w)])

\* wrap(a - b) in quarter turns: the representative in -2..2 ; at the ends both -2 and 2 are admissible
Wrap4(x) == LET r == ((x + 2) % 4) - 2 IN r        \* in -2..1
AngCase(a, b) ==
  LET w == Wrap4(a - b) IN
  Do([k |-> "angdiff", a |-> a, b |-> b], [ok |-> IF w = -2 THEN {-2, 2} ELSE {w}])

Next ==
  \/ \E q \in Rots : \E E \in Noises : \E K \in Ks : \E t \in {<<0,0,0>>, <<1,-2,3>>} : MatCase(q, E, K, t)
  \/ \E v \in Vecs : VecCase(v)
  \/ \E s \in Twists : TwistCase(s)
  \/ \E a \in QuarterRange : \E b \in QuarterRange : AngCase(a, b)

\* the frame promised by matrix normalisation is right-handed and orthogonal, and keeps o in span(o, a)
FrameOK ==
  (c.k = "matrix" /\ c.K <= 10) =>
    /\ Dot(ans.n, ans.o) = 0 /\ Dot(ans.o, ans.a) = 0 /\ Dot(ans.n, ans.a) = 0
    /\ Dot(Cross(ans.n, ans.o), ans.a) > 0
    /\ Dot(ans.o, Cross(Col(c.M, 2), Col(c.M, 3))) = 0                 \* new o lies in the plane of old o and a
WrapOK == c.k = "angdiff" => \A w \in ans.ok : w \in -2..2 /\ (w - (c.a - c.b)) % 4 = 0

EdgeOut == PrintT(ToJson([c |-> c', ans |-> ans']))
=============================================================================
