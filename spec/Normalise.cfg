INIT Init
NEXT Next
CONSTANTS
  Rots <- CubeQ
  Noises <- NoiseSet
  Ks <- KSet
  Vecs <- VecSet
  Twists <- TwSet
  QuarterRange <- QR
ACTION_CONSTRAINT EdgeOut
INVARIANT FrameOK
INVARIANT WrapOK
CHECK_DEADLOCK FALSE
