------------------------------ MODULE ExactLie ------------------------------
(***************************************************************************)
(* Lie-algebra maps, adjoint and differential motion over the integers     *)
(* (C13).  Twists are ordered (v, w) as in the library.  Matrices are       *)
(* sequences of rows of any size.  All identities are polynomial; the ones  *)
(* that are multilinear are checked on basis vectors (sufficient), the      *)
(* ones that hold only on the group are checked on the rational lattice.    *)
(***************************************************************************)
EXTENDS ExactRigid

\* ---- generic n x n integer matrices -------------------------------------------------------
NRows(M) == Len(M)
MCol(M, j) == [i \in 1..Len(M) |-> M[i][j]]
DotN(a, b) == LET RECURSIVE S(_)
                  S(k) == IF k = 0 THEN 0 ELSE a[k] * b[k] + S(k - 1)
              IN S(Len(a))
MMul(A, B) == [i \in 1..Len(A) |-> [j \in 1..Len(B[1]) |-> DotN(A[i], MCol(B, j))]]
MVec(A, v) == [i \in 1..Len(A) |-> DotN(A[i], v)]
MT(A)      == [j \in 1..Len(A[1]) |-> MCol(A, j)]
MScale(k, A) == [i \in 1..Len(A) |-> [j \in 1..Len(A[i]) |-> k * A[i][j]]]
MAdd(A, B) == [i \in 1..Len(A) |-> [j \in 1..Len(A[i]) |-> A[i][j] + B[i][j]]]
MSub(A, B) == [i \in 1..Len(A) |-> [j \in 1..Len(A[i]) |-> A[i][j] - B[i][j]]]
MId(n)     == [i \in 1..n |-> [j \in 1..n |-> IF i = j THEN 1 ELSE 0]]
MZero(n, m) == [i \in 1..n |-> [j \in 1..m |-> 0]]
\* block matrix [[A, B], [C, D]] of 3x3 blocks
Block(A, B, C, D) == [i \in 1..6 |-> IF i <= 3 THEN A[i] \o B[i] ELSE C[i - 3] \o D[i - 3]]

\* ---- so(n), se(n) ----------------------------------------------------------------------------
Skew3(a) == << << 0, -a[3], a[2] >>, << a[3], 0, -a[1] >>, << -a[2], a[1], 0 >> >>
Vex3(S)  == << S[3][2], S[1][3], S[2][1] >>
Skew1(w) == << << 0, -w >>, << w, 0 >> >>
Vex1(S)  == S[2][1]
\* se(3): twist s = (v, w)  ->  [[skew(w), v], [0 0 0 0]]
SkewA6(s) == LET w == << s[4], s[5], s[6] >>  K == Skew3(w) IN
             << K[1] \o << s[1] >>, K[2] \o << s[2] >>, K[3] \o << s[3] >>, << 0, 0, 0, 0 >> >>
VexA6(M)  == << M[1][4], M[2][4], M[3][4], M[3][2], M[1][3], M[2][1] >>
\* se(2): s = (vx, vy, w)
SkewA3(s) == << << 0, -s[3], s[1] >>, << s[3], 0, s[2] >>, << 0, 0, 0 >> >>
VexA3(M)  == << M[1][3], M[2][3], M[2][1] >>

\* ---- adjoint --------------------------------------------------------------------------------
\* For m = [q, t, d]:  R = RotNum(q)/N, t = t/d.   Ad(T) = [[R, skew(t) R], [0, R]]  (twist order v, w)
\* numerator over the common denominator  AdDen(m) = N d :  [[d R', skew(t) R'], [0, d R']]  with R' = RotNum(q)
AdNum(m) == LET R == RotNum(m.q) IN
            Block(ScaleM(m.d, R), MatMul(Skew3(m.t), R), MZero(3, 3), ScaleM(m.d, R))
AdDen(m) == QN(m.q) * m.d
\* homogeneous 4x4 numerator over the same denominator N d
HomNum(m) == Hom(m).num
\* little adjoint ad(S) for S = (v, w):  [[skew(w), skew(v)], [0, skew(w)]]
adS(s) == LET v == << s[1], s[2], s[3] >>  w == << s[4], s[5], s[6] >> IN
          Block(Skew3(w), Skew3(v), MZero(3, 3), Skew3(w))
\* velocity Jacobian: blockdiag(R', R') over N ; same-body mode: Ad(T^-1)
JacNum(m) == LET Rt == Transpose(RotNum(m.q)) IN Block(Rt, MZero(3, 3), MZero(3, 3), Rt)

\* differential motion (both maps are linear / affine)
Delta2Tr(dd) == MAdd(MId(4), SkewA6(dd))
\* tr2delta(T) for T = num/den:  (t, vex(R - I)) where vex takes the lower-triangle entries (library's vex)
Tr2DeltaNum(H, den) == << H[1][4], H[2][4], H[3][4], H[3][2], H[1][3], H[2][1] >>      \* over den ; I has no off-diagonal

Basis3 == { <<1,0,0>>, <<0,1,0>>, <<0,0,1>> }
Basis6 == { [i \in 1..6 |-> IF i = k THEN 1 ELSE 0] : k \in 1..6 }
Cube6  == { s \in [1..6 -> {-1, 0, 1}] : TRUE }

\* ---- theorems --------------------------------------------------------------------------------
ThSkewCross == \A a \in Basis3 : \A b \in Basis3 : MatVec(Skew3(a), b) = Cross(a, b)          \* bilinear
ThVexSkew   == /\ \A a \in T3(2) : Vex3(Skew3(a)) = a
               /\ \A w \in -3..3 : Vex1(Skew1(w)) = w
               /\ \A s \in Basis6 : VexA6(SkewA6(s)) = s                                       \* linear
               /\ \A s \in T3(2) : VexA3(SkewA3(s)) = s
ThSkewSym   == \A a \in T3(1) : MT(Skew3(a)) = MScale(-1, Skew3(a))
\* Ad is a homomorphism and Ad(T^-1) Ad(T) = I   (cross-multiplied denominators)
ThAdHom(S)  == \A a \in S : \A b \in S :
                 LET c == Compose(a, b) IN
                 MScale(AdDen(a) * AdDen(b), AdNum(c)) = MScale(AdDen(c), MMul(AdNum(a), AdNum(b)))
ThAdInv(S)  == \A a \in S : MMul(AdNum(Inv(a)), AdNum(a)) = MScale(AdDen(Inv(a)) * AdDen(a), MId(6))
Scale6(k, v) == [i \in 1..6 |-> k * v[i]]
\* Ad(T) S = vee( T [S] T^-1 )  (linear in S: basis suffices)
ThAdVee(S)  == \A a \in S : \A s \in Basis6 :
                 LET lhs == MVec(AdNum(a), s)                                                   \* over AdDen(a)
                     M   == MMul(MMul(HomNum(a), SkewA6(s)), HomNum(Inv(a)))                    \* over AdDen(a) AdDen(Inv a)
                 IN Scale6(AdDen(Inv(a)), lhs) = VexA6(M)
\* tr2delta o delta2tr = id   (exact: vex of the skew part)
ThDelta     == \A s \in Basis6 : Tr2DeltaNum(Delta2Tr(s), 1) = s
\* ---- planar adjoint (SE(2) as the planar subgroup of SE(3); twist order (vx, vy, w)) ---------------------
\* For a planar m = [q = (a,0,0,c), t = (x,y,0), d]:  R2 = top-left 2x2 of RotNum(q) / N, t2 = (x, y) / d.
\*   Ad2(T) = [[R2, (t_y ; -t_x)], [0 0 1]]           (Eade; the library's adjoint2)
\* numerator over AdDen(m) = N d:  [[d R2', N (y ; -x)], [0, 0, N d]]
Ad2Num(m) == LET R == RotNum(m.q)  N == QN(m.q) IN
             << << m.d * R[1][1], m.d * R[1][2],  N * m.t[2] >>,
                << m.d * R[2][1], m.d * R[2][2], -N * m.t[1] >>,
                << 0, 0, N * m.d >> >>
\* homogeneous 3x3 numerator over N d
Hom2Num(m) == LET H == HomNum(m) IN
              << << H[1][1], H[1][2], H[1][4] >>, << H[2][1], H[2][2], H[2][4] >>, << 0, 0, H[4][4] >> >>
Scale3v(k, v) == [i \in 1..3 |-> k * v[i]]
\* Ad2 is a homomorphism on the planar subgroup, Ad2(T^-1) Ad2(T) = I
ThAd2Hom(S) == \A a \in S : \A b \in S :
                 LET c == Compose(a, b) IN
                 /\ Planar(c)
                 /\ MScale(AdDen(a) * AdDen(b), Ad2Num(c)) = MScale(AdDen(c), MMul(Ad2Num(a), Ad2Num(b)))
ThAd2Inv(S) == \A a \in S : MMul(Ad2Num(Inv(a)), Ad2Num(a)) = MScale(AdDen(Inv(a)) * AdDen(a), MId(3))
\* Ad2(T) s = vee( T [s] T^-1 )   (linear in s)
ThAd2Vee(S) == \A a \in S : \A s \in Basis3 :
                 LET lhs == MVec(Ad2Num(a), s)
                     M   == MMul(MMul(Hom2Num(a), SkewA3(s)), Hom2Num(Inv(a)))
                 IN Scale3v(AdDen(Inv(a)), lhs) = VexA3(M)
\* Ad2 is the restriction of the spatial adjoint to the planar twist coordinates (vx, vy, wz) = rows/columns 1, 2, 6
ThAd2Embed(S) == \A a \in S : LET A == AdNum(a)  ix == <<1, 2, 6>> IN
                   Ad2Num(a) = [i \in 1..3 |-> [j \in 1..3 |-> A[ix[i]][ix[j]]]]
\* exp(ad S) = Ad(exp S) at quarter-turn twists about coordinate axes through integer points:
\* ad(S)^2 and Ad relate through the finite series for a quarter turn - checked by the harness numerically;
\* here: Ad of a quarter turn about axis e has order 4
\* (for translations orthogonal to the axis: zero-pitch screws)
ThAdOrder4  == \A q \in { <<1,1,0,0>>, <<1,0,1,0>>, <<1,0,0,1>> } : \A t \in T3(1) :
                 Dot(t, << q[2], q[3], q[4] >>) = 0 =>
                   LET m == Mk(q, t, 1)  m4 == Pow(m, 4) IN AdNum(m4) = MScale(AdDen(m4), MId(6))
=============================================================================
