--------------------------- MODULE MC_SpatialMath ---------------------------
EXTENDS SpatialMath
HC3 == {"SO3", "SE3", "UnitQuaternion", "Twist3", "Quaternion"}
HC2 == {"SO2", "SE2", "Twist2"}
HCAll == HC3 \cup HC2
HC3small == {"SO3", "SE3", "UnitQuaternion"}
=============================================================================
