INIT TraceInit
NEXT TraceNext
CONSTANTS
  Unary = FALSE
  Lens = {1}
  OpSet = {"*"}
  LeftKinds = {"SE3"}
  RightKinds = {"SE3"}
INVARIANT Final
POSTCONDITION TraceDone
CHECK_DEADLOCK FALSE
