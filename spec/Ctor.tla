-------------------------------- MODULE Ctor --------------------------------
(***************************************************************************)
(* The constructor layer: every named way of building a rotation / rigid   *)
(* motion, as one action each, with its exact value on the exact angle     *)
(* domain.  One construction per behaviour; the replay harness binds each  *)
(* action to all entry points that implement it (base function, SO3, SE3,  *)
(* UnitQuaternion, ...; Appendix D of DESIGN.md) in both angular units.    *)
(***************************************************************************)
EXTENDS ExactAngles, Json

CONSTANTS VTags1,    \* symbolic angle tags (valuation regime) for single-angle constructors
          VTags3,    \* ... for three-angle constructors
          VLens,     \* axis-length tags
          VTrans,    \* translation-magnitude tags
          Ang1,      \* angles for single-angle constructors
          Ang3,      \* angles for three-angle constructors
          QSet,      \* integer quaternions for axis-angle / quaternion constructors
          TSet       \* integer translations

VARIABLES fn, par, val
vars == <<fn, par, val>>

Init == fn = "none" /\ par = <<>> /\ val = Hom(Ident)

Do(f, p, m) == fn = "none" /\ fn' = f /\ par' = p /\ val' = Hom(m)

CRot(ax, g)          == Do("rot", [ax |-> ax, g |-> g], RotAbout(ax, g))
CRPY(o, r, p, y)     == Do("rpy", [order |-> o, r |-> r, p |-> p, y |-> y,
                                   singular |-> RPYSingular(p)], RotQ(RPYQ(o, r, p, y)))
CEul(a, b, c)        == Do("eul", [phi |-> a, theta |-> b, psi |-> c,
                                   singular |-> EulSingular(b)], RotQ(EulQ(a, b, c)))
\* axis-angle: rotation by 2 atan2(|v|, s) about v, for the integer quaternion (s, v)
CAngVec(q)           == Do("angvec", [q |-> q], RotQ(q))
COA(o, a)            == Do("oa", [o |-> o, a |-> a], RotQ(<<1,0,0,0>>))   \* value given by matrix below
CTransl(t)           == Do("transl", [t |-> t], Trans(t, 1))
CRotTransl(ax, g, t) == Do("rot+t", [ax |-> ax, g |-> g, t |-> t], Compose(Trans(t, 1), RotAbout(ax, g)))

\* ---- valuation regime: the same constructors at symbolic (real-valued) arguments.  The spec does
\* not know the value (den = 0 marks "no exact value"); the conformance relation is the validity
\* predicate of C01 and cross-entry-point agreement.
NoVal == [num |-> <<>>, den |-> 0, q |-> <<>>, qn |-> 0]
DoV(f, p) == fn = "none" /\ fn' = f /\ par' = p /\ val' = NoVal
Dirs == { <<1,0,0>>, <<0,0,1>>, <<1,1,0>>, <<1,1,1>>, <<1,-2,3>>, <<-3,0,1>> }

VRot(ax, a)        == DoV("v-rot", [ax |-> ax, a |-> a])
VRPY(o, a, b, c)   == DoV("v-rpy", [order |-> o, r |-> a, p |-> b, y |-> c])
VEul(a, b, c)      == DoV("v-eul", [phi |-> a, theta |-> b, psi |-> c])
VAngVec(a, dir, len) == DoV("v-angvec", [a |-> a, dir |-> dir, len |-> len])
VOA(o, a, lo, la)  == DoV("v-oa", [o |-> o, a |-> a, lo |-> lo, la |-> la])
VPose(ax, a, dir, tm) == DoV("v-pose", [ax |-> ax, a |-> a, dir |-> dir, tm |-> tm])
\* interpolation as a constructor of group members (C01) : relative rotation angle tag d between the
\* end points, interpolation parameter tag s, with / without an explicit start, per entry point
InterpEntries == {"SO2", "SE2", "SO3", "SE3", "UnitQuaternion", "trinterp(R)", "trinterp(T)",
                  "trinterp2(R)", "trinterp2(T)", "slerp"}
DTags == {"1e-12", "1e-9", "1e-6", "1e-4", "1e-3", "1e-2", "0.05", "0.5", "2", "pi-1e-6"}
STags == {"0", "1e-12", "0.25", "0.5", "0.9", "1-1e-12", "1"}
VInterp(c, dt, st, ws, dir) == DoV("v-interp", [entry |-> c, d |-> dt, s |-> st, start |-> ws, dir |-> dir])

\* normalisation as a constructor of group members (C01): a member spoiled in a named way and then normalised must be
\* a valid member again, for every entry point (base function, class method, 2D and 3D, quaternion)
NormNoise == {"round-2", "round-3", "round-4", "entry+1e-3", "entry+1e-6", "shear-1e-2", "scale-1.001", "column-scale-1.01", "none"}
NormEntries == {"trnorm(R)", "trnorm(T)", "SO3.norm", "SE3.norm", "trnorm2(R)", "trnorm2(T)", "SO2.norm", "SE2.norm",
                "UnitQuaternion.unit", "Quaternion.unit", "base.unit"}
VNorm(e, nz, dir) == DoV("v-norm", [entry |-> e, noise |-> nz, dir |-> dir])

Next ==
  \/ \E e \in NormEntries : \E nz \in NormNoise : \E dir \in {<<1,0,0>>, <<1,-2,3>>, <<1,1,1>>} : VNorm(e, nz, dir)
  \/ \E ax \in {"x", "y", "z"} : \E a \in VTags1 : VRot(ax, a)
  \/ \E o \in OrderNames : \E a \in VTags3 : \E b \in VTags3 : \E c \in VTags3 : VRPY(o, a, b, c)
  \/ \E a \in VTags3 : \E b \in VTags3 : \E c \in VTags3 : VEul(a, b, c)
  \/ \E a \in VTags1 : \E dir \in Dirs : \E len \in VLens : VAngVec(a, dir, len)
  \* (the two-vector frame takes vectors of ordinary length: the product of two tiny lengths is below the library's
  \*  documented zero-vector threshold, so the tiny axis lengths belong to the axis-angle forms only)
  \/ \E o \in Dirs : \E a \in Dirs : \E lo \in VLens \ {"1e-9", "2e-7"} : \E la \in VLens \ {"1e-9", "2e-7"} :
        Cross(o, a) # <<0,0,0>> /\ VOA(o, a, lo, la)
  \/ \E ax \in {"x", "y", "z"} : \E a \in VTags1 : \E dir \in Dirs : \E tm \in VTrans : VPose(ax, a, dir, tm)
  \/ \E c \in InterpEntries : \E dt \in DTags : \E st \in STags : \E ws \in BOOLEAN :
        \E dir \in {<<1,0,0>>, <<1,-2,3>>} : VInterp(c, dt, st, ws, dir)
  \/ \E ax \in {"x", "y", "z"} : \E g \in Ang1 : CRot(ax, g)
  \/ \E o \in OrderNames : \E r \in Ang3 : \E p \in Ang3 : \E y \in Ang3 : CRPY(o, r, p, y)
  \/ \E a \in Ang3 : \E b \in Ang3 : \E c \in Ang3 : CEul(a, b, c)
  \/ \E q \in QSet : CAngVec(q)
  \/ \E t \in TSet : CTransl(t)
  \/ \E ax \in {"x", "y", "z"} : \E g \in Ang1 : \E t \in TSet : CRotTransl(ax, g, t)

Spec == Init /\ [][Next]_vars

\* the exact value of every construction is a valid member (C01 on the model)
ValOK ==
  LET n == val.num  d == val.den
      R == << <<n[1][1], n[1][2], n[1][3]>>, <<n[2][1], n[2][2], n[2][3]>>, <<n[3][1], n[3][2], n[3][3]>> >>
  IN d = 0 \/
     /\ d > 0
     /\ MatMul(R, Transpose(R)) = ScaleM(d * d, Ident3)
     /\ Cross(R[1], R[2]) = Scale3(d, R[3])            \* proper (right-handed), without cubing d
     /\ n[4] = <<0, 0, 0, d>>

\* the three axis orders really differ, aliases do not (sanity of the transcription)
OrderSanity ==
  /\ \A o \in Orders : \A g \in Ang1 :
        /\ RotQ(RPYQ(o, g, <<1,0>>, <<1,0>>)) = RotAbout(IF o = "zyx" THEN "x" ELSE "z", g)
        /\ RotQ(RPYQ(o, <<1,0>>, <<1,0>>, g)) = RotAbout(CASE o = "zyx" -> "z" [] o = "xyz" -> "x" [] o = "yxz" -> "y", g)
  /\ RotQ(RPYQ("vehicle", <<2,1>>, <<3,1>>, <<1,2>>)) = RotQ(RPYQ("zyx", <<2,1>>, <<3,1>>, <<1,2>>))
  /\ RotQ(RPYQ("zyx", <<2,1>>, <<3,1>>, <<1,2>>)) # RotQ(RPYQ("xyz", <<2,1>>, <<3,1>>, <<1,2>>))
  /\ RotQ(RPYQ("yxz", <<2,1>>, <<3,1>>, <<1,2>>)) # RotQ(RPYQ("xyz", <<2,1>>, <<3,1>>, <<1,2>>))

EdgeOut == PrintT(ToJson([fn |-> fn', par |-> par', val |-> val']))
=============================================================================
