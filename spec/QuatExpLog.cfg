INIT Init
NEXT Next
CONSTANTS
  Box <- B2
  SS <- S3
  US <- UFew
ACTION_CONSTRAINT EdgeOut
CHECK_DEADLOCK FALSE
