INIT Init
NEXT Next
CONSTANTS
  Rep0 = "SE3"
  Convs <- EveryConv
  Starts <- IdentOnly
  Leaves <- Gens3
  Exps <- NoExps
  MaxDepth <- Unlimited
  TBound = 1
  MaxQN = 1000000
  MaxDen = 1000000
  Export = "edges"
ACTION_CONSTRAINT EdgeOut
INVARIANT C01_Closure
INVARIANT C04_RepShape
PROPERTY C04_ConvKeeps
VIEW View
CHECK_DEADLOCK FALSE
