INIT Init
NEXT Next
CONSTANTS
  Rep0 = "all"
  Convs <- NoConvs
  Starts <- CubeLeaves
  Leaves <- CubeLeaves
  Exps <- ExpsFull
  MaxDepth = 1
  TBound <- Unlimited
  MaxQN = 500
  MaxDen = 200
  Export = "edges"
ACTION_CONSTRAINT EdgeOut
INVARIANT C01_Closure
INVARIANT C02_Pair
INVARIANT C02_Pow
CHECK_DEADLOCK FALSE
