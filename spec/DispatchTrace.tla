--------------------------- MODULE DispatchTrace ---------------------------
(***************************************************************************)
(* Operator calls recorded from real executions (the repository's tests),  *)
(* at the level of the special methods, judged against Dispatch!Doc.       *)
(* At that level "defer" (NotImplemented) is a legitimate way not to       *)
(* produce a value: Python then tries the reflected method or raises.      *)
(***************************************************************************)
EXTENDS Dispatch, IOUtils

Log == ndJsonDeserialize(IOEnv.TRACE)
VARIABLES l, bad, judged
tvars == <<vars, l, bad, judged>>

Conforms(e) ==
  LET known == e.l.c \in Kinds /\ e.r.c \in Kinds
      o == IF known THEN Outcome(e.op, e.l.c, e.l.n, e.r.c, e.r.n) ELSE [doc |-> Unspec, len |-> 0, picks |-> <<>>]
      dd == o.doc
  IN CASE dd.k = "unspec" -> TRUE
       [] dd.k = "raise"  -> e.res.k \in {"raise", "defer"}
       [] e.res.k = "defer" -> TRUE        \* the reflected method gets its chance; judged there
       [] dd.k = "obj"    -> e.res.k = "obj" /\ e.res.cls = dd.cls /\ (o.len > 0 => e.res.n = o.len)
       [] dd.k = "array"  -> e.res.k = "array"
       [] dd.k = "bool"   -> e.res.k = "bool" /\ (o.len > 0 => e.res.n = o.len)
       [] dd.k = "scalar" -> e.res.k = "scalar"
       [] OTHER -> FALSE

IsJudged(e) ==
  e.l.c \in Kinds /\ e.r.c \in Kinds /\ Outcome(e.op, e.l.c, e.l.n, e.r.c, e.r.n).doc.k # "unspec"

TraceInit == Init /\ l = 1 /\ bad = <<>> /\ judged = 0

Consume ==
  /\ l <= Len(Log)
  /\ LET e == Log[l] IN
       /\ bad' = IF Conforms(e) THEN bad ELSE Append(bad, l)
       /\ judged' = IF IsJudged(e) THEN judged + 1 ELSE judged
       /\ op' = e.op /\ lft' = e.l /\ rgt' = e.r
       /\ out' = IF e.l.c \in Kinds /\ e.r.c \in Kinds
                 THEN Outcome(e.op, e.l.c, e.l.n, e.r.c, e.r.n)
                 ELSE [doc |-> Unspec, len |-> 0, picks |-> <<>>]
  /\ l' = l + 1

TraceNext == Consume
Final == l <= Len(Log) \/ JsonSerialize(IOEnv.VERDICT, [lines |-> Len(Log), rejected |-> bad, judged |-> judged])
TraceDone == TLCGet("stats").diameter - 1 = Len(Log)
=============================================================================
