------------------------------ MODULE ExactQuat ------------------------------
(***************************************************************************)
(* The Hamilton algebra over the integers (C12) and its dual-number        *)
(* extension.  Every identity below is a polynomial identity; each carries *)
(* the grid on which TLC evaluates it and the reason that grid suffices:   *)
(* a polynomial of degree <= d in each variable that vanishes on a grid    *)
(* with d+1 values per variable is the zero polynomial; a multilinear      *)
(* identity holds iff it holds on all tuples of basis vectors.  So TLC     *)
(* checking them is a PROOF for the specification over any commutative     *)
(* ring, in particular the reals.                                          *)
(***************************************************************************)
EXTENDS ExactRigid

QAdd(p, q)   == << p[1]+q[1], p[2]+q[2], p[3]+q[3], p[4]+q[4] >>
QSub(p, q)   == << p[1]-q[1], p[2]-q[2], p[3]-q[3], p[4]-q[4] >>
QScale(k, q) == << k*q[1], k*q[2], k*q[3], k*q[4] >>
QNeg(q)      == QScale(-1, q)
QInner(p, q) == p[1]*q[1] + p[2]*q[2] + p[3]*q[3] + p[4]*q[4]
QPure(v)     == << 0, v[1], v[2], v[3] >>
QVec(q)      == << q[2], q[3], q[4] >>
QZero        == <<0, 0, 0, 0>>

RECURSIVE QPowNat(_, _)
QPowNat(q, n) == IF n = 0 THEN QOne ELSE QMul(QPowNat(q, n - 1), q)
\* the library's convention (statement of C12): a negative power is the conjugate of the positive one
QPow(q, n) == IF n >= 0 THEN QPowNat(q, n) ELSE QConj(QPowNat(q, -n))

\* 4x4 matrix of left multiplication:  QMatrix(p) * q = p q
QMatrix(p) == << << p[1], -p[2], -p[3], -p[4] >>,
                 << p[2],  p[1], -p[4],  p[3] >>,
                 << p[3],  p[4],  p[1], -p[2] >>,
                 << p[4], -p[3],  p[2],  p[1] >> >>
Dot4(a, b) == a[1]*b[1] + a[2]*b[2] + a[3]*b[3] + a[4]*b[4]
Mat4Vec(M, v) == << Dot4(M[1], v), Dot4(M[2], v), Dot4(M[3], v), Dot4(M[4], v) >>

\* kinematic rate maps, doubled to stay in the integers:  2 qdot
RateWorld2(q, w) == QMul(QPure(w), q)        \* angular velocity in the world frame:  qdot = 1/2 w q
RateBody2(q, w)  == QMul(q, QPure(w))        \* angular velocity in the body frame:   qdot = 1/2 q w

\* ---- dual quaternions  a = r + eps d ------------------------------------------------------
DQ(r, d)     == [r |-> r, d |-> d]
DQAdd(a, b)  == DQ(QAdd(a.r, b.r), QAdd(a.d, b.d))
DQSub(a, b)  == DQ(QSub(a.r, b.r), QSub(a.d, b.d))
DQMul(a, b)  == DQ(QMul(a.r, b.r), QAdd(QMul(a.r, b.d), QMul(a.d, b.r)))
DQConj(a)    == DQ(QConj(a.r), QConj(a.d))                \* the library's conj(): both parts conjugated
DQVec(a)     == a.r \o a.d                                  \* 8-vector
\* 8x8 matrix form [[M(r), 0], [M(d), M(r)]]
DQMatVec(a, v) ==
  LET v1 == SubSeq(v, 1, 4)  v2 == SubSeq(v, 5, 8) IN
  Mat4Vec(QMatrix(a.r), v1) \o QAdd(Mat4Vec(QMatrix(a.d), v1), Mat4Vec(QMatrix(a.r), v2))
\* norm as a dual number (squared): a * conj(a) = N(r) + eps 2 <r, d>
DQNorm2(a)   == << QN(a.r), QMul(a.r, QConj(a.d))[1] + QMul(a.d, QConj(a.r))[1] >>
\* rigid motion -> dual quaternion, doubled dual part:  r = q,  2 d = t q  (t pure), unnormalised
Scale4(k, q) == QScale(k, q)
DQFromRigid2(m) == DQ(Scale4(m.d, m.q), QMul(QPure(m.t), m.q))

\* ---- sufficient grids -------------------------------------------------------------------------
B01  == {0, 1}
B012 == {0, 1, 2}
Q01  == B01 \X B01 \X B01 \X B01
Q012 == B012 \X B012 \X B012 \X B012
Basis4 == { <<1,0,0,0>>, <<0,1,0,0>>, <<0,0,1,0>>, <<0,0,0,1>> }
V01  == B01 \X B01 \X B01
DQBasis == { DQ(e, QZero) : e \in Basis4 } \cup { DQ(QZero, e) : e \in Basis4 }

\* ---- the theorems ---------------------------------------------------------------------------------
ThAssoc      == \A p \in Q01 : \A q \in Q01 : \A r \in Q01 : QMul(QMul(p, q), r) = QMul(p, QMul(q, r))   \* trilinear
ThDistrib    == \A p \in Q01 : \A q \in Q01 : \A r \in Q01 :
                   /\ QMul(p, QAdd(q, r)) = QAdd(QMul(p, q), QMul(p, r))
                   /\ QMul(QAdd(p, q), r) = QAdd(QMul(p, r), QMul(q, r))
ThNormMult   == \A p \in Q012 : \A q \in Q012 : QN(QMul(p, q)) = QN(p) * QN(q)                           \* degree 2 per variable
ThConjRev    == \A p \in Q01 : \A q \in Q01 : QConj(QMul(p, q)) = QMul(QConj(q), QConj(p))              \* bilinear
ThQConjQ     == \A q \in Q012 : QMul(q, QConj(q)) = << QN(q), 0, 0, 0 >>                                  \* degree 2
ThMatrix     == \A p \in Q01 : \A q \in Q01 : Mat4Vec(QMatrix(p), q) = QMul(p, q)                        \* bilinear
ThPow        == \A q \in Q012 : \A n \in 0..5 :
                   /\ QPow(q, n + 1) = QMul(QPow(q, n), q)
                   /\ QPow(q, n + 1) = QMul(q, QPow(q, n))
                   /\ QPow(q, -n) = QConj(QPow(q, n))
ThRate       == \A q \in Q01 : \A w \in V01 :
                   /\ RateWorld2(q, w) = Mat4Vec(QMatrix(QPure(w)), q)
                   /\ RateBody2(q, w)[1] = -Dot(QVec(q), w)                                             \* scalar part = -v.w
ThDQAssoc    == \A a \in DQBasis : \A b \in DQBasis : \A c \in DQBasis :
                   DQMul(DQMul(a, b), c) = DQMul(a, DQMul(b, c))                                        \* trilinear: basis suffices
ThDQDistrib  == \A a \in DQBasis : \A b \in DQBasis : \A c \in DQBasis :
                   DQMul(a, DQAdd(b, c)) = DQAdd(DQMul(a, b), DQMul(a, c))
ThDQMatrix   == \A a \in DQBasis : \A b \in DQBasis : DQMatVec(a, DQVec(b)) = DQVec(DQMul(a, b))       \* bilinear
ThDQConj     == \A a \in DQBasis : \A b \in DQBasis : DQConj(DQMul(a, b)) = DQMul(DQConj(b), DQConj(a))
\* every dual quaternion built from a rigid motion has dual norm part 0 (unit after scaling): on the lattice
ThDQUnit     == \A q \in RatQ(2) : \A t \in T3(1) : DQNorm2(DQFromRigid2(Mk(q, t, 1)))[2] = 0
\* and the map is a homomorphism (up to the doubled dual part and scale): (q1,t1)(q2,t2)
ThDQHom      == \A q1 \in RatQ(1) : \A q2 \in RatQ(1) : \A t1 \in {<<0,0,0>>, <<1,-1,0>>, <<0,1,1>>} : \A t2 \in {<<1,0,0>>, <<0,1,-1>>} :
                   LET a == DQFromRigid2(Mk(q1, t1, 1))  b == DQFromRigid2(Mk(q2, t2, 1))
                       ab == DQ(QMul(a.r, b.r), QAdd(QMul(a.r, b.d), QMul(a.d, b.r)))       \* both dual parts doubled
                       \* the UNCANONICALISED composition: q1 q2,  t = N(q1) t1 + RotNum(q1) t2  over N(q1)
                       tt == Add3(Scale3(QN(q1), t1), MatVec(RotNum(q1), t2))
                       c  == DQ(Scale4(QN(q1), QMul(q1, q2)), QMul(QPure(tt), QMul(q1, q2)))
                   IN ab.r = QMul(q1, q2) /\ Scale4(QN(q1), ab.d) = c.d
=============================================================================
