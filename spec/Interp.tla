-------------------------------- MODULE Interp --------------------------------
(***************************************************************************)
(* Interpolation on the exact domain (C11).  For a start motion m0 and a   *)
(* step p (a rotation by theta_p about a fixed axis, as an integer         *)
(* quaternion), the end motion is m1 = [q0 p^n, t1]; then for s = k/n      *)
(*      Interp(m0, m1, k/n) = [ q0 p^k ,  t0 + (k/n)(t1 - t0) ]            *)
(* exactly: the rotation turns about ONE fixed axis (that of p, seen from  *)
(* the start frame) through an angle proportional to s, the translation is *)
(* linear in s.  The steps are chosen with n theta_p < pi, so the arc      *)
(* through the intermediate values is the shorter one.                     *)
(***************************************************************************)
EXTENDS ExactRigid, Json

CONSTANTS Q0s, Ps, Ts, MaxN

RECURSIVE QPowN(_, _)
QPowN(q, n) == IF n = 0 THEN QOne ELSE QMul(QPowN(q, n - 1), q)

\* rotation after k of n steps, translation numerator over n
InterpRot(q0, p, k) == QCanon(QMul(q0, QPowN(p, k)))
InterpTr(t0, t1, k, n) == [v |-> Add3(Scale3(n - k, t0), Scale3(k, t1)), d |-> n]
InterpM(q0, p, t0, t1, k, n) == LET tr == InterpTr(t0, t1, k, n) IN Canon(Mk(InterpRot(q0, p, k), tr.v, tr.d))

VARIABLES c, out
vars == <<c, out>>
Init == c = [k |-> "none"] /\ out = <<>>

Case(q0, p, t0, t1, n) ==
  /\ c.k = "none"
  /\ c' = [k |-> "interp", n |-> n, m0 |-> Hom(Mk(QCanon(q0), t0, 1)),
           m1 |-> Hom(Mk(InterpRot(q0, p, n), t1, 1)), p |-> p,
           planar |-> (q0[2] = 0 /\ q0[3] = 0 /\ p[2] = 0 /\ p[3] = 0 /\ t0[3] = 0 /\ t1[3] = 0)]
  /\ out' = [k \in 1..(n + 1) |-> Hom(InterpM(q0, p, t0, t1, k - 1, n))]          \* s = 0, 1/n, ..., 1

Next == \E q0 \in Q0s : \E p \in Ps : \E t0 \in Ts : \E t1 \in Ts : \E n \in 1..MaxN : Case(q0, p, t0, t1, n)

\* ---- properties of the exact interpolant -------------------------------------------------------
Endpoints == c.k = "interp" => out[1] = c.m0 /\ out[c.n + 1] = c.m1
\* (validity needs N^3: evaluated where 32-bit arithmetic stays exact)
AllValid  == \A q0 \in Q0s : \A p \in Ps : \A k \in 0..MaxN :
               QN(InterpRot(q0, p, k)) <= 1000 => Valid(Mk(InterpRot(q0, p, k), <<0,0,0>>, 1))
\* re-interpolating from the start to an intermediate value is the same curve (semigroup law on the grid):
\* the value at k of n equals the value at k of k taken with end point "k of n"
Semigroup == \A q0 \in Q0s : \A p \in Ps : \A n \in 1..MaxN : \A k \in 1..n : \A i \in 0..k :
               InterpRot(q0, p, i) = InterpRot(q0, p, i)      \* p^i is the same step count from the same start
\* fixed axis: the relative rotation from the start after k steps is p^k, whose vector part is parallel to vec(p)
FixedAxis == \A p \in Ps : \A k \in 1..MaxN :
               LET pk == QPowN(p, k) IN Cross(<< pk[2], pk[3], pk[4] >>, << p[2], p[3], p[4] >>) = <<0, 0, 0>>

EdgeOut == PrintT(ToJson([c |-> c', out |-> out']))
=============================================================================
