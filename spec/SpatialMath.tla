----------------------------- MODULE SpatialMath -----------------------------
(***************************************************************************)
(* The system specification: a heap of library objects and plain arrays,   *)
(* transformed by the public API.  It composes                             *)
(*   Dispatch  - which operand pairs produce what (C08) and the length     *)
(*               rule of vectorised operators (C09)                        *)
(*   the list layer (lengths of SMList, C10)                               *)
(*   conversions between representations (C04)                            *)
(* into one state machine whose behaviours are PROGRAMS in which results   *)
(* flow into later calls.  The abstract value of an object here is its     *)
(* class and the number of values it holds (exact values live in           *)
(* GroupMachine / PointAction); what this module adds is the frame         *)
(* condition (C17): a step changes nothing but its designated target.      *)
(***************************************************************************)
EXTENDS DispatchTable

CONSTANTS MaxObjs, MaxLenH, MaxSteps, HeapClasses, KeepHist

Ids == 1..MaxObjs
NoObj == [cls |-> "none", n |-> 0]

VARIABLES heap,      \* [Ids -> object record or NoObj]; arrays are objects of class "array"
          step,      \* the last call (exported to the replay harness)
          cnt,
          hist       \* history of calls and heaps (exported for replay when KeepHist)
hvars == <<heap, step, cnt>>

Live(i)  == heap[i].cls # "none"
Free     == { i \in Ids : ~Live(i) }
Slot     == CHOOSE i \in Free : \A k \in Free : i <= k        \* deterministic allocation
Obj(c, n) == [cls |-> c, n |-> n]

HInit == heap = [i \in Ids |-> NoObj] /\ step = [op |-> "init"] /\ cnt = 0

\* a step that allocates a result (or nothing) and mutates at most `target`
Do(call, newheap) ==
  /\ cnt < MaxSteps
  /\ heap' = newheap
  /\ step' = call
  /\ cnt' = cnt + 1

Alloc(o)   == [heap EXCEPT ![Slot] = o]

\* ---- constructors -------------------------------------------------------------------
New(c, n) ==
  /\ Free # {}
  /\ Do([op |-> "new", cls |-> c, n |-> n, res |-> Slot, mut |-> 0], Alloc(Obj(c, n)))

NewArray ==          \* a conforming point / vector array
  /\ Free # {}
  /\ Do([op |-> "newarray", res |-> Slot, mut |-> 0], Alloc(Obj("array", 1)))

\* ---- binary operators (never mutate an operand) ---------------------------------------
KindOf(i) == IF heap[i].cls = "array" THEN "Vec" ELSE heap[i].cls

BinOp(o, i, j) ==
  /\ Live(i) /\ Live(j) /\ heap[i].cls # "array"
  /\ heap[i].n >= 1 /\ heap[j].n >= 1
  /\ LET out == Outcome(o, KindOf(i), heap[i].n, KindOf(j), heap[j].n)
         k == out.doc.k IN
     /\ k # "unspec"
     /\ IF k = "obj" /\ Free # {}
        THEN Do([op |-> "binop", o |-> o, l |-> i, r |-> j, res |-> Slot, mut |-> 0, exp |-> out.doc],
                Alloc(Obj(out.doc.cls, IF out.len > 0 THEN out.len ELSE 1)))
        ELSE IF k = "obj" THEN FALSE
        ELSE Do([op |-> "binop", o |-> o, l |-> i, r |-> j, res |-> 0, mut |-> 0, exp |-> out.doc], heap)

\* augmented assignment  x op= y : rebinds x to the result; y is unchanged
AugOp(o, i, j) ==
  /\ Live(i) /\ Live(j) /\ heap[i].cls \in Pose \cup Quats /\ heap[i].n >= 1 /\ heap[j].n >= 1
  /\ LET out == Outcome(o, KindOf(i), heap[i].n, KindOf(j), heap[j].n) IN
     /\ out.doc.k = "obj"
     /\ Do([op |-> "augop", o |-> o, l |-> i, r |-> j, res |-> i, mut |-> i, exp |-> out.doc],
           [heap EXCEPT ![i] = Obj(out.doc.cls, IF out.len > 0 THEN out.len ELSE 1)])

\* ---- per-value methods: a new object of the same length, receiver unchanged ------------
SameClassMethods(c) ==
  CASE c \in Pose -> {"inv", "norm"}
    [] c = "Quaternion" -> {"conj"}
    [] c = "UnitQuaternion" -> {"inv", "conj", "unit"}
    [] c \in Twists -> {"inv"}
    [] OTHER -> {}

Method(f, i) ==
  /\ Live(i) /\ heap[i].n >= 1 /\ Free # {}
  /\ f \in SameClassMethods(heap[i].cls)
  /\ Do([op |-> "method", f |-> f, l |-> i, res |-> Slot, mut |-> 0], Alloc(heap[i]))

\* accessors returning plain arrays / numbers: nothing allocated in the heap, nothing changed
Accessor(f, i) ==
  /\ Live(i) /\ heap[i].n >= 1
  /\ f \in PerValue(heap[i].cls) \ SameClassMethods(heap[i].cls)
  /\ Do([op |-> "accessor", f |-> f, l |-> i, res |-> 0, mut |-> 0], heap)

\* ---- conversions (C04): a new object of the target class, same number of values --------
ConvPairs == { <<"SO3", "UnitQuaternion">>, <<"UnitQuaternion", "SO3">>, <<"UnitQuaternion", "SE3">>,
               <<"SE3", "UnitQuaternion">>, <<"SE3", "Twist3">>, <<"Twist3", "SE3">>,
               <<"SO2", "SE2">>, <<"SE2", "Twist2">>, <<"Twist2", "SE2">>, <<"SE2", "SE3">> }
Convert(i, to) ==
  /\ Live(i) /\ Free # {} /\ heap[i].n = 1        \* conversions of single values (sequences: C09)
  /\ <<heap[i].cls, to>> \in ConvPairs
  /\ Do([op |-> "convert", l |-> i, to |-> to, res |-> Slot, mut |-> 0], Alloc(Obj(to, heap[i].n)))

\* ---- the list layer (lengths only; positions are SMList's subject) -----------------------
IsList(i) == Live(i) /\ heap[i].cls \in ListOps

LAppend(i, j) ==
  /\ IsList(i) /\ Live(j) /\ heap[j].n >= 1         \* an EMPTY argument object is not specified by C10
  /\ LET ok == heap[j].cls = heap[i].cls /\ heap[j].n = 1 /\ heap[i].n < MaxLenH IN
     /\ (heap[j].cls = heap[i].cls /\ heap[j].n = 1 => heap[i].n < MaxLenH)
     /\ Do([op |-> "append", l |-> i, r |-> j, res |-> 0, mut |-> IF ok THEN i ELSE 0, raises |-> ~ok],
           IF ok THEN [heap EXCEPT ![i].n = @ + 1] ELSE heap)

LExtend(i, j) ==
  /\ IsList(i) /\ Live(j) /\ i # j /\ heap[j].n >= 1
  /\ LET ok == heap[j].cls = heap[i].cls IN
     /\ (ok => heap[i].n + heap[j].n <= MaxLenH)
     /\ Do([op |-> "extend", l |-> i, r |-> j, res |-> 0, mut |-> IF ok THEN i ELSE 0, raises |-> ~ok],
           IF ok THEN [heap EXCEPT ![i].n = @ + heap[j].n] ELSE heap)

SetItem(i, j) ==
  /\ IsList(i) /\ Live(j) /\ heap[i].n >= 1 /\ heap[j].n >= 1
  /\ LET ok == heap[j].cls = heap[i].cls /\ heap[j].n = 1 IN
     Do([op |-> "setitem0", l |-> i, r |-> j, res |-> 0, mut |-> IF ok THEN i ELSE 0, raises |-> ~ok], heap)

Pop(i) ==
  /\ IsList(i) /\ Free # {}
  /\ IF heap[i].n >= 1
     THEN Do([op |-> "pop", l |-> i, res |-> Slot, mut |-> i, raises |-> FALSE],
             [Alloc(Obj(heap[i].cls, 1)) EXCEPT ![i].n = @ - 1])
     ELSE Do([op |-> "pop", l |-> i, res |-> 0, mut |-> 0, raises |-> TRUE], heap)

Reverse(i) ==
  /\ IsList(i)
  /\ Do([op |-> "reverse", l |-> i, res |-> 0, mut |-> i, raises |-> FALSE], heap)

GetItem(i) ==
  /\ IsList(i) /\ heap[i].n >= 1 /\ Free # {}
  /\ Do([op |-> "getitem-1", l |-> i, res |-> Slot, mut |-> 0], Alloc(Obj(heap[i].cls, 1)))

SliceRev(i) ==
  /\ IsList(i) /\ Free # {}
  /\ Do([op |-> "slice-rev", l |-> i, res |-> Slot, mut |-> 0], Alloc(heap[i]))

Copy(i) ==
  /\ IsList(i) /\ Free # {} /\ heap[i].n >= 1
  /\ Do([op |-> "copy", l |-> i, res |-> Slot, mut |-> 0], Alloc(heap[i]))

Drop(i) ==
  /\ Live(i)
  /\ Do([op |-> "drop", l |-> i, res |-> 0, mut |-> i], [heap EXCEPT ![i] = NoObj])

HNext ==
  \/ \E c \in HeapClasses : \E n \in 1..3 : n <= MaxLenH /\ New(c, n)
  \/ NewArray
  \/ \E o \in {"*", "/", "+", "-", "==", "!="} : \E i \in Ids : \E j \in Ids : BinOp(o, i, j)
  \/ \E o \in {"*", "/"} : \E i \in Ids : \E j \in Ids : AugOp(o, i, j)
  \/ \E f \in {"inv", "norm", "conj", "unit"} : \E i \in Ids : Method(f, i)
  \/ \E f \in UnaryNames : \E i \in Ids : Accessor(f, i)
  \/ \E i \in Ids : \E to \in Classes : Convert(i, to)
  \/ \E i \in Ids : \E j \in Ids : LAppend(i, j)
  \/ \E i \in Ids : \E j \in Ids : LExtend(i, j)
  \/ \E i \in Ids : \E j \in Ids : SetItem(i, j)
  \/ \E i \in Ids : Pop(i)
  \/ \E i \in Ids : Reverse(i)
  \/ \E i \in Ids : GetItem(i)
  \/ \E i \in Ids : SliceRev(i)
  \/ \E i \in Ids : Copy(i)
  \/ \E i \in Ids : Drop(i)

HSpec == HInit /\ [][HNext]_<<hvars, hist>>

\* ---- properties ----------------------------------------------------------------------------
\* C17 frame condition: a step changes no object other than its designated target and its result slot
C17_Frame ==
  [][ \A i \in Ids : (i # step'.mut /\ i # step'.res) => heap'[i] = heap[i] ]_<<hvars, hist>>

\* only the documented list-mutation methods, augmented assignment and drop designate a target
C17_OnlyMutators ==
  [][ step'.mut # 0 => step'.op \in {"append", "extend", "setitem0", "pop", "reverse", "augop", "drop"} ]_<<hvars, hist>>

\* C10 / C07 at system level: objects are typed and bounded
TypeOK == \A i \in Ids : heap[i] = NoObj \/ (heap[i].cls \in Classes \cup {"array"} /\ heap[i].n \in 0..MaxLenH)

\* a call that raises leaves the heap unchanged
RaiseFrame == [][ ("raises" \in DOMAIN step' /\ step'.raises) => heap' = heap ]_<<hvars, hist>>

HistInit == HInit /\ hist = <<>>
HistNext == HNext /\ hist' = IF KeepHist THEN Append(hist, [call |-> step', heap |-> [i \in Ids |-> heap'[i]]]) ELSE <<>>
\* TLC's simulator evaluates invariants on every generated successor, not only on the chosen one:
\* print a behaviour once, when its last step is "drop the lowest live object"
LowestLive == CHOOSE i \in Ids : Live(i) /\ \A k \in Ids : Live(k) => i <= k
HistOut  == (~KeepHist) \/ cnt < MaxSteps \/ step.op # "drop"
            \/ (\E k \in Ids : Live(k) /\ k < step.l) \/ PrintT(ToJson(hist))
=============================================================================
