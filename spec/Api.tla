--------------------------------- MODULE Api ---------------------------------
(***************************************************************************)
(* Interface table of the public API, as far as C15 / C17 need it: every   *)
(* entry that takes vector arguments, with the lengths each vector         *)
(* argument may have, and every entry that takes or returns an angle with  *)
(* a unit, an axis order, or has a separate-scalars call form.             *)
(*                                                                         *)
(*   E(name, layer, dims)   layer "base": list, tuple, 1-D, row (1,N) and  *)
(*                          column (N,1) forms are interchangeable;        *)
(*                          layer "class": list, tuple, 1-D                *)
(*   dims[k] = set of admissible lengths of the k-th vector argument       *)
(* The conformance harness binds each name to the real callable and        *)
(* cross-checks the table against the package's export list.               *)
(***************************************************************************)
EXTENDS Integers, Sequences, FiniteSets, TLC, Json

E(n, l, d) == [name |-> n, layer |-> l, dims |-> d]

VecApi == {
  \* ---- base: argcheck / vectors
  E("getvector", "base", << 0..8 >>),        E("getvector(dim=3)", "base", << {3} >>),
  E("isvector(dim=3)", "base", << {3} >>),   E("unitvec", "base", << 0..8 >>),
  E("norm", "base", << 0..8 >>),             E("normsq", "base", << 0..8 >>),
  E("isunitvec", "base", << 0..8 >>),        E("iszerovec", "base", << 0..8 >>),
  E("colvec", "base", << 0..8 >>),           E("cross", "base", << {3}, {3} >>),
  E("unittwist", "base", << {6} >>),         E("unittwist_norm", "base", << {6} >>),
  E("unittwist2", "base", << {3} >>),        E("isunittwist", "base", << {6} >>),
  E("isunittwist2", "base", << {3} >>),      E("removesmall", "class", << 0..8 >>),
  \* ---- base: transforms
  E("transl", "base", << {3} >>),            E("transl2", "base", << {2} >>),
  E("xyt2tr", "base", << {3} >>),            E("rpy2r", "base", << {3} >>),
  E("rpy2tr", "base", << {3} >>),            E("eul2r", "base", << {3} >>),
  E("eul2tr", "base", << {3} >>),            E("angvec2r", "base", << {3} >>),
  E("angvec2tr", "base", << {3} >>),         E("oa2r", "base", << {3}, {3} >>),
  E("oa2tr", "base", << {3}, {3} >>),        E("trexp", "base", << {3, 6} >>),
  E("trexp2", "base", << {1, 3} >>),         E("skew", "base", << {1, 3} >>),
  E("skewa", "base", << {3, 6} >>),          E("delta2tr", "base", << {6} >>),
  E("trotx(t=)", "base", << {3} >>),         E("trot2(t=)", "base", << {2} >>),
  E("troty(t=)", "base", << {3} >>),         E("trotz(t=)", "base", << {3} >>),
  E("SE3.Rx(t=)", "class", << {3} >>),         E("SE3.Ry(t=)", "class", << {3} >>),
  E("SE3.Rz(t=)", "class", << {3} >>),
  E("rodrigues", "base", << {1, 3} >>),      E("rt2tr(t)", "base", << {3} >>),
  \* ---- base: quaternions
  E("pure", "base", << {3} >>),              E("qnorm", "base", << {4} >>),
  E("unit", "base", << {4} >>),              E("isunit", "base", << 0..8 >>),
  E("conj", "base", << {4} >>),              E("qqmul", "base", << {4}, {4} >>),
  E("inner", "base", << {4}, {4} >>),        E("qvmul", "base", << {4}, {3} >>),
  E("vvmul", "base", << {3}, {3} >>),        E("qpow", "base", << {4} >>),
  E("q2r", "base", << {4} >>),               E("slerp", "base", << {4}, {4} >>),
  E("slerp(shortest)", "base", << {4}, {4} >>), E("slerp(s=0)", "base", << {4}, {4} >>), E("slerp(s=1)", "base", << {4}, {4} >>), E("qpow(-3)", "base", << {4} >>),
  E("trexp(theta=)", "base", << {6} >>),     E("trexp2(theta=)", "base", << {1, 3} >>),
  E("matrix", "base", << {4} >>),            E("dot", "base", << {4}, {3} >>),
  E("dotb", "base", << {4}, {3} >>),         E("angle", "base", << {4}, {4} >>),
  E("isequal", "base", << {4}, {4} >>),      E("q2v", "base", << {4} >>),
  E("v2q", "base", << {3} >>),
  \* ---- classes
  E("SO3.RPY", "class", << {3} >>),          E("SO3.Eul", "class", << {3} >>),
  E("SO3.AngVec", "class", << {3} >>),       E("SO3.OA", "class", << {3}, {3} >>),
  E("SO3.EulerVec", "class", << {3} >>),     E("SO3.Exp", "class", << {3} >>),
  E("SE3", "class", << {3} >>),              E("SE3.RPY", "class", << {3} >>),
  E("SE3.Eul", "class", << {3} >>),          E("SE3.AngVec", "class", << {3} >>),
  E("SE3.OA", "class", << {3}, {3} >>),      E("SE3.Exp", "class", << {6} >>),
  E("SE3.Delta", "class", << {6} >>),        E("SE2", "class", << {2, 3} >>),
  E("SE2.Exp", "class", << {3} >>),          E("UnitQuaternion", "class", << {4} >>),
  E("UnitQuaternion.RPY", "class", << {3} >>), E("UnitQuaternion.Eul", "class", << {3} >>),
  E("UnitQuaternion.AngVec", "class", << {3} >>), E("UnitQuaternion.OA", "class", << {3}, {3} >>),
  E("UnitQuaternion.EulerVec", "class", << {3} >>), E("UnitQuaternion.Vec3", "class", << {3} >>),
  E("Quaternion", "class", << {4} >>),       E("Quaternion.Pure", "class", << {3} >>),
  E("Quaternion(s,v)", "class", << {3} >>),
  E("Twist3", "class", << {6} >>),           E("Twist3(v,w)", "class", << {3}, {3} >>),
  E("Twist3.Revolute", "class", << {3}, {3} >>), E("Twist3.Prismatic", "class", << {3} >>),
  E("Twist2", "class", << {3} >>),           E("Twist2.Revolute", "class", << {2} >>),
  E("Twist2.Prismatic", "class", << {2} >>),
  E("Plucker", "class", << {6} >>),          E("Plucker.PQ", "class", << {3}, {3} >>),
  E("Plucker.PointDir", "class", << {3}, {3} >>),
  \* methods of a line taking a point, a plane (4 coefficients) or the 6 bounds of a box
  E("Plucker.contains", "class", << {3} >>), E("Plucker.closest", "class", << {3} >>),
  E("Plucker.intersect_plane", "class", << {4} >>), E("Plucker.intersect_volume", "class", << {6} >>),
  E("SpatialVelocity", "class", << {6} >>),  E("SpatialForce", "class", << {6} >>),
  E("SE3*", "class", << {3} >>),             E("SO3*", "class", << {3} >>),
  E("SE2*", "class", << {2} >>),             E("SO2*", "class", << {2} >>),
  E("UnitQuaternion*", "class", << {3} >>)
}

\* entries whose arguments are matrices (group members, algebra elements, point sets): C17 only
MatApi == {"t2r", "r2t", "tr2rt", "rt2tr", "trinv", "trinv2", "trlog(R)", "trlog(T)", "trlog2(R)", "trlog2(T)",
           "trexp(so3)", "trexp(se3)", "trexp2(se2)", "trnorm(R)", "trnorm(T)", "trnorm2", "tr2rpy", "tr2eul",
           "tr2angvec", "tr2xyt", "tr2delta(T)", "tr2delta(T0,T1)", "tr2jac", "trinterp", "trinterp2", "vex", "vexa",
           "h2e", "e2h", "homtrans", "isR", "isrot", "ishom", "isrot2", "ishom2", "isskew", "isskewa", "iseye",
           "r2q", "transl(T)", "transl2(T)", "Ab2M", "adjoint", "det", "trprint", "trprint2",
           "SO3(R)", "SE3(T)", "SO2(R)", "SE2(T)", "UnitQuaternion(R)", "Twist3(se3)", "Twist2(se2)",
           "SE3([T,T])", "SO3([R,R])", "SE3*points", "SO3*points", "SE2*points", "UnitQuaternion*points"}

\* entries documented ":SymPy: supported" (C16) and the symbolic pose expressions built over them
\* documented options of the SymPy-supported entries: angles in degrees (scalar, separate-scalar and packed forms) and
\* the translation keyword of the homogeneous one-axis rotations (numbers with a symbolic angle, or symbols)
SymOptions == {"rotx(deg)", "roty(deg)", "rotz(deg)", "trotx(deg)", "troty(deg)", "trotz(deg)",
               "trotx(t=numbers)", "troty(t=numbers)", "trotz(t=numbers)", "trotx(t=)", "troty(t=)", "trotz(t=)",
               "eul2r(deg)", "eul2tr(deg)", "eul2r([],deg)", "eul2tr((),deg)", "SO3.Rx(deg)", "SE3.Ry(deg)",
               "SE3.Rx(t=numbers)", "SE3.Rz(t=)", "SO3.Eul(deg)", "SE3.Eul(deg)", "SO3.RPY(deg)", "SE3.RPY(deg)"}
SymApi == {"norm([x,0,0])", "norm((0,y,0))", "norm(array[0,0,2z])", "normsq([x,0,0])",       \* vectors with ONE symbolic component
           "qpow(-3)", "qpow(-2)", "qpow(-1)", "qpow(0)", "qpow(3)",        \* integer powers of a symbolic quaternion
           "SE3(ndarray[x,y,z])", "SE3(ndarray column)", "SE3([x,y,z])",          \* vector call forms of the SE3 constructor
           \* (SE2 / SO2 carry no 'SymPy: supported' mark: not in the scope of C16)
           "simplify", "rotx", "roty", "rotz", "trotx", "troty", "trotz", "transl", "eul2r", "eul2tr", "delta2tr", "trinv", "trinv2",
           "tr2delta", "tr2jac", "skew", "vex", "skewa", "vexa", "det", "norm", "normsq", "cross", "qpow", "conj",
           "SO3.Rx", "SO3.Ry", "SO3.Rz", "SO3.Eul", "SO3.RPY", "SE3.Rx", "SE3.Ry", "SE3.Rz", "SE3.Tx", "SE3.Ty", "SE3.Tz",
           "SE3.Eul", "SE3.RPY", "SE3.Delta", "SE3(x,y,z)", "SE3.t", "SE3.R", "SE3.inv", "SE3.Ad", "SE3.jacob",
           "Twist3.Rx", "Twist3.Ry", "Twist3.Rz"} \cup SymOptions
SymExprs == {"SE3.Rx*SE3.Tx", "SE3.Rz*SE3.Ry*SE3.Rx", "(SE3.Rx*SE3.Ty).inv", "SE3.Rx*SE3.Tx*point", "SO3.Rx*SO3.Ry",
             "SO3.Rz.inv", "SO3.Rx*point", "SE3.Rx*SE3.Rx.inv", "SE3.Rz**2", "SE3.Tx/SE3.Rz",
             \* points with symbolic coordinates in every container form; a pose combined with a (symbolic) scalar
             "SE3*point[list]", "SE3*point[tuple]", "SE3*point[ndarray]", "SE3*point[column]", "SO3*point[ndarray]",
             "SE3*points[3xN]", "SE3*scalar", "scalar*SE3", "SE3/scalar", "SO3+scalar", "SO3-scalar"}
SymModes == {"all-symbolic", "mixed", "mixed-number-first"}     \* which positions of a packed argument are plain numbers
\* entries whose argument (or receiver) is a matrix: the symbolic matrix is composed in several ways, because a
\* one-axis rotation has so many structural zeros that most entries of a formula are never exercised
SymMatApi == {"trinv", "tr2delta", "tr2delta(T0,T1)", "tr2jac", "tr2jac(samebody)", "vex(R-I)", "vex(R-R')", "vexa(T-I)",
              "det", "det(4x4)", "SE3.inv", "SE3.Ad", "SE3.jacob", "SE3.t", "SO3.R", "SO3.inv", "SE3*SE3", "SE3*point",
              "SO3*point", "simplify", "SO3.simplify"}
SymMatArgs == {"one-axis", "two-axis", "euler", "number-times-symbol"}

FormsOf(layer) == IF layer = "base" THEN {"list", "tuple", "array", "row", "column"}
                  ELSE {"list", "tuple", "array"}
ElemTypes == {"int", "float", "float-with-residue"}     \* the last: floats with rounding residues (1e-16) among them

\* ---- angle units, orders, separate-scalar call forms -----------------------------------
UnitIn  == {"rotx", "roty", "rotz", "trotx", "troty", "trotz", "rot2", "trot2", "xyt2tr", "rpy2r", "rpy2tr",
            "eul2r", "eul2tr", "angvec2r", "angvec2tr", "SO2", "SE2", "SO3.Rx", "SO3.Ry", "SO3.Rz", "SO3.RPY",
            "SO3.Eul", "SO3.AngVec", "SE3.Rx", "SE3.Ry", "SE3.Rz", "SE3.RPY", "SE3.Eul", "SE3.AngVec",
            "UnitQuaternion.Rx", "UnitQuaternion.Ry", "UnitQuaternion.Rz", "UnitQuaternion.RPY",
            "UnitQuaternion.Eul", "UnitQuaternion.AngVec", "Twist3.Rx", "Twist3.Ry", "Twist3.Rz", "getunit",
            \* sequence forms (a vector of angles, an N x 3 array of triples) and the twist exponential
            "SO2(vector)", "SO3.Rx(vector)", "SO3.Ry(vector)", "SO3.Rz(vector)", "SE3.Rx(vector)", "SE3.Ry(vector)",
            "SE3.Rz(vector)", "UnitQuaternion.Rx(vector)", "Twist3.Rx(vector)", "SO3.RPY(Nx3)", "SE3.RPY(Nx3)",
            "SO3.Eul(Nx3)", "SE3.Eul(Nx3)", "Twist3.exp(theta)", "Twist3.exp(vector)", "Twist2.exp(theta)",
            "Twist2.exp(vector)"}
UnitOut == {"tr2rpy", "tr2eul", "tr2angvec", "tr2xyt", "SO3.rpy", "SO3.eul", "SO3.angvec", "SE3.rpy", "SE3.eul",
            "SE3.angvec", "SO2.theta", "SE2.theta", "SE2.xyt", "UnitQuaternion.rpy", "UnitQuaternion.eul",
            "UnitQuaternion.angvec",
            \* the same accessors on an object holding several values (a separate code path in each)
            "SO2.theta(multi)", "SE2.theta(multi)", "SO3.rpy(multi)", "SO3.eul(multi)", "SE3.rpy(multi)", "SE3.eul(multi)"}
OrderIn == {"rpy2r", "rpy2tr", "tr2rpy", "SO3.RPY", "SE3.RPY", "UnitQuaternion.RPY", "SO3.rpy", "SE3.rpy",
            "UnitQuaternion.rpy"}
GoodOrders == {"zyx", "xyz", "yxz", "vehicle", "arm", "camera"}
BadOrders  == {"zxy", "xzy", "XYZ", "rpy", ""}
BadUnits   == {"degrees", "grad", "Deg", ""}
ScalarForms == {"transl", "transl2", "rpy2r", "rpy2tr", "eul2r", "eul2tr", "SE2", "SE2(x,y)", "SE3"}

\* ---- the machine: one call per behaviour -------------------------------------------------
VARIABLES call, expect
vars == <<call, expect>>
Init == call = [op |-> "none"] /\ expect = "none"

\* vary the form / length / element type of the k-th vector argument of entry e
VecCall(e, k, form, len, et) ==
  /\ call.op = "none"
  /\ k \in DOMAIN e.dims
  /\ form \in FormsOf(e.layer)
  /\ call' = [op |-> "vec", name |-> e.name, layer |-> e.layer, arg |-> k, form |-> form, len |-> len,
              et |-> et, nargs |-> Len(e.dims),
              deflen |-> [i \in DOMAIN e.dims |-> CHOOSE n \in e.dims[i] : \A m \in e.dims[i] : n >= m]]
  /\ expect' = IF len \in e.dims[k] THEN "same-as-canonical" ELSE "reject"

\* configurations of the rotation whose angles are returned: the extraction code has separate
\* branches for the singular cases of each axis order
UnitCfgs == {"generic", "singular+", "singular-", "zero", "half-turn"}
UnitCall(n, dir, cfg, o) ==
  /\ call.op = "none"
  /\ (dir = "in" => cfg = "generic" /\ o = "zyx")
  /\ (n \notin OrderIn => o = "zyx")
  /\ call' = [op |-> "unit", name |-> n, dir |-> dir, cfg |-> cfg, order |-> o]
  /\ expect' = "deg-equals-rad"

BadUnitCall(n, u) ==
  /\ call.op = "none"
  /\ call' = [op |-> "badunit", name |-> n, unit |-> u]
  /\ expect' = "reject"

OrderCall(n, o) ==
  /\ call.op = "none"
  /\ call' = [op |-> "order", name |-> n, order |-> o]
  /\ expect' = IF o \in GoodOrders THEN "accept" ELSE "reject"

\* the matrices handed in are of several kinds: code paths for special values (identity, pure
\* translation, quarter and half turns about coordinate and non-coordinate axes) differ from the generic one
MatKinds == {"generic", "identity", "translation", "quarter-turn", "half-turn", "half-turn-diag", "tiny-angle"}
MatCall(n, k) ==
  /\ call.op = "none"
  /\ call' = [op |-> "mat", name |-> n, kind |-> k]
  /\ expect' = "arguments-unchanged"

SymCall(n, mode) ==
  /\ call.op = "none"
  /\ call' = [op |-> "sym", name |-> n, mode |-> mode]
  /\ expect' = "symbolic-equals-numeric"

SymMatCall(n, arg, mode) ==
  /\ call.op = "none"
  /\ call' = [op |-> "symmat", name |-> n, arg |-> arg, mode |-> mode]
  /\ expect' = "symbolic-equals-numeric"

\* st: the type of the separate scalars - Python float / int, or NumPy scalars (what a loop over an array yields)
ScalarTypes == {"float", "int", "numpy.float64", "numpy.int64", "numpy.float32", "numpy.int32"}
\* zs: which of the separate scalars are zero (a zero is a value like any other, not an omitted argument)
ScalarZeros == {"none", "second", "second-third", "first", "third", "all"}
ScalarCall(n, st, zs) ==
  /\ call.op = "none"
  /\ call' = [op |-> "scalars", name |-> n, st |-> st, zeros |-> zs]
  /\ expect' = "same-as-packed"

Next ==
  \/ \E e \in VecApi : \E k \in 1..2 : \E f \in FormsOf("base") : \E len \in 0..8 : \E et \in ElemTypes :
        VecCall(e, k, f, len, et)
  \/ \E n \in UnitIn : UnitCall(n, "in", "generic", "zyx")
  \/ \E n \in UnitOut : \E cfg \in UnitCfgs : \E o \in {"zyx", "xyz", "yxz"} : UnitCall(n, "out", cfg, o)
  \/ \E n \in UnitIn : \E u \in BadUnits : BadUnitCall(n, u)
  \/ \E n \in OrderIn : \E o \in GoodOrders \cup BadOrders : OrderCall(n, o)
  \/ \E n \in ScalarForms : \E st \in ScalarTypes : \E zs \in ScalarZeros : ScalarCall(n, st, zs)
  \/ \E n \in MatApi : \E k \in MatKinds : MatCall(n, k)
  \/ \E n \in SymApi \cup SymExprs : \E mode \in SymModes : SymCall(n, mode)
  \/ \E n \in SymMatApi : \E a \in SymMatArgs : \E mode \in SymModes : SymMatCall(n, a, mode)

Spec == Init /\ [][Next]_vars

Names == { e.name : e \in VecApi } \cup UnitIn \cup UnitOut \cup OrderIn \cup ScalarForms \cup MatApi
SymNames == SymApi \cup SymExprs
TableSanity ==
  /\ \A e \in VecApi : Len(e.dims) \in 1..2 /\ \A k \in DOMAIN e.dims : e.dims[k] # {} /\ e.dims[k] \subseteq 0..8
  /\ \A e1, e2 \in VecApi : e1.name = e2.name => e1 = e2
  /\ GoodOrders \cap BadOrders = {}

EdgeOut == PrintT(ToJson([call |-> call', expect |-> expect']))
NamesOut == PrintT(ToJson([names |-> Names]))
=============================================================================
