INIT Init
NEXT Next
CONSTANTS
  Rep0 = "SE2"
  Convs <- EveryConv
  Starts <- RatLeaves2
  Leaves <- RatFew2
  Exps <- ExpsSmall
  MaxDepth = 6
  TBound <- Unlimited
  MaxQN = 500
  MaxDen = 200
  Export = "hist"
INVARIANT C01_Closure
INVARIANT C04_RepShape
INVARIANT HistOut
PROPERTY C04_ConvKeeps
CHECK_DEADLOCK FALSE
