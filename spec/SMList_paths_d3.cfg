INIT Init
NEXT Next
CONSTANTS
  StartLens <- Len0to3
  MaxDepth = 3
  MaxLen = 40
  Idx <- IdxSmall
  SlStart <- SlSmallA
  SlStop <- SlSmallB
  SlStep <- StepSmall
  ExtK <- K02
  Export = "hist"
INVARIANT HistOut
CHECK_DEADLOCK FALSE
