------------------------------ MODULE Validity ------------------------------
(***************************************************************************)
(* C07: with checking enabled an object can never come to hold a value     *)
(* outside its group, however the value is supplied; the membership        *)
(* predicates agree with their mathematical definitions outside a 1e-6     *)
(* band around the threshold.                                              *)
(*                                                                         *)
(* Item kinds (how far the supplied array is from the group):              *)
(*   "valid"      a member produced by the primitive constructors          *)
(*   "near"       perturbed by 1e-12 .. 1e-7   -> not judged ("don't care")*)
(*   far kinds    distance > 1e-6, must be rejected:                       *)
(*     "nonorth"    one entry of the rotation block perturbed by >= 1e-5   *)
(*     "scaled"     rotation block multiplied by 1 + mag                   *)
(*     "reflection" improper orthogonal matrix (det = -1)                  *)
(*     "lastrow"    last row of a homogeneous matrix corrupted             *)
(*     "diag" "notskew" "bottom"   se(n) matrix not of algebra form        *)
(*     "zero"       zero quaternion                                        *)
(*   "nonunit"    non-zero, non-unit 4-vector for a unit quaternion:       *)
(*                reject OR store the normalised value                     *)
(***************************************************************************)
EXTENDS Integers, Sequences, FiniteSets, TLC, Json

PoseCls  == {"SO2", "SE2", "SO3", "SE3"}
TwistCls == {"Twist2", "Twist3"}
\* "UnitQuaternion(R)": a unit quaternion constructed from a 3x3 ROTATION MATRIX - the items are matrices and have the
\* kinds of SO3 items (the constructor must validate the matrix exactly as SO3 does)
\* "SE3.SO3(R)": the class method that lifts a rotation to a rigid motion - the item is a 3x3 rotation matrix (SO3 kinds)
\* or something of the wrong size (a 2x2 rotation, a 4x4 homogeneous rotation), which must be rejected as well
Cls      == PoseCls \cup TwistCls \cup {"UnitQuaternion", "UnitQuaternion(R)", "SE3.SO3(R)"}

FarKinds(c) ==
  CASE c \in {"SO2", "SO3", "UnitQuaternion(R)"} -> {"nonorth", "scaled", "reflection"}
    [] c = "SE3.SO3(R)" -> {"nonorth", "scaled", "reflection", "rotation-2x2", "rotation-4x4"}
    [] c \in {"SE2", "SE3"} -> {"nonorth", "scaled", "reflection", "lastrow"}
    [] c \in TwistCls       -> {"diag", "notskew", "bottom"}
    [] c = "UnitQuaternion" -> {"zero"}
Kinds(c) == {"valid", "near"} \cup FarKinds(c) \cup (IF c = "UnitQuaternion" THEN {"nonunit"} ELSE {})

Forms == {"bare", "list", "tuple", "array", "stack"}     \* "array": an N x 4 ndarray of quaternions (UnitQuaternion only, N >= 2)
\* "stack": the matrices stacked into one N x r x c ndarray (matrix classes).  The documentation does not offer this form:
\* it may be refused, but if it is taken the rules are the same - nothing invalid gets in, no None element

\* outcome of supplying the items `ks` (a sequence of kinds) to the constructor of class c
Outcome(c, ks) ==
  LET S == { ks[i] : i \in DOMAIN ks } IN
  IF S \cap FarKinds(c) # {} THEN "reject"
  ELSE IF "near" \in S THEN "dontcare"
  ELSE IF "nonunit" \in S THEN "reject-or-normalise"
  ELSE "accept"

\* ---- membership predicates with check = True ----------------------------------------
Preds == {"isR", "isrot", "isrot2", "ishom", "ishom2", "isskew", "isskewa", "iseye", "isunit",
          "isunitvec", "iszerovec", "iszero", "isunittwist", "isunittwist2",
          "SO2.isvalid", "SE2.isvalid", "SO3.isvalid", "SE3.isvalid", "Twist2.isvalid", "Twist3.isvalid",
          "UnitQuaternion.isvalid"}

\* argument kinds per predicate and the mathematically defined answer
PredKinds(p) ==
  \* "wrong-shape": an array of another shape than the values of the class - a member of ANOTHER group, or an array
  \* scaled to Euclidean / Frobenius norm 1 - is not a member whatever its entries (isR serves 2x2 and 3x3: not given)
  CASE p = "isR" -> {"valid", "near", "nonorth", "scaled", "reflection"}
    [] p \in {"isrot", "isrot2", "SO2.isvalid", "SO3.isvalid"} -> {"valid", "near", "nonorth", "scaled", "reflection", "wrong-shape"}
    [] p \in {"ishom", "ishom2", "SE2.isvalid", "SE3.isvalid"} -> {"valid", "near", "nonorth", "scaled", "reflection", "lastrow", "wrong-shape"}
    [] p = "UnitQuaternion.isvalid" -> {"unit", "near-unit", "nonunit", "wrong-shape"}
    [] p = "isskew"   -> {"valid", "near", "notskew"}
    [] p \in {"isskewa", "Twist2.isvalid", "Twist3.isvalid"} -> {"valid", "near", "notskew", "diag", "bottom"}
    [] p = "iseye"    -> {"identity", "near-identity", "not-identity"}
    [] p \in {"isunit", "isunitvec"} -> {"unit", "near-unit", "nonunit", "zero"}
    [] p \in {"iszerovec", "iszero"} -> {"zero", "near-zero", "nonzero"}
    [] p \in {"isunittwist", "isunittwist2"} -> {"unit-rot", "unit-trans", "near-unit", "nonunit-rot", "nonunit-trans"}

PredExpect(p, k) ==
  IF k \in {"near", "near-identity", "near-unit", "near-zero"} THEN "dontcare"
  ELSE IF k \in {"valid", "identity", "unit", "unit-rot", "unit-trans"} THEN "true"
  ELSE IF p \in {"iszerovec", "iszero"} THEN (IF k = "zero" THEN "true" ELSE "false")
  ELSE "false"

\* ---- the machine: one call per behaviour ----------------------------------------------
CONSTANTS MaxItems
VARIABLES call, expect
vars == <<call, expect>>
Init == call = [op |-> "none"] /\ expect = "none"

KindSeqs(c, n) == [1..n -> Kinds(c)]

Construct(c, form, ks) ==
  /\ call.op = "none"
  /\ (form = "bare" => Len(ks) = 1)
  /\ (form = "array" => c = "UnitQuaternion" /\ Len(ks) >= 2)
  /\ (c \in {"UnitQuaternion(R)", "SE3.SO3(R)"} => form = "bare")        \* a list of matrices is not a documented form
  /\ (form = "stack" => c \in {"SO2", "SE2", "SO3", "SE3"})
  /\ call' = [op |-> "construct", cls |-> c, form |-> form, kinds |-> ks]
  /\ expect' = IF form = "stack" /\ Outcome(c, ks) = "accept" THEN "accept-or-reject" ELSE Outcome(c, ks)

\* an OBJECT of another library class supplied to the constructor (bare, or inside a list):
\* either rejected, or converted - but the new object must then hold only members of ITS class
OtherCls == Cls \cup {"Quaternion", "Plucker"}
ConstructFromObject(c, o, form, n) ==        \* n: number of values the supplied object holds
  /\ call.op = "none"
  /\ c # o /\ {c, o} \cap {"UnitQuaternion(R)", "SE3.SO3(R)"} = {}
  /\ form \in {"bare", "list"}
  /\ call' = [op |-> "construct-from-object", cls |-> c, other |-> o, form |-> form, len |-> n]
  /\ expect' = "reject-or-member"

\* an object of ANOTHER class (a subclass such as SE3 for SO3 included) supplied through the list interface of a
\* valid object of class c: whatever the outcome, the receiver holds only members of its own class afterwards
Mutators == {"append", "insert", "extend", "setitem"}
MutateWithObject(c, o, m, n) ==
  /\ call.op = "none"
  /\ c # o /\ {c, o} \cap {"UnitQuaternion(R)", "SE3.SO3(R)"} = {}
  /\ call' = [op |-> "mutate-with-object", cls |-> c, other |-> o, mutator |-> m, len |-> n]
  /\ expect' = "reject-or-member"

Predicate(p, k) ==
  /\ call.op = "none"
  /\ k \in PredKinds(p)
  /\ call' = [op |-> "predicate", pred |-> p, kind |-> k]
  /\ expect' = PredExpect(p, k)

AllKinds == UNION { PredKinds(p) : p \in Preds }

Next ==
  \/ \E c \in Cls : \E form \in Forms : \E n \in 1..MaxItems : \E ks \in KindSeqs(c, n) : Construct(c, form, ks)
  \/ \E c \in Cls : \E o \in OtherCls : \E form \in Forms : \E n \in 1..2 : ConstructFromObject(c, o, form, n)
  \/ \E p \in Preds : \E k \in AllKinds : Predicate(p, k)
  \/ \E c \in Cls : \E o \in OtherCls : \E m \in Mutators : \E n \in 1..2 : MutateWithObject(c, o, m, n)

Spec == Init /\ [][Next]_vars

\* sanity: a single bad item anywhere forces rejection; all-valid is accepted; reflections are far
Sanity ==
  /\ \A c \in Cls : \A n \in 1..MaxItems : \A ks \in KindSeqs(c, n) :
       /\ ((\E i \in 1..n : ks[i] \in FarKinds(c)) => Outcome(c, ks) = "reject")
       /\ ((\A i \in 1..n : ks[i] = "valid") => Outcome(c, ks) = "accept")
  /\ \A c \in PoseCls : "reflection" \in FarKinds(c)
  /\ \A p \in Preds : \A k \in PredKinds(p) : PredExpect(p, k) \in {"true", "false", "dontcare"}

EdgeOut == PrintT(ToJson([call |-> call', expect |-> expect']))
=============================================================================
