INIT Init
NEXT Next
CONSTANTS
  Q0s <- StartQ
  Ps <- StepP
  Ts <- TrSet
  MaxN = 4
ACTION_CONSTRAINT EdgeOut
INVARIANT Endpoints
CHECK_DEADLOCK FALSE
