INIT Init
NEXT Next
ACTION_CONSTRAINT EdgeOut
CHECK_DEADLOCK FALSE
