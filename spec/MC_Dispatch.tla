---------------------------- MODULE MC_Dispatch ----------------------------
EXTENDS Dispatch
Lens12   == {1, 2}
Lens05   == 0..5
AllOps   == Ops
AllKinds == Kinds
C09Ops   == {"*", "/", "+", "-", "==", "!=", "**"}
C09Left  == ListOps
C09Right == ListOps \cup Foreign
ASSUME TableSanity
ASSUME LenRule
=============================================================================
