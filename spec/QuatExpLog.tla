----------------------------- MODULE QuatExpLog -----------------------------
(***************************************************************************)
(* Structured cases for the transcendental part of C12.                    *)
(*                                                                         *)
(*   ExpLog(q)      q an integer quaternion with non-zero vector part:     *)
(*                  exp(log(q)) = q   (the harness also scales q)          *)
(*   LogExp(s,u,k)  q = (s, (k pi/4) u/|u|), k = 1..3, so that the vector  *)
(*                  part has norm k pi/4 in (0, pi):                       *)
(*                  exp(q) = e^s (cos(k pi/4), sin(k pi/4) u/|u|) and      *)
(*                  log(exp(q)) = q                                        *)
(*                                                                         *)
(* The eighth-turn table is exact: (cos, sin)(k pi/4) = (C[k], S[k])/sqrt2 *)
(* for odd k and (C[k], S[k]) for even k.  TLC checks the table is a       *)
(* homomorphism (angle addition) before any case is exported.              *)
(***************************************************************************)
EXTENDS Integers, Sequences, FiniteSets, TLC, Json

CONSTANTS Box, SS, US        \* components of q, scalar parts s, integer axis directions u

\* (numerator of cos, numerator of sin, odd?)  for k = 0..7; value = num / (odd ? sqrt 2 : 1)
Eighth == [k \in 0..7 |->
  CASE k = 0 -> <<1, 0>>  [] k = 1 -> <<1, 1>>   [] k = 2 -> <<0, 1>>   [] k = 3 -> <<-1, 1>>
    [] k = 4 -> <<-1, 0>> [] k = 5 -> <<-1, -1>> [] k = 6 -> <<0, -1>>  [] k = 7 -> <<1, -1>>]
Odd(k) == k % 2 = 1
\* product of two table entries, as an exact pair over the denominator (sqrt 2)^(Odd i + Odd k)
AddOK == \A i, k \in 0..7 :
  LET a == Eighth[i]  b == Eighth[k]  c == Eighth[(i + k) % 8]
      re == a[1]*b[1] - a[2]*b[2]  im == a[1]*b[2] + a[2]*b[1]
  IN  IF Odd(i) /\ Odd(k) THEN <<re, im>> = <<2*c[1], 2*c[2]>>        \* denominators: 2 vs 1
      ELSE <<re, im>> = c                                              \* sqrt2^(0|1) on both sides
ASSUME AddOK

Class(q) == IF q[1] = 0 THEN "pure" ELSE IF q[1] < 0 THEN "negative-scalar" ELSE "positive-scalar"
Axes(q)  == Cardinality({i \in 2..4 : q[i] # 0})

VARIABLE c
Init == c = [k |-> "none"]

ExpLog(q) ==
  /\ c.k = "none"
  /\ <<q[2], q[3], q[4]>> # <<0, 0, 0>>
  /\ c' = [k |-> "explog", q |-> q, cls |-> Class(q), axes |-> Axes(q)]

LogExp(s, u, k) ==
  /\ c.k = "none"
  /\ u # <<0, 0, 0>>
  /\ c' = [k |-> "logexp", s |-> s, u |-> u, n |-> k, cs |-> Eighth[k], odd |-> Odd(k)]

Next ==
  \/ \E a, b, x, y \in Box : ExpLog(<<a, b, x, y>>)
  \/ \E s \in SS : \E u \in US : \E k \in 1..3 : LogExp(s, u, k)

EdgeOut == PrintT(ToJson(c'))
=============================================================================
