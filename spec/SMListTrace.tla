---------------------------- MODULE SMListTrace ----------------------------
(***************************************************************************)
(* Trace specification for the list layer: recorded executions of the real *)
(* library (random driver, the repository's own tests) are judged by TLC   *)
(* against the actions of SMList.                                          *)
(*                                                                         *)
(* One ndjson line per public list call, written after it returned/raised: *)
(*   tid   trace (= object) number                                         *)
(*   call  [op, i, st, sp, sk, kind, n]  as in SMList                      *)
(*   a     ids of the values carried by the argument object                *)
(*   pre   ids held by the receiver before the call                        *)
(*   post  ids held after the call                                         *)
(*   res   outcome in SMList's vocabulary                                  *)
(* An event is accepted iff the SMList action named by `call`, started in  *)
(* the carried spec state, is enabled with exactly the logged outcome and  *)
(* post-state, and the logged pre-state equals the carried spec state      *)
(* (continuity: nothing changed the object between two logged calls).      *)
(* Verdicts are total: a rejected event is recorded in `bad`, the state is *)
(* re-synchronised to the logged post-state and validation continues.      *)
(***************************************************************************)
EXTENDS SMList, IOUtils, TLCExt

Log == ndJsonDeserialize(IOEnv.TRACE)

VARIABLES l, bad, cur
tvars == <<vars, l, bad, cur>>

TraceInit ==
  /\ xs = <<>> /\ nextId = 100 /\ res = NoneRes /\ last = [op |-> "init"] /\ d = 0 /\ hist = <<>>
  /\ l = 1 /\ bad = <<>> /\ cur = -1

\* the SMList action named by event e, with its logged parameters
SpecAction(e) ==
  LET c == e.call IN
  CASE c.op = "getitem"      -> GetItem(c.i)
    [] c.op = "slice"        -> GetSlice(c.st, c.sp, c.sk)
    [] c.op = "iter"         -> Iterate
    [] c.op = "len"          -> LenOp
    [] c.op = "copy"         -> CopyCtor
    [] c.op = "append"       -> AppendV(c.kind, e.a, 0)
    [] c.op = "extend"       -> ExtendV(e.a, 0)
    [] c.op = "extend_wrong" -> ExtendWrong(c.what)
    [] c.op = "insert"       -> InsertV(c.i, c.kind, e.a, 0)
    [] c.op = "pop"          -> DoPop(c.i)
    [] c.op = "pop0"         -> PopDefault
    [] c.op = "del"          -> DoDel(c.i)
    [] c.op = "setitem"      -> SetItemV(c.i, c.kind, e.a, 0)
    [] c.op = "reverse"      -> DoReverse
    [] c.op = "clear"        -> DoClear
    [] OTHER                 -> FALSE

SameOutcome(r, lr) ==
  /\ r.k = lr.k
  /\ (r.k \in {"obj", "objs", "int"} => r.v = lr.v)
  /\ (r.k = "raise" /\ r.e = "IndexError" => lr.e = "IndexError")

Conform(e) ==
  /\ e.tid = cur
  /\ xs = e.pre                      \* continuity
  /\ SpecAction(e)
  /\ xs' = e.post
  /\ SameOutcome(res', e.res)
  /\ (e.res.k = "obj" => e.res.cls = e.cls)     \* results are objects of the receiver's class

IsBegin(e) == e.call.op = "begin"

Begin ==
  /\ l <= Len(Log) /\ IsBegin(Log[l])
  /\ xs' = Log[l].post /\ cur' = Log[l].tid
  /\ l' = l + 1
  /\ UNCHANGED <<nextId, res, last, d, hist, bad>>

Accept ==
  /\ l <= Len(Log) /\ ~IsBegin(Log[l])
  /\ Conform(Log[l])
  /\ l' = l + 1
  /\ UNCHANGED <<bad, cur>>

Reject ==
  /\ l <= Len(Log) /\ ~IsBegin(Log[l])
  /\ ~ENABLED Conform(Log[l])
  /\ bad' = Append(bad, l)
  /\ xs' = Log[l].post /\ cur' = Log[l].tid      \* re-synchronise
  /\ l' = l + 1
  /\ UNCHANGED <<nextId, res, last, d, hist>>

TraceNext == Begin \/ Accept \/ Reject
TraceSpec == TraceInit /\ [][TraceNext]_tvars

\* when the last line has been consumed the verdict list is written for the harness
Final ==
  l <= Len(Log) \/ JsonSerialize(IOEnv.VERDICT, [lines |-> Len(Log), rejected |-> bad])

\* every line was consumed (one state per line plus the initial state)
TraceDone == TLCGet("stats").diameter - 1 = Len(Log)
=============================================================================
