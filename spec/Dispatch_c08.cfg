INIT Init
NEXT Next
CONSTANTS
  Unary = FALSE
  Lens <- Lens12
  OpSet <- AllOps
  LeftKinds <- AllKinds
  RightKinds <- AllKinds
ACTION_CONSTRAINT EdgeOut
INVARIANT OutcomeOK
CHECK_DEADLOCK FALSE
