------------------------------ MODULE PyList ------------------------------
(***************************************************************************)
(* Python list semantics, transcribed from CPython (listobject.c,          *)
(* sliceobject.c: PySlice_Unpack + PySlice_AdjustIndices).  Lists are TLA+ *)
(* sequences (1-based); Python positions are 0-based.  `None` is encoded   *)
(* as the integer 99 (outside every index alphabet used) because TLC       *)
(* cannot compare integers with model values or strings.                   *)
(***************************************************************************)
EXTENDS Integers, Sequences

None == 99

\* ---- integer indexing -------------------------------------------------
NormIndex(i, n) == IF i < 0 THEN i + n ELSE i          \* 0-based
InRange(i, n)   == LET k == NormIndex(i, n) IN k >= 0 /\ k < n

GetAt(xs, i)    == xs[NormIndex(i, Len(xs)) + 1]
RemoveAt(xs, i) == LET k == NormIndex(i, Len(xs)) + 1
                   IN  SubSeq(xs, 1, k - 1) \o SubSeq(xs, k + 1, Len(xs))
SetAt(xs, i, v) == LET k == NormIndex(i, Len(xs)) + 1
                   IN  [xs EXCEPT ![k] = v]

\* list.insert clamps instead of raising (listobject.c ins1)
InsertPos(i, n) == LET k == IF i < 0 THEN i + n ELSE i
                   IN  IF k < 0 THEN 0 ELSE IF k > n THEN n ELSE k
InsertAt(xs, i, v) == LET k == InsertPos(i, Len(xs))
                      IN  SubSeq(xs, 1, k) \o <<v>> \o SubSeq(xs, k + 1, Len(xs))

Reverse(xs) == [k \in 1..Len(xs) |-> xs[Len(xs) + 1 - k]]

\* ---- slicing ----------------------------------------------------------
SliceIndices(st, sp, sk, n) ==
  LET step     == IF sk = None THEN 1 ELSE sk
      defstart == IF step < 0 THEN n - 1 ELSE 0
      defstop  == IF step < 0 THEN -1    ELSE n
      clamp(v) == IF v < 0
                  THEN (IF v + n < 0 THEN (IF step < 0 THEN -1 ELSE 0) ELSE v + n)
                  ELSE (IF v >= n THEN (IF step < 0 THEN n - 1 ELSE n) ELSE v)
      start == IF st = None THEN defstart ELSE clamp(st)
      stop  == IF sp = None THEN defstop  ELSE clamp(sp)
      len   == IF step < 0
               THEN (IF stop < start THEN (start - stop - 1) \div (-step) + 1 ELSE 0)
               ELSE (IF start < stop THEN (stop - start - 1) \div step + 1 ELSE 0)
  IN << start, stop, step, len >>

\* 0-based source positions of the slice, in order
SlicePos(st, sp, sk, n) == LET r == SliceIndices(st, sp, sk, n)
                           IN  [k \in 1..r[4] |-> r[1] + (k - 1) * r[3]]

Slice(xs, st, sp, sk) == LET p == SlicePos(st, sp, sk, Len(xs))
                         IN  [k \in 1..Len(p) |-> xs[p[k] + 1]]
=============================================================================
