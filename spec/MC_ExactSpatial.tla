--------------------------- MODULE MC_ExactSpatial ---------------------------
EXTENDS ExactSpatial
ASSUME ThDuality
ASSUME ThCrmSelf
ASSUME ThInertiaSym
ASSUME ThParallelAxis
ASSUME ThMomentum
=============================================================================
