------------------------------ MODULE Dispatch ------------------------------
(***************************************************************************)
(* The operator table of DispatchTable as a state machine: one operator    *)
(* application (or per-value method call) per behaviour.                    *)
(***************************************************************************)
EXTENDS DispatchTable

\* ---------------------------------------------------------------------------
\* the state machine: one operator application per step
CONSTANTS Lens,          \* set of operand lengths explored
          OpSet, LeftKinds, RightKinds,
          Unary          \* TRUE: also explore the per-value methods
VARIABLES op, lft, rgt, out
vars == <<op, lft, rgt, out>>

Init == op = "none" /\ lft = [c |-> "none", n |-> 0] /\ rgt = lft /\ out = [doc |-> Unspec, len |-> 0, picks |-> <<>>]

\* The table is by CLASS, not by value: an object of a general class that happens to hold a value of its special
\* subclass (a Quaternion of unit norm, a DualQuaternion of a rigid motion) is still an object of the general class.
\* v: the value variant of an operand; the outcome does not depend on it.
Variants(c) == IF c \in {"Quaternion", "DualQuaternion"} THEN {"generic", "subclass-valued"} ELSE {"generic"}
Apply(o, L, m, R, n, vl, vr) ==
  /\ op = "none"                  \* one application per behaviour
  /\ (L \in Foreign => m = 1) /\ (R \in Foreign => n = 1)
  /\ (L \in Classes \/ R \in Classes)
  /\ vl \in Variants(L) /\ vr \in Variants(R)
  /\ op' = o /\ lft' = [c |-> L, n |-> m, v |-> vl] /\ rgt' = [c |-> R, n |-> n, v |-> vr]
  /\ out' = Outcome(o, L, m, R, n)

ApplyUnary(c, f, o, m) ==
  /\ op = "none"
  /\ c \in ListOps
  /\ f \in PerValue(c) \cup PerValueExtra(c)
  /\ o \in Opts(f)
  /\ (o = "twist" => c \in Pose)
  /\ op' = f /\ lft' = [c |-> c, n |-> m] /\ rgt' = [c |-> "none", n |-> 0, opt |-> o]
  /\ out' = MapOutcome(f \in PerValue(c), m)

\* X.interp(s) with a vector of k values of s on a single-valued X: k results, result i from s[i];
\* variants: explicit start / destination, shorter arc requested
InterpOpts(c) == IF c = "UnitQuaternion" THEN {"", "dest", "shortest", "dest+shortest"} ELSE {"", "start"}
ApplyInterp(c, k, o) ==
  /\ op = "none"
  /\ c \in Pose \cup {"UnitQuaternion"}
  /\ k >= 1
  /\ o \in InterpOpts(c)
  /\ op' = "interp" /\ lft' = [c |-> c, n |-> 1] /\ rgt' = [c |-> "svec", n |-> k, opt |-> o]
  /\ out' = [doc |-> [k |-> "map"], len |-> k, picks |-> [i \in 1..k |-> <<1, i>>]]

\* S.exp(theta) with S holding m twists and theta a vector of k angles: a vectorised method of TWO operands, the
\* binary length rule applies (1 x k, m x 1, m x m element-wise; two different lengths above 1: ValueError)
ApplyExp(c, m, k) ==
  /\ op = "none"
  /\ c \in Twists /\ m >= 1 /\ k >= 1
  /\ op' = "exp-vector" /\ lft' = [c |-> c, n |-> m] /\ rgt' = [c |-> "thetavec", n |-> k, opt |-> ""]
  /\ out' = LET r == BinLen(m, k) IN
            \* a ONE-element vector of angles with several twists: neither the scalar form nor a pairing - not decided
            IF m > 1 /\ k = 1 THEN [doc |-> Unspec, len |-> 0, picks |-> <<>>]
            ELSE IF r = Err THEN [doc |-> [k |-> "raise", e |-> "ValueError"], len |-> 0, picks |-> <<>>]
            ELSE [doc |-> [k |-> "map"], len |-> r, picks |-> [i \in 1..r |-> <<Pick(i, m), Pick(i, k)>>]]

Next ==
  \/ \E o \in OpSet : \E L \in LeftKinds : \E R \in RightKinds : \E m \in Lens : \E n \in Lens :
          \E vl \in {"generic", "subclass-valued"} : \E vr \in {"generic", "subclass-valued"} : Apply(o, L, m, R, n, vl, vr)
  \/ \E c \in LeftKinds : \E f \in UnaryNames : \E o \in AllOpts : \E m \in Lens : Unary /\ ApplyUnary(c, f, o, m)
  \/ \E c \in LeftKinds : \E k \in Lens : \E o \in {"", "start", "dest", "shortest", "dest+shortest"} :
        Unary /\ ApplyInterp(c, k, o)
  \/ \E c \in LeftKinds : \E m \in Lens : \E k \in Lens : Unary /\ ApplyExp(c, m, k)

Spec == Init /\ [][Next]_vars

\* ---------------------------------------------------------------------------
\* sanity of the table, checked by TLC on every reachable state / as assumptions
Dim2 == {"SO2", "SE2", "Twist2"}
Dim3 == {"SO3", "SE3", "Twist3", "Plucker", "SpatialInertia"} \cup SVec \cup Quats \cup DQuats
RotOnly == {"SO2", "SO3"}
Rigid   == {"SE2", "SE3"}

TableSanity ==
  /\ \A o \in ArithOps : \A L \in Dim2 : \A R \in Dim3 :
        Doc(o, L, R) = RaiseR /\ Doc(o, R, L) = RaiseR                    \* 2D with 3D
  /\ \A o \in ArithOps : \A L \in RotOnly : \A R \in Rigid :
        Doc(o, L, R) = RaiseR /\ Doc(o, R, L) = RaiseR                    \* rotation with rigid motion
  /\ \A o \in ArithOps : \A L \in Pose : \A R \in Quats \cup Twists :
        Doc(o, L, R) = RaiseR                                             \* matrices with quaternions/twists
  /\ \A o \in ArithOps : \A L \in Quats : \A R \in Pose \cup Twists : Doc(o, L, R) = RaiseR
  /\ \A o \in {"+", "-"} : \A L \in SVec : \A R \in SVec \ {L} : Doc(o, L, R) = RaiseR
  /\ \A o \in ArithOps : \A L \in Classes : \A R \in Classes :
        Doc(o, L, R).k # "unspec" \/ (L \in DQuats /\ R \in DQuats)        \* arithmetic obj x obj is decided
  /\ \A L \in Classes : \A R \in Classes : \A o \in Ops :
        Doc(o, L, R).k = "obj" => Doc(o, L, R).cls \in Classes
  /\ \A c \in Pose \cup Quats \cup Twists \cup {"Plucker"} : \A o \in CmpOps : Doc(o, c, c) = BoolR
  /\ \A c \in Pose \cup Quats \cup Twists : \A s \in Scalars : Doc("*", c, s) = Doc("*", s, c)

LenRule ==
  /\ \A m \in 1..5 : BinLen(m, m) = m /\ BinLen(1, m) = m /\ BinLen(m, 1) = m
  /\ \A m \in 2..5 : \A n \in 2..5 : m # n => BinLen(m, n) = Err

OutcomeOK ==
  /\ out.len = Len(out.picks)
  /\ (out.len > 0 => \A i \in 1..out.len :
        out.picks[i][1] \in 1..lft.n /\ (rgt.n > 0 => out.picks[i][2] \in 1..rgt.n))

EdgeOut == PrintT(ToJson([op |-> op', l |-> lft', r |-> rgt', out |-> out']))
=============================================================================
