INIT Init
NEXT Next
CONSTANTS
  StartLens <- Len0to4
  MaxDepth = 60
  MaxLen = 9
  Idx <- IdxSim
  SlStart <- SlSim
  SlStop <- SlSim
  SlStep <- StepSim
  ExtK <- K02
  Export = "hist"
CONSTRAINT Bound
INVARIANT HistOut
INVARIANT NoDuplicates
CHECK_DEADLOCK FALSE
