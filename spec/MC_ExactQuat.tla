---------------------------- MODULE MC_ExactQuat ----------------------------
EXTENDS ExactQuat
VARIABLE x
Init == x = 0
Next == x' = x
ASSUME ThAssoc
ASSUME ThDistrib
ASSUME ThNormMult
ASSUME ThConjRev
ASSUME ThQConjQ
ASSUME ThMatrix
ASSUME ThPow
ASSUME ThRate
ASSUME ThDQAssoc
ASSUME ThDQDistrib
ASSUME ThDQMatrix
ASSUME ThDQConj
ASSUME ThDQUnit
ASSUME ThDQHom
=============================================================================
